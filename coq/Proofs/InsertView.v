(* A structured view of what a typed insert expression generates: the column
   list and the tuples of values, and the proof that the token-level model of
   typedInsertExpr.addToQuery (Bind.v) refines it (C17, part 2). *)
From SQLair.Base Require Import Bytes.
From SQLair.Model Require Import GenConsts Reflect TypeInfo Parser Bind Scan MiniSql.
From SQLair.Proofs Require Import ItoaFacts BindFacts.

(* ----------------------------------------------------------- the view -- *)

Definition insert_columns (bcs : list bcol) : list str := map bc_column (live bcs).

(* the value of a column in a row: a single value is repeated in every row, a
   bulk column contributes its row-th value *)
Definition bc_value (bc : bcol) (row : nat) : val :=
  match bc_vals bc with
  | [v] => v
  | vs => nth row vs VNilIface
  end.

Definition insert_tuples (bcs : list bcol) (numRows : nat) : list (list val) :=
  map (fun r => map (fun bc => bc_value bc r) (live bcs)) (seq 0 numRows).

(* the SQL text of row r, column bc: a literal, or a placeholder *)
Definition ph (bc : bcol) (row : nat) : sqltok :=
  match bc_vals bc with
  | [] => TText (bc_literal bc)
  | [_] => TParam (bc_first bc)
  | _ => TParamBulk (bc_first bc + row)
  end.

Definition insert_toks (bcs : list bcol) (numRows : nat) : list (list sqltok) :=
  map (fun r => map (fun bc => ph bc r) (live bcs)) (seq 0 numRows).

(* the named arguments row r, column bc adds: a single value is named once
   (in row 0), a bulk value in its row *)
Definition ph_named (bc : bcol) (row : nat) : list (str * val) :=
  match bc_vals bc with
  | [] => []
  | [v] => if Nat.eqb row 0 then [(arg_name (bc_first bc), v)] else []
  | vs => [(arg_name (bc_first bc + row), nth row vs VNilIface)]
  end.

Definition insert_named (bcs : list bcol) (numRows : nat) : list (str * val) :=
  flat_map (fun r => flat_map (fun bc => ph_named bc r) (live bcs)) (seq 0 numRows).

Fixpoint opt_all {A B} (f : A -> option B) (l : list A) : option (list B) :=
  match l with
  | [] => Some []
  | x :: l' =>
      match f x, opt_all f l' with
      | Some y, Some r => Some (y :: r)
      | _, _ => None
      end
  end.

(* the INSERT statement a typed insert expression denotes for the arguments
   [m]: its column list and its tuples of driver values *)
Definition insert_denotation (env : tenv) (m : t2v) (e : texpr)
  : option (list str * list (list cell)) :=
  match e with
  | TInsert cols =>
      match bind_cols env m 0 [] cols false 1 [] with
      | BOk (bcs, _, _, numRows) =>
          option_map (fun tuples => (insert_columns bcs, tuples))
                     (opt_all (opt_all to_cell) (insert_tuples bcs numRows))
      | BErr _ => None
      end
  | _ => None
  end.

(* the value a placeholder token is bound to *)
Definition tok_value (named : list (str * val)) (t : sqltok) : option val :=
  match tok_num t with
  | Some n => assoc_str (arg_name n) named
  | None => None
  end.

(* ------------------------------------------------------ one row, rows -- *)

(* a row index is valid for a column: single values and literals serve any
   row, a bulk column has a value for it *)
Definition row_ok (row : nat) (bc : bcol) : Prop :=
  length (bc_vals bc) <= 1 \/ row < length (bc_vals bc).

Lemma parameter_spec bc row :
  row_ok row bc ->
  parameter bc row = BOk (ph bc row, match ph_named bc row with x :: _ => Some x | [] => None end).
Proof.
  unfold row_ok, parameter, ph, ph_named. intros H.
  destruct (bc_vals bc) as [|v [|w vs]] eqn:E; [reflexivity| |].
  - destruct (Nat.eqb row 0); reflexivity.
  - destruct H as [H|H]; [simpl in H; lia|].
    destruct (nth_error (v :: w :: vs) row) as [x|] eqn:N.
    + rewrite (nth_error_nth _ _ VNilIface N). reflexivity.
    + apply nth_error_None in N. lia.
Qed.

Lemma ph_named_short bc row : length (ph_named bc row) <= 1.
Proof.
  unfold ph_named. destruct (bc_vals bc) as [|v [|w vs]]; simpl; try lia.
  destruct (Nat.eqb row 0); simpl; lia.
Qed.

Lemma insert_row_spec row bcs : forall sqls named,
  Forall (row_ok row) bcs ->
  insert_row bcs row sqls named =
  BOk (sqls ++ map (fun bc => ph bc row) (live bcs),
       named ++ flat_map (fun bc => ph_named bc row) (live bcs)).
Proof.
  induction bcs as [|bc rest IH]; intros sqls named F.
  - simpl. rewrite !app_nil_r. reflexivity.
  - inversion F as [|? ? Hbc Frest]; subst. cbn [insert_row]. unfold live. cbn [filter].
    destruct (bc_omit bc) eqn:O; cbn [negb].
    + apply IH. exact Frest.
    + rewrite (parameter_spec bc row Hbc). cbn [bbind].
      rewrite IH by exact Frest. unfold live. cbn [map flat_map].
      rewrite <- !app_assoc. cbn [app]. f_equal. f_equal.
      pose proof (ph_named_short bc row) as L.
      destruct (ph_named bc row) as [|x [|y l]]; cbn [app].
      * reflexivity.
      * rewrite <- app_assoc. reflexivity.
      * simpl in L. lia.
Qed.

Lemma insert_rows_spec bcs : forall rows rowsSQL named,
  Forall (fun r => Forall (row_ok r) bcs) rows ->
  insert_rows bcs rows rowsSQL named =
  BOk (rowsSQL ++ map (fun r => map (fun bc => ph bc r) (live bcs)) rows,
       named ++ flat_map (fun r => flat_map (fun bc => ph_named bc r) (live bcs)) rows).
Proof.
  induction rows as [|r rows IH]; intros rowsSQL named F.
  - simpl. rewrite !app_nil_r. reflexivity.
  - inversion F as [|? ? Hr Frest]; subst. cbn [insert_rows].
    rewrite (insert_row_spec r bcs [] named Hr). cbn [bbind app].
    rewrite IH by exact Frest. cbn [map flat_map]. rewrite <- !app_assoc. reflexivity.
Qed.

(* ------------------------------------------------ bind_cols: row counts -- *)

Definition len_ok (numRows : nat) (bc : bcol) : Prop :=
  length (bc_vals bc) <= 1 \/ length (bc_vals bc) = numRows.

Lemma bind_col_nonbulk env m cnt c bc cnt' :
  bind_col env m cnt c = BOk (bc, cnt') -> bc_bulk bc = false -> length (bc_vals bc) <= 1.
Proof.
  destruct c as [input column explicit|column literal]; cbn [bind_col]; intros H B.
  - destruct (locate_params env input m) as [p|e]; cbn [bbind] in H; [|discriminate].
    destruct (negb (p_bulk p) && Nat.ltb 1 (length (p_vals p))) eqn:C; [discriminate|].
    destruct (p_omit p && explicit); [discriminate|].
    destruct (p_omit p); inversion H; subst; cbn [bc_bulk bc_vals] in *;
      rewrite B in C; simpl in C; apply Nat.ltb_ge in C; exact C.
  - inversion H; subst. simpl. lia.
Qed.

Lemma bind_cols_len env m : forall cols cnt used (bulk : bool) numRows acc bcs cnt' used' numRows',
  (if bulk then Forall (len_ok numRows) acc else Forall (fun bc => length (bc_vals bc) <= 1) acc) ->
  bind_cols env m cnt used cols bulk numRows acc = BOk (bcs, cnt', used', numRows') ->
  Forall (len_ok numRows') bcs.
Proof.
  induction cols as [|c rest IH]; intros cnt used bulk numRows acc bcs cnt' used' numRows' Inv H.
  - cbn [bind_cols] in H. inversion H; subst. destruct bulk; [exact Inv|].
    eapply Forall_impl; [|exact Inv]. intros bc L. left. exact L.
  - cbn [bind_cols] in H.
    destruct (bind_col env m cnt c) as [[bc c1]|e] eqn:BC; cbn [bbind] in H; [|discriminate].
    destruct (bc_bulk bc) eqn:B.
    + destruct bulk; cbn [negb] in H.
      * destruct (Nat.eqb (length (bc_vals bc)) numRows) eqn:L; cbn [negb] in H; [|discriminate].
        apply Nat.eqb_eq in L. eapply IH; [|exact H]. cbn.
        apply Forall_app. split; [exact Inv|]. constructor; [right; exact L|constructor].
      * eapply IH; [|exact H]. cbn. apply Forall_app. split.
        -- eapply Forall_impl; [|exact Inv]. intros b Lb. left. exact Lb.
        -- constructor; [right; reflexivity|constructor].
    + pose proof (bind_col_nonbulk _ _ _ _ _ _ BC B) as L.
      eapply IH; [|exact H]. destruct bulk.
      * apply Forall_app. split; [exact Inv|]. constructor; [left; exact L|constructor].
      * apply Forall_app. split; [exact Inv|]. constructor; [exact L|constructor].
Qed.

Lemma len_ok_rows numRows bcs :
  Forall (len_ok numRows) bcs ->
  Forall (fun r => Forall (row_ok r) bcs) (seq 0 numRows).
Proof.
  intros F. apply Forall_forall. intros r Hr. apply in_seq in Hr.
  eapply Forall_impl; [|exact F]. intros bc [L|L]; [left; exact L|right; lia].
Qed.

(* ----------------------------------------- the refinement (token level) -- *)

(* typedInsertExpr.addToQuery appends exactly writeInsert(columns, rows) where
   row r, column c is the literal / placeholder [ph] of the c-th live column,
   and appends exactly the named arguments [insert_named], in row-major
   order. *)
Lemma add_to_query_insert env m q cols q' :
  add_to_query env m q (TInsert cols) = BOk q' ->
  exists bcs cnt used numRows,
    bind_cols env m (q_inputCount q) (q_argUsed q) cols false 1 [] = BOk (bcs, cnt, used, numRows) /\
    q_sql q' = q_sql q ++ write_insert (insert_columns bcs) (insert_toks bcs numRows) /\
    q_named q' = q_named q ++ insert_named bcs numRows /\
    q_inputCount q' = cnt /\ q_argUsed q' = used /\
    q_outputs q' = q_outputs q /\ q_outputCount q' = q_outputCount q.
Proof.
  cbn [add_to_query]. intros H.
  destruct (bind_cols env m (q_inputCount q) (q_argUsed q) cols false 1 [])
    as [[[[bcs cnt] used] numRows]|e] eqn:BC; cbn [bbind] in H; [|discriminate].
  assert (L : Forall (len_ok numRows) bcs).
  { eapply bind_cols_len; [|exact BC]. constructor. }
  rewrite (insert_rows_spec bcs (seq 0 numRows) [] (q_named q) (len_ok_rows _ _ L)) in H.
  cbn [bbind app] in H. inversion H; subst; clear H.
  exists bcs, cnt, used, numRows. repeat split; reflexivity.
Qed.

(* every row of the generated statement has one entry per column *)
Lemma insert_toks_rect bcs numRows :
  Forall (fun r => length r = length (insert_columns bcs)) (insert_toks bcs numRows) /\
  length (insert_toks bcs numRows) = numRows.
Proof.
  unfold insert_toks, insert_columns. split.
  - apply Forall_forall. intros r Hr. apply in_map_iff in Hr. destruct Hr as [i [E _]]. subst.
    rewrite !map_length. reflexivity.
  - rewrite map_length, seq_length. reflexivity.
Qed.
