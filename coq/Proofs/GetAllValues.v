(* C15 at value level: Query.GetAll scans every row into fresh elements, one
   per destination slice, and appends them in row order; any failing row ends
   the call with nothing appended. *)
From SQLair.Base Require Import Bytes.
From SQLair.Model Require Import GenConsts Reflect TypeInfo Bind Scan.

Definition row_elements (env : tenv) (outputs : list locator) (cols : list str) (elems : list selem)
  (cells : list cell) (vals : list val) : Prop :=
  exists m, scan_row env outputs cols cells (map (fresh_arg env) elems) = (Some m, None) /\
            vals = map (fun '(e, (_, v)) => appended e v) (combine elems m).

Lemma getall_rows_spec env outputs cols elems : forall rows acc acc',
  getall_rows env outputs cols elems rows acc = SOk acc' ->
  exists news, acc' = acc ++ news /\ Forall2 (row_elements env outputs cols elems) rows news.
Proof.
  induction rows as [|cells rest IH]; intros acc acc' H; cbn [getall_rows] in H.
  - inversion H; subst. exists []. rewrite app_nil_r. split; [reflexivity|constructor].
  - destruct (scan_row env outputs cols cells (map (fresh_arg env) elems)) as [[m|] [e|]] eqn:S;
      try discriminate.
    apply IH in H. destruct H as [news [E F]].
    exists (map (fun '(e, (_, v)) => appended e v) (combine elems m) :: news). split.
    + rewrite E, <- app_assoc. reflexivity.
    + constructor; [|exact F]. exists m. split; [exact S|reflexivity].
Qed.

(* one element per row, in row order, after what was there *)
Theorem getall_values env outputs cols elems rows news :
  getall_rows env outputs cols elems rows [] = SOk news ->
  length news = length rows /\ Forall2 (row_elements env outputs cols elems) rows news.
Proof.
  intros H. apply getall_rows_spec in H. destruct H as [n [E F]]. simpl in E. subst n.
  split; [|exact F]. clear -F. induction F as [|c v rs ns _ _ IH]; simpl; [reflexivity|]. rewrite IH. reflexivity.
Qed.

(* a row that cannot be stored makes the whole call fail: no partial result *)
Theorem getall_row_error env outputs cols elems : forall pre cells post acc e d,
  Forall (fun c => exists m, scan_row env outputs cols c (map (fresh_arg env) elems) = (Some m, None)) pre ->
  scan_row env outputs cols cells (map (fresh_arg env) elems) = (d, Some e) ->
  getall_rows env outputs cols elems (pre ++ cells :: post) acc = SErr e.
Proof.
  induction pre as [|c pre IH]; intros cells post acc e d F S; cbn [app getall_rows].
  - rewrite S. destruct d; reflexivity.
  - inversion F as [|x l [m Hm] F']; subst. rewrite Hm. eapply IH; eassumption.
Qed.

(* every row is scanned into elements that no other row has touched: the
   element of row i does not depend on the other rows *)
Theorem getall_rows_independent env outputs cols elems rows news i cells vals :
  getall_rows env outputs cols elems rows [] = SOk news ->
  nth_error rows i = Some cells -> nth_error news i = Some vals ->
  row_elements env outputs cols elems cells vals.
Proof.
  intros H R N. apply getall_values in H. destruct H as [_ F].
  revert i R N. induction F as [|c v rs ns Hcv F IH]; intros i R N.
  - destruct i; discriminate.
  - destruct i as [|i]; cbn [nth_error] in R, N.
    + inversion R; inversion N; subst. exact Hcv.
    + eapply IH; eassumption.
Qed.
