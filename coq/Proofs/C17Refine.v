(* C17, part 2 continued: the placeholders of a generated INSERT are bound (in
   the named arguments) to the values of the structured view; the generated
   statement and the hand-written one denote the same insert; what `$T.*` and
   `&T.*` expand to. *)
From Coq Require Import String.
From SQLair.Base Require Import Bytes Sexp.
From SQLair.Model Require Import GenConsts Reflect TypeInfo Parser Bind Scan MiniSql.
From SQLair.Proofs Require Import ItoaFacts BindFacts InsertView PathFacts RoundTrip
  RoundTripMain StructFields C17Proofs.

(* ------------------------------------------------ placeholder numbering -- *)

(* no argument numbered cnt or more has been named yet *)
Definition fresh_from (cnt : nat) (named : list (str * val)) : Prop :=
  forall i, cnt <= i -> assoc_str (arg_name i) named = None.

(* the non-omitted columns with values take consecutive blocks of argument
   numbers, from cnt up to cnt' *)
Fixpoint alloc (cnt : nat) (bcs : list bcol) (cnt' : nat) : Prop :=
  match bcs with
  | [] => cnt' = cnt
  | bc :: rest =>
      if bc_omit bc then alloc cnt rest cnt'
      else (bc_vals bc = [] \/ bc_first bc = cnt) /\ alloc (cnt + length (bc_vals bc)) rest cnt'
  end.

Lemma alloc_app l1 : forall a b c l2, alloc a l1 b -> alloc b l2 c -> alloc a (l1 ++ l2) c.
Proof.
  induction l1 as [|bc l1 IH]; intros a b c l2 H1 H2; cbn [app alloc] in *.
  - subst b. exact H2.
  - destruct (bc_omit bc).
    + eapply IH; eassumption.
    + destruct H1 as [F H1]. split; [exact F|]. eapply IH; eassumption.
Qed.

Lemma bind_col_alloc env m cnt c bc cnt' :
  bind_col env m cnt c = BOk (bc, cnt') -> alloc cnt [bc] cnt'.
Proof.
  destruct c as [input column explicit|column literal]; cbn [bind_col]; intros H.
  - destruct (locate_params env input m) as [p|e]; cbn [bbind] in H; [|discriminate].
    destruct (negb (p_bulk p) && Nat.ltb 1 (length (p_vals p))); [discriminate|].
    destruct (p_omit p && explicit); [discriminate|].
    destruct (p_omit p) eqn:O; inversion H; subst; cbn [alloc bc_omit bc_vals bc_first].
    + reflexivity.
    + split; [right; reflexivity|reflexivity].
  - inversion H; subst. cbn [alloc bc_omit bc_vals length]. split; [left; reflexivity|lia].
Qed.

Lemma bind_cols_alloc env m : forall cols cnt used bulk numRows acc bcs cnt' used' numRows' c0,
  alloc c0 acc cnt ->
  bind_cols env m cnt used cols bulk numRows acc = BOk (bcs, cnt', used', numRows') ->
  alloc c0 bcs cnt'.
Proof.
  induction cols as [|c rest IH]; intros cnt used bulk numRows acc bcs cnt' used' numRows' c0 A H.
  - cbn [bind_cols] in H. inversion H; subst. exact A.
  - cbn [bind_cols] in H.
    destruct (bind_col env m cnt c) as [[bc c1]|e] eqn:BC; cbn [bbind] in H; [|discriminate].
    pose proof (alloc_app _ _ _ _ _ A (bind_col_alloc _ _ _ _ _ _ BC)) as A1.
    destruct (bc_bulk bc).
    + destruct (negb bulk).
      * eapply IH; [exact A1|exact H].
      * destruct (negb (Nat.eqb (length (bc_vals bc)) numRows)); [discriminate|].
        eapply IH; [exact A1|exact H].
    + eapply IH; [exact A1|exact H].
Qed.

Lemma alloc_bounds : forall bcs cnt cnt',
  alloc cnt bcs cnt' ->
  cnt <= cnt' /\
  forall bc, In bc (live bcs) -> bc_vals bc <> [] ->
             cnt <= bc_first bc /\ bc_first bc + length (bc_vals bc) <= cnt'.
Proof.
  induction bcs as [|b bcs IH]; intros cnt cnt' A; cbn [alloc] in A.
  - subst. split; [lia|intros bc []].
  - unfold live. cbn [filter]. destruct (bc_omit b); cbn [negb].
    + apply IH. exact A.
    + destruct A as [F A]. destruct (IH _ _ A) as [L B]. split; [lia|].
      intros bc [E|Hin] NE.
      * subst b. destruct F as [F|F]; [congruence|]. lia.
      * destruct (B bc Hin NE). lia.
Qed.

Lemma alloc_disjoint : forall bcs cnt cnt',
  alloc cnt bcs cnt' ->
  forall b1 b2 i, In b1 (live bcs) -> In b2 (live bcs) ->
    bc_vals b1 <> [] -> bc_vals b2 <> [] ->
    bc_first b1 <= i < bc_first b1 + length (bc_vals b1) ->
    bc_first b2 <= i < bc_first b2 + length (bc_vals b2) ->
    b1 = b2.
Proof.
  induction bcs as [|b bcs IH]; intros cnt cnt' A b1 b2 i H1 H2 N1 N2 I1 I2; [contradiction|].
  cbn [alloc] in A. unfold live in H1, H2. cbn [filter] in H1, H2.
  destruct (bc_omit b); cbn [negb] in H1, H2.
  - eapply IH; eassumption.
  - destruct A as [F A]. destruct (alloc_bounds _ _ _ A) as [_ B].
    destruct H1 as [E1|H1], H2 as [E2|H2].
    + congruence.
    + subst b1. destruct F as [F|F]; [congruence|]. destruct (B b2 H2 N2). lia.
    + subst b2. destruct F as [F|F]; [congruence|]. destruct (B b1 H1 N1). lia.
    + eapply IH; eassumption.
Qed.

(* ------------------------------------------------------ looking values up -- *)

Lemma assoc_str_app {A} k (l1 l2 : list (str * A)) :
  assoc_str k (l1 ++ l2) = match assoc_str k l1 with Some v => Some v | None => assoc_str k l2 end.
Proof.
  induction l1 as [|[k0 v0] l1 IH]; [reflexivity|]. cbn [app assoc_str].
  destruct (str_eqb k k0); [reflexivity|exact IH].
Qed.

Lemma assoc_str_functional {A} k (v : A) l :
  In (k, v) l -> (forall v', In (k, v') l -> v' = v) -> assoc_str k l = Some v.
Proof.
  induction l as [|[k0 v0] l IH]; intros Hin F; [contradiction|]. cbn [assoc_str].
  destruct (str_eqb k k0) eqn:E.
  - apply str_eqb_eq in E. subst k0. f_equal. apply F. left. reflexivity.
  - destruct Hin as [Hin|Hin]; [inversion Hin; subst; rewrite str_eqb_refl in E; discriminate|].
    apply IH; [exact Hin|]. intros v' H. apply F. right. exact H.
Qed.

Lemma assoc_str_notin {A} k (l : list (str * A)) :
  (forall v, ~ In (k, v) l) -> assoc_str k l = None.
Proof.
  induction l as [|[k0 v0] l IH]; intros H; [reflexivity|]. cbn [assoc_str].
  destruct (str_eqb k k0) eqn:E.
  - apply str_eqb_eq in E. subst k0. exfalso. apply (H v0). left. reflexivity.
  - apply IH. intros v Hin. apply (H v). right. exact Hin.
Qed.

(* the argument number of the placeholder of a column in a row *)
Definition ph_index (bc : bcol) (row : nat) : nat :=
  match bc_vals bc with
  | [_] => bc_first bc
  | _ => bc_first bc + row
  end.

Lemma tok_num_ph bc row : bc_vals bc <> [] -> tok_num (ph bc row) = Some (ph_index bc row).
Proof.
  unfold ph, ph_index. destruct (bc_vals bc) as [|v [|w vs]]; [congruence|reflexivity|reflexivity].
Qed.

(* an entry of the named arguments of the statement: where it comes from *)
Lemma in_insert_named bcs numRows k v :
  In (k, v) (insert_named bcs numRows) <->
  exists r bc, r < numRows /\ In bc (live bcs) /\ In (k, v) (ph_named bc r).
Proof.
  unfold insert_named. rewrite in_flat_map. split.
  - intros [r [Hr H]]. apply in_seq in Hr. apply in_flat_map in H. destruct H as [bc [Hbc H]].
    exists r, bc. split; [lia|]. split; assumption.
  - intros [r [bc [Hr [Hbc H]]]]. exists r. split; [apply in_seq; lia|].
    apply in_flat_map. exists bc. split; assumption.
Qed.

(* an entry of [ph_named]: its number lies in the block of its column, and it
   is the entry of that number *)
Lemma ph_named_entry numRows bc r k v :
  len_ok numRows bc -> r < numRows -> In (k, v) (ph_named bc r) ->
  bc_vals bc <> [] /\ k = arg_name (ph_index bc r) /\ v = bc_value bc r /\
  bc_first bc <= ph_index bc r < bc_first bc + length (bc_vals bc).
Proof.
  unfold ph_named, ph_index, bc_value, len_ok. intros L Hr H.
  destruct (bc_vals bc) as [|a [|b vs]] eqn:E; [contradiction| |].
  - destruct (Nat.eqb r 0); [|contradiction]. destruct H as [H|[]]. inversion H; subst.
    repeat split; try discriminate; cbn [length]; lia.
  - destruct H as [H|[]]. inversion H; subst.
    destruct L as [L|L]; [cbn [length] in L; lia|].
    repeat split; try discriminate; lia.
Qed.

Lemma ph_named_has numRows bc r :
  len_ok numRows bc -> r < numRows -> bc_vals bc <> [] ->
  exists r', r' < numRows /\ In (arg_name (ph_index bc r), bc_value bc r) (ph_named bc r') /\
             bc_first bc <= ph_index bc r < bc_first bc + length (bc_vals bc).
Proof.
  unfold ph_named, ph_index, bc_value, len_ok. intros L Hr NE.
  destruct (bc_vals bc) as [|a [|b vs]] eqn:E; [congruence| |].
  - exists 0. split; [lia|]. split; [left; reflexivity|cbn [length]; lia].
  - exists r. split; [exact Hr|]. split; [left; reflexivity|].
    destruct L as [L|L]; [cbn [length] in L; lia|]. lia.
Qed.

(* The placeholder of row r, column bc is bound, in the named arguments after
   the insert expression, to the value of that column in that row. *)
Lemma insert_lookup bcs numRows cnt cnt' named0 :
  alloc cnt bcs cnt' -> Forall (len_ok numRows) bcs -> fresh_from cnt named0 ->
  forall r bc, r < numRows -> In bc (live bcs) -> bc_vals bc <> [] ->
  tok_value (named0 ++ insert_named bcs numRows) (ph bc r) = Some (bc_value bc r).
Proof.
  intros A L Fr r bc Hr Hbc NE.
  assert (Llive : forall b, In b (live bcs) -> len_ok numRows b).
  { intros b Hb. unfold live in Hb. apply filter_In in Hb. rewrite Forall_forall in L. apply L. tauto. }
  unfold tok_value. rewrite (tok_num_ph bc r NE), assoc_str_app.
  destruct (ph_named_has numRows bc r (Llive bc Hbc) Hr NE) as [r0 [Hr0 [Hin Blk]]].
  destruct (alloc_bounds _ _ _ A) as [_ B]. destruct (B bc Hbc NE) as [Lo _].
  rewrite (Fr (ph_index bc r)) by lia.
  apply assoc_str_functional.
  - apply in_insert_named. exists r0, bc. split; [exact Hr0|]. split; assumption.
  - intros v' H. apply in_insert_named in H. destruct H as [r' [bc' [Hr' [Hbc' H]]]].
    destruct (ph_named_entry numRows bc' r' _ _ (Llive bc' Hbc') Hr' H) as [NE' [Ek [Ev Blk']]].
    apply arg_name_inj in Ek. rewrite Ek in Blk.
    assert (bc = bc') by (eapply alloc_disjoint; eassumption). subst bc'.
    rewrite Ev. unfold bc_value. unfold ph_index in Ek.
    destruct (bc_vals bc) as [|a [|b vs]]; [congruence|reflexivity|].
    assert (r = r') by lia. subst r'. reflexivity.
Qed.

Lemma insert_named_fresh bcs numRows cnt cnt' named0 :
  alloc cnt bcs cnt' -> Forall (len_ok numRows) bcs -> fresh_from cnt named0 ->
  fresh_from cnt' (named0 ++ insert_named bcs numRows).
Proof.
  intros A L Fr i Hi. destruct (alloc_bounds _ _ _ A) as [Le B].
  rewrite assoc_str_app, (Fr i) by lia.
  apply assoc_str_notin. intros v H. apply in_insert_named in H.
  destruct H as [r [bc [Hr [Hbc H]]]].
  assert (Lb : len_ok numRows bc).
  { unfold live in Hbc. apply filter_In in Hbc. rewrite Forall_forall in L. apply L. tauto. }
  destruct (ph_named_entry numRows bc r _ _ Lb Hr H) as [NE [Ek [_ Blk]]].
  apply arg_name_inj in Ek. destruct (B bc Hbc NE). lia.
Qed.

(* The refinement, with the values: the statement is writeInsert(columns,
   rows), and row r / column bc of it is a placeholder whose named argument is
   the value the structured view has there. *)
Theorem add_to_query_insert_values env m q cols q' :
  add_to_query env m q (TInsert cols) = BOk q' ->
  fresh_from (q_inputCount q) (q_named q) ->
  exists bcs cnt used numRows,
    bind_cols env m (q_inputCount q) (q_argUsed q) cols false 1 [] = BOk (bcs, cnt, used, numRows) /\
    q_sql q' = q_sql q ++ write_insert (insert_columns bcs) (insert_toks bcs numRows) /\
    (forall r bc, r < numRows -> In bc (live bcs) -> bc_vals bc <> [] ->
       tok_value (q_named q') (ph bc r) = Some (bc_value bc r)) /\
    fresh_from (q_inputCount q') (q_named q').
Proof.
  intros H Fr.
  destruct (add_to_query_insert env m q cols q' H)
    as [bcs [cnt [used [numRows [BC [Sq [Nm [Ic _]]]]]]]].
  exists bcs, cnt, used, numRows.
  assert (A : alloc (q_inputCount q) bcs cnt).
  { eapply bind_cols_alloc; [|exact BC]. reflexivity. }
  assert (L : Forall (len_ok numRows) bcs).
  { eapply bind_cols_len; [|exact BC]. constructor. }
  split; [exact BC|]. split; [exact Sq|]. rewrite Nm, Ic. split.
  - intros r bc Hr Hbc NE. eapply insert_lookup; eassumption.
  - eapply insert_named_fresh; eassumption.
Qed.

(* the invariant holds throughout BindInputs *)
Lemma add_to_query_fresh env m q e q' :
  add_to_query env m q e = BOk q' ->
  fresh_from (q_inputCount q) (q_named q) -> fresh_from (q_inputCount q') (q_named q').
Proof.
  intros H Fr. destruct e as [chunk|input|cols|ocs].
  - cbn [add_to_query] in H. inversion H; subst. exact Fr.
  - cbn [add_to_query] in H. destruct (locate_params env input m) as [p|e]; cbn [bbind] in H; [|discriminate].
    destruct (p_omit p); [discriminate|]. destruct (p_bulk p); [discriminate|].
    inversion H; subst; clear H.
    match goal with |- context [add_inputs ?q1 ?vs] =>
      destruct (add_inputs_spec q1 vs) as [C [_ [N _]]]; cbv zeta in C, N; rewrite C, N end.
    cbn [qb_with q_inputCount q_named].
    intros i Hi. rewrite assoc_str_app, (Fr i) by lia.
    apply assoc_str_notin. intros v Hin. apply in_map_iff in Hin.
    destruct Hin as [[j w] [E Hj]]. inversion E as [[Ek Ev]].
    apply itoa_nat_inj in Ek. subst j. apply in_combine_l in Hj. apply in_seq in Hj. lia.
  - destruct (add_to_query_insert_values env m q cols q' H Fr) as [? [? [? [? [_ [_ [_ F]]]]]]]. exact F.
  - cbn [add_to_query] in H. inversion H; subst. exact Fr.
Qed.

Lemma add_all_fresh env m : forall es q q',
  add_all env m q es = BOk q' ->
  fresh_from (q_inputCount q) (q_named q) -> fresh_from (q_inputCount q') (q_named q').
Proof.
  induction es as [|e es IH]; intros q q' H Fr; cbn [add_all] in H.
  - inversion H; subst. exact Fr.
  - destruct (add_to_query env m q e) as [q1|err] eqn:E; cbn [bbind] in H; [|discriminate].
    eapply IH; [exact H|]. eapply add_to_query_fresh; eassumption.
Qed.

Lemma qb_init_fresh : fresh_from (q_inputCount qb_init) (q_named qb_init).
Proof. intros i _. reflexivity. Qed.

(* --------------------------------------- generated = hand-written insert -- *)

Lemma opt_all_ext_in {A B} (f g : A -> option B) l :
  (forall x, In x l -> f x = g x) -> opt_all f l = opt_all g l.
Proof.
  induction l as [|a l IH]; intros H; [reflexivity|]. cbn [opt_all].
  rewrite (H a (or_introl eq_refl)), IH; [reflexivity|]. intros x Hx. apply H. right. exact Hx.
Qed.

Lemma opt_all_map_comp {A B C} (f : B -> option C) (g : A -> B) l :
  opt_all f (map g l) = opt_all (fun x => f (g x)) l.
Proof. induction l as [|a l IH]; [reflexivity|]. cbn [map opt_all]. rewrite IH. reflexivity. Qed.

(* what the driver receives for a placeholder token *)
Definition tok_cell (named : list (str * val)) (t : sqltok) : option cell :=
  match tok_value named t with Some v => to_cell v | None => None end.

(* the INSERT a generated statement (columns, rows of placeholders, named
   arguments) denotes *)
Definition generated_insert (cols : list str) (rows : list (list sqltok))
  (named : list (str * val)) : option (list str * list (list cell)) :=
  option_map (fun tuples => (cols, tuples)) (opt_all (opt_all (tok_cell named)) rows).

(* the INSERT the hand-written `INSERT INTO t (cols) VALUES (?, ..), ..` with
   the values [rows] as arguments denotes *)
Definition handwritten_insert (cols : list str) (rows : list (list val))
  : option (list str * list (list cell)) :=
  option_map (fun tuples => (cols, tuples)) (opt_all (opt_all to_cell) rows).

Theorem equiv_handwritten env m q cols q' :
  add_to_query env m q (TInsert cols) = BOk q' ->
  fresh_from (q_inputCount q) (q_named q) ->
  exists bcs cnt used numRows,
    bind_cols env m (q_inputCount q) (q_argUsed q) cols false 1 [] = BOk (bcs, cnt, used, numRows) /\
    q_sql q' = q_sql q ++ write_insert (insert_columns bcs) (insert_toks bcs numRows) /\
    ((forall bc, In bc (live bcs) -> bc_vals bc <> []) ->
     generated_insert (insert_columns bcs) (insert_toks bcs numRows) (q_named q') =
     handwritten_insert (insert_columns bcs) (insert_tuples bcs numRows)).
Proof.
  intros H Fr.
  destruct (add_to_query_insert_values env m q cols q' H Fr)
    as [bcs [cnt [used [numRows [BC [Sq [Lk _]]]]]]].
  exists bcs, cnt, used, numRows. split; [exact BC|]. split; [exact Sq|].
  intros NL. unfold generated_insert, handwritten_insert, insert_toks, insert_tuples. f_equal.
  rewrite !opt_all_map_comp. apply opt_all_ext_in. intros r Hr. apply in_seq in Hr.
  rewrite !opt_all_map_comp. apply opt_all_ext_in. intros bc Hbc.
  unfold tok_cell. rewrite (Lk r bc) by (try lia; try assumption; apply NL; exact Hbc). reflexivity.
Qed.

(* ----------------------------------------- what `$T.*` and `&T.*` bind to -- *)

Lemma is_star_star : is_star star = true.
Proof. reflexivity. Qed.

(* `(*) VALUES ($T.*)` binds to the typed insert expression over the struct's
   members *)
Lemma asterisk_expansion env b raw T a ms :
  assoc_str T (b_infos b) = Some a -> get_all_struct_members a = BOk ms ->
  exists b1,
    bind_expr env b (AsteriskIns raw [{| tname := T; mname := star |}])
      = BOk (add_expr b1 (TInsert (star_insert ms))) /\
    b_exprs b1 = b_exprs b.
Proof.
  intros HA HM. cbn [bind_expr asterisk_sources tname mname]. rewrite is_star_star.
  unfold all_struct_inputs, get_arg. rewrite HA. cbn [bbind]. rewrite HM. cbn [bbind asterisk_sources app].
  eexists. split; [reflexivity|reflexivity].
Qed.

(* `&T.*` binds to the typed output expression over the same members, the
   columns being the tags *)
Lemma output_expansion env b raw T a ms b' :
  assoc_str T (b_infos b) = Some a -> get_all_struct_members a = BOk ms ->
  bind_expr env b (Output raw [] [{| tname := T; mname := star |}]) = BOk b' ->
  b_exprs b' = b_exprs b ++ [TOutput ms].
Proof.
  intros HA HM. cbn [bind_expr length Nat.eqb orb output_generated tname mname].
  rewrite is_star_star. unfold all_struct_outputs, get_arg. rewrite HA. cbn [bbind]. rewrite HM.
  cbn [bbind].
  match goal with |- context [mark_outputs ?e ?b0 ?l] => destruct (mark_outputs e b0 l) as [b2|err] eqn:MO end;
    cbn [bbind output_generated app]; [|discriminate].
  intros H. inversion H; subst; clear H. cbn [add_expr b_exprs].
  assert (E : map (fun '(tag, l) => (tag, l)) ms = ms).
  { clear. induction ms as [|[tag l] ms IH]; [reflexivity|]. cbn [map]. rewrite IH. reflexivity. }
  rewrite E.
  assert (X : forall ms0 b0 b3, mark_outputs env b0 ms0 = BOk b3 -> b_exprs b3 = b_exprs b0).
  { clear. induction ms0 as [|[tag l] ms0 IH]; intros b0 b3 H; cbn [mark_outputs] in H.
    - inversion H; subst. reflexivity.
    - unfold mark_output in H. destruct (existsb _ _); cbn [bbind] in H; [discriminate|].
      apply IH in H. exact H. }
  rewrite (X _ _ _ MO). reflexivity.
Qed.

(* the select list of the generated statement: the columns under the aliases
   _sqlair_<n> *)
Lemma select_list_tok_sep sep items :
  select_list (tok_sep sep items) = flat_map select_list items.
Proof.
  unfold select_list. induction items as [|x rest IH]; [reflexivity|].
  destruct rest as [|y rest'].
  - cbn [tok_sep flat_map]. rewrite app_nil_r. reflexivity.
  - change (tok_sep sep (x :: y :: rest')) with (x ++ [TText sep] ++ tok_sep sep (y :: rest')).
    rewrite !flat_map_app, IH. reflexivity.
Qed.

Lemma select_list_write_output n cols :
  select_list (write_output n cols) = combine cols (map marker_name (seq n (length cols))).
Proof.
  unfold write_output, comma_list. rewrite select_list_tok_sep.
  assert (G : forall cs k,
    flat_map select_list (map (fun '(i, c) => [TOut c (n + i)]) (combine (seq k (length cs)) cs)) =
    combine cs (map marker_name (seq (n + k) (length cs)))).
  { induction cs as [|c cs IH]; intros k; [reflexivity|].
    cbn [length seq combine map flat_map]. rewrite IH, Nat.add_succ_r. reflexivity. }
  rewrite G, Nat.add_0_r. reflexivity.
Qed.

(* ------------------------------- the round trip at the statement level -- *)

Lemma add_to_query_insert_ok env m q cols bcs cnt used numRows :
  bind_cols env m (q_inputCount q) (q_argUsed q) cols false 1 [] = BOk (bcs, cnt, used, numRows) ->
  add_to_query env m q (TInsert cols) =
  BOk (qb_with q cnt used (q_sql q ++ write_insert (insert_columns bcs) (insert_toks bcs numRows))
               (q_named q ++ insert_named bcs numRows)).
Proof.
  intros BC. cbn [add_to_query]. rewrite BC. cbn [bbind].
  assert (L : Forall (len_ok numRows) bcs).
  { eapply bind_cols_len; [|exact BC]. constructor. }
  rewrite (insert_rows_spec bcs (seq 0 numRows) [] (q_named q) (len_ok_rows _ _ L)).
  reflexivity.
Qed.

Lemma combine_fst_snd_len {A B} (l1 : list A) : forall (l2 : list B),
  length l2 = length l1 -> map fst (combine l1 l2) = l1 /\ map snd (combine l1 l2) = l2.
Proof.
  induction l1 as [|a l1 IH]; intros [|b l2] H; simpl in *; try discriminate; [split; reflexivity|].
  destruct (IH l2) as [E1 E2]; [lia|]. rewrite E1, E2. split; reflexivity.
Qed.

(* The single round trip through the generated statements themselves: the
   insert expression is accepted at any point of a statement under
   construction; the tokens it adds are writeInsert(columns, placeholders);
   the placeholders, looked up in the named arguments, give the tuple the
   engine stores; the select list of the tokens the output expression adds
   gives the columns to select and the aliases to scan under. *)
Theorem roundtrip_single_statement env t pt tags fields ms v v0 q :
  get_arg_info env t = BOk (StructInfo t tags fields) ->
  get_all_struct_members (StructInfo t tags fields) = BOk ms ->
  (N.of_nat (length ms) <= max_int)%N ->
  t_kind (tget env pt) = KPtr -> t_elem (tget env pt) = t ->
  (forall f, In f fields -> field_ok env t v f) ->
  (forall f, In f fields -> field_by_index v0 (sf_index f) <> None) ->
  fresh_from (q_inputCount q) (q_named q) ->
  exists qi cols rows tuple cells v',
    add_to_query env [(t, v)] q (TInsert (star_insert ms)) = BOk qi /\
    q_sql qi = q_sql q ++ write_insert cols rows /\
    generated_insert cols rows (q_named qi) = Some (cols, [tuple]) /\
    (let sl := select_list (write_output 0 (map fst ms)) in
     mini_select (map fst sl) (mini_insert cols [tuple] []) = [cells] /\
     scan_row env (map snd ms) (map snd sl) cells [AVal pt (VPtr v0)] = (Some [(t, v')], None)) /\
    forall f, In f fields -> field_by_index v' (sf_index f) = field_by_index v (sf_index f).
Proof.
  intros GI GM BND Kp Ep FOK V0 Fr.
  destruct (roundtrip_single_full env t pt tags fields ms v v0 (q_inputCount q) (q_argUsed q)
              GI GM BND Kp Ep FOK V0)
    as [bcs [cnt' [used' [tuple [cells [v' [BC [_ [OA [SEL [SR [EQ NL]]]]]]]]]]]].
  pose proof (add_to_query_insert_ok env [(t, v)] q _ _ _ _ _ BC) as AQ.
  destruct (equiv_handwritten env [(t, v)] q _ _ AQ Fr) as [bcs2 [c2 [u2 [n2 [BC2 [_ EH]]]]]].
  rewrite BC in BC2. inversion BC2; subst bcs2 c2 u2 n2; clear BC2.
  eexists. exists (insert_columns bcs), (insert_toks bcs 1), tuple, cells, v'.
  split; [exact AQ|]. split; [reflexivity|]. split.
  - rewrite EH.
    + unfold handwritten_insert. rewrite OA. reflexivity.
    + intros bc Hbc. rewrite Forall_forall in NL. apply NL. unfold live in Hbc.
      apply filter_In in Hbc. tauto.
  - split; [|exact EQ]. cbv zeta. rewrite select_list_write_output.
    assert (Lm : length (map marker_name (seq 0 (length (map fst ms)))) = length (map fst ms)).
    { rewrite map_length, seq_length. reflexivity. }
    rewrite (proj1 (combine_fst_snd_len _ _ Lm)), (proj2 (combine_fst_snd_len _ _ Lm)).
    rewrite map_length. split; [exact SEL|exact SR].
Qed.
