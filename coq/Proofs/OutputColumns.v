(* C05 (column texts of output expressions) and the binding half of C02
   (texts inside an expression reach the SQL unchanged).

   - the "tbl.* AS &T.*" forms: every generated column is the prefix, a dot,
     and the db tag / member ([output_generated_columns]);
   - the forms with explicit columns: the generated column is the column as
     written ([new_output_column_string], [explicit_columns]);
   - a function-call column of an output expression is one of its generated
     columns; the literal values of an INSERT become literal columns, in
     place ([basic_sources_spec]);
   - add_to_query / add_all only append to the SQL, and an INSERT writes a
     literal column as a text cell at the place of its column name, in every
     tuple ([insert_literal_cells]). *)
From Coq Require Import Permutation.
From SQLair.Base Require Import Bytes Utf8.
From SQLair.Model Require Import GenUnicode GenConsts Reflect TypeInfo Parser Bind.
From SQLair.Proofs Require Import ItoaFacts BindFacts SortFacts InsertProofs BindInputsProofs
  StructFieldsProofs BindTypesFacts TotalityProofs BindTypesProofs.

(* ------------------------------------------------ the column as written -- *)

Lemma new_output_column_string c :
  new_output_column (tableName c) (columnName c) = columnString c.
Proof. destruct c as [t col|raw]; [destruct t|]; reflexivity. Qed.

Lemma new_output_column_prefixed tbl col :
  tbl <> [] -> new_output_column tbl col = tbl ++ [ch_dot] ++ col.
Proof. destruct tbl; [congruence|reflexivity]. Qed.

Lemma new_output_column_bare col : new_output_column [] col = col.
Proof. reflexivity. Qed.

(* ------------------------------------------------------ generated columns -- *)

(* the columns "pref.* AS (&T.*, &M.k ...)" generates: for every target, in
   order, the db tags of T in byte-lexicographic order (&T.* ) or the member,
   each prefixed *)
Lemma output_generated_columns env pref : forall targets b ocs b1 ocs',
  wf_infos (b_infos b) ->
  output_generated env b pref targets ocs = BOk (b1, ocs') ->
  same_teb b b1 /\
  map fst ocs' = map fst ocs ++
    map (new_output_column pref) (flat_map (source_columns (b_infos b)) targets).
Proof.
  induction targets as [|t rest IH]; intros b ocs b1 ocs' W H; cbn [output_generated] in H.
  - inversion H; subst. cbn. rewrite app_nil_r. split; [split; reflexivity|reflexivity].
  - cbn [flat_map]. unfold source_columns at 1. destruct (is_star (mname t)).
    + unfold all_struct_outputs in H.
      destruct (get_arg b (tname t)) as [[b2 a]|e] eqn:GA; cbn [bbind] in H; [|discriminate].
      destruct (get_arg_spec _ _ _ _ GA) as [Bi As]. apply get_arg_same in GA.
      destruct (get_all_struct_members a) as [ms|e] eqn:GM; cbn [bbind] in H; [|discriminate].
      destruct (mark_outputs env b2 ms) as [b3|e] eqn:MO; cbn [bbind] in H; [|discriminate].
      apply mark_outputs_same in MO.
      destruct (wf_all_members a ms (wf_infos_assoc _ _ _ W As) GM) as [ty [fields [Ea [M _]]]].
      pose proof (same_teb_trans _ _ _ GA MO) as S13.
      assert (E3 : b_infos b3 = b_infos b) by (destruct S13 as [E _]; exact E).
      assert (W3 : wf_infos (b_infos b3)) by (rewrite E3; exact W).
      destruct (IH _ _ _ _ W3 H) as [S I2].
      split; [eapply same_teb_trans; eassumption|].
      rewrite I2, E3, As, Ea, !map_app, <- app_assoc. f_equal. f_equal.
      rewrite <- M, !map_map. apply map_ext. intros [tag l]. reflexivity.
    + destruct (output_member env b (tname t) (mname t)) as [[b2 l]|e] eqn:OM; cbn [bbind] in H; [|discriminate].
      apply output_member_same in OM.
      assert (E2 : b_infos b2 = b_infos b) by (destruct OM as [E _]; exact E).
      assert (W2 : wf_infos (b_infos b2)) by (rewrite E2; exact W).
      destruct (IH _ _ _ _ W2 H) as [S I2].
      split; [eapply same_teb_trans; eassumption|].
      rewrite I2, E2, !map_app, <- app_assoc. reflexivity.
Qed.

(* "tbl.* AS ...", "* AS ..." and the form without columns *)
Lemma output_star_form env b raw cols targets b' :
  wf_infos (b_infos b) ->
  cols = [] \/ (exists tbl, cols = [BasicCol tbl star]) ->
  bind_expr env b (Output raw cols targets) = BOk b' ->
  exists ocs, b_infos b' = b_infos b /\ b_exprs b' = b_exprs b ++ [TOutput ocs] /\
    map fst ocs =
      map (new_output_column (match cols with c :: _ => tableName c | [] => [] end))
          (flat_map (source_columns (b_infos b)) targets).
Proof.
  intros W C H. cbn [bind_expr] in H. cbv zeta in H.
  assert (C1 : Nat.eqb (length cols) 0 || (Nat.eqb (length cols) 1 && Nat.eqb (starCountColumns cols) 1) = true).
  { destruct C as [->|[tbl ->]]; reflexivity. }
  rewrite C1 in H.
  destruct (output_generated env b _ targets []) as [[b1 ocs]|e] eqn:OG; cbn [bbind] in H; [|discriminate].
  inversion H; subst b'. apply output_generated_columns in OG; [|exact W].
  destruct OG as [[E1 E2] M]. exists ocs. cbn [add_expr b_infos b_exprs]. rewrite E1, E2.
  split; [reflexivity|]. split; [reflexivity|exact M].
Qed.

(* ------------------------------------------------------ explicit columns -- *)

Lemma output_into_star_columns env tn : forall cols b ocs b1 ocs',
  output_into_star env b tn cols ocs = BOk (b1, ocs') ->
  same_teb b b1 /\ map fst ocs' = map fst ocs ++ map columnString cols.
Proof.
  induction cols as [|c rest IH]; intros b ocs b1 ocs' H; cbn [output_into_star] in H.
  - inversion H; subst. cbn. rewrite app_nil_r. split; [split; reflexivity|reflexivity].
  - destruct (output_member env b tn (columnName c)) as [[b2 l]|e] eqn:OM; cbn [bbind] in H; [|discriminate].
    apply output_member_same in OM. destruct (IH _ _ _ _ H) as [S M].
    split; [eapply same_teb_trans; eassumption|].
    rewrite M, map_app, <- app_assoc. cbn [map fst app]. rewrite new_output_column_string. reflexivity.
Qed.

Lemma output_pairwise_columns env : forall cols targets b ocs b1 ocs',
  length cols = length targets ->
  output_pairwise env b cols targets ocs = BOk (b1, ocs') ->
  same_teb b b1 /\ map fst ocs' = map fst ocs ++ map columnString cols.
Proof.
  induction cols as [|c rest IH]; intros targets b ocs b1 ocs' L H.
  - cbn [output_pairwise] in H. inversion H; subst. cbn. rewrite app_nil_r.
    split; [split; reflexivity|reflexivity].
  - destruct targets as [|t trest]; [discriminate L|]. cbn [output_pairwise] in H.
    destruct (output_member env b (tname t) (mname t)) as [[b2 l]|e] eqn:OM; cbn [bbind] in H; [|discriminate].
    apply output_member_same in OM. cbn [length] in L.
    destruct (IH _ _ _ _ _ (eq_add_S _ _ L) H) as [S M].
    split; [eapply same_teb_trans; eassumption|].
    rewrite M, map_app, <- app_assoc. cbn [map fst app]. rewrite new_output_column_string. reflexivity.
Qed.

(* "(c1, c2) AS (&T.* )", "(c1, c2) AS (&T.a, &M.b)", "c AS &T.a": the
   generated columns are the columns as written, in order *)
Lemma explicit_columns env b raw cols targets b' :
  cols <> [] -> starCountColumns cols = 0 ->
  bind_expr env b (Output raw cols targets) = BOk b' ->
  exists ocs, b_infos b' = b_infos b /\ b_exprs b' = b_exprs b ++ [TOutput ocs] /\
    map fst ocs = map columnString cols.
Proof.
  intros NE SC H. cbn [bind_expr] in H. cbv zeta in H. rewrite SC in H.
  assert (C1 : Nat.eqb (length cols) 0 = false) by (destruct cols; [congruence|reflexivity]).
  rewrite C1 in H. cbn [Nat.eqb andb orb] in H. rewrite andb_false_r in H.
  change (Nat.ltb 0 0) with false in H. rewrite andb_false_r in H.
  assert (Fin : forall b1 ocs, same_teb b b1 /\ map fst ocs = map fst (@nil (str * locator)) ++ map columnString cols ->
            exists ocs0, b_infos (add_expr b1 (TOutput ocs)) = b_infos b /\
                         b_exprs (add_expr b1 (TOutput ocs)) = b_exprs b ++ [TOutput ocs0] /\
                         map fst ocs0 = map columnString cols).
  { intros b1 ocs [[E1 E2] M]. exists ocs. cbn. rewrite E1, E2. auto. }
  destruct (Nat.eqb (starCountTypes targets) 1 && Nat.eqb (length targets) 1).
  - destruct (output_into_star env b _ cols []) as [[b1 ocs]|e] eqn:OS; cbn [bbind] in H; [|discriminate].
    inversion H; subst b'. apply Fin. eapply output_into_star_columns. exact OS.
  - destruct (Nat.ltb 0 (starCountTypes targets) && Nat.ltb 1 (length targets)); [discriminate|].
    destruct (Nat.eqb (length cols) (length targets)) eqn:L; [|discriminate]. apply Nat.eqb_eq in L.
    destruct (output_pairwise env b cols targets []) as [[b1 ocs]|e] eqn:OP; cbn [bbind] in H; [|discriminate].
    inversion H; subst b'. apply Fin. eapply output_pairwise_columns; eassumption.
Qed.

(* an accepted output expression has no star column next to other columns *)
Lemma output_star_count env b raw cols targets b' :
  bind_expr env b (Output raw cols targets) = BOk b' ->
  cols = [] \/ (exists c, cols = [c] /\ columnName c = star) \/ (cols <> [] /\ starCountColumns cols = 0).
Proof.
  intros H. cbn [bind_expr] in H. cbv zeta in H.
  destruct (Nat.eqb (length cols) 0 || (Nat.eqb (length cols) 1 && Nat.eqb (starCountColumns cols) 1)) eqn:C1.
  - apply orb_prop in C1. destruct C1 as [C1|C1].
    + left. destruct cols; [reflexivity|discriminate].
    + right. left. apply andb_prop in C1. destruct C1 as [L S].
      destruct cols as [|c [|c2 r]]; try discriminate. exists c. split; [reflexivity|].
      unfold starCountColumns in S. cbn [filter] in S.
      destruct (str_eqb (columnName c) [ch_star]) eqn:E; [|discriminate].
      apply str_eqb_eq in E. exact E.
  - right. right. destruct (Nat.ltb 1 (length cols) && Nat.ltb 0 (starCountColumns cols)) eqn:C2; [discriminate|].
    pose proof (filter_length_le (fun c => str_eqb (columnName c) [ch_star]) cols) as Le.
    fold (starCountColumns cols) in Le.
    apply orb_false_iff in C1. destruct C1 as [C1a C1b]. apply Nat.eqb_neq in C1a.
    split; [destruct cols; [cbn in C1a; congruence|discriminate]|].
    apply andb_false_iff in C1b. apply andb_false_iff in C2.
    destruct C2 as [C2|C2]; [apply Nat.ltb_ge in C2|apply Nat.ltb_ge in C2; lia].
    destruct C1b as [C1b|C1b]; apply Nat.eqb_neq in C1b; lia.
Qed.

(* ------------------------------------- C02: inner text reaches the SQL -- *)

(* a function-call column of an accepted output expression is one of the
   generated columns, unchanged.  (The hypothesis f <> "*" holds for every
   column the parser produces: a function call ends with ')'.) *)
Lemma output_func_column env b raw cols targets b' f :
  In (FuncCol f) cols -> f <> star ->
  bind_expr env b (Output raw cols targets) = BOk b' ->
  exists ocs, b_exprs b' = b_exprs b ++ [TOutput ocs] /\ In f (map fst ocs).
Proof.
  intros I NS H. destruct (output_star_count _ _ _ _ _ _ H) as [E|[[c [E S]]|[NE SC]]].
  - subst cols. destruct I.
  - subst cols. destruct I as [I|[]]. subst c. cbn in S. congruence.
  - destruct (explicit_columns _ _ _ _ _ _ NE SC H) as [ocs [_ [E M]]]. exists ocs.
    split; [exact E|]. rewrite M. change f with (columnString (FuncCol f)). apply in_map. exact I.
Qed.

Definition value_lit (v : value) : option str := match v with VLit s => Some s | VMem _ => None end.
Definition tcol_lit (c : tcol) : option str := match c with TCLit _ s => Some s | TCIns _ _ _ => None end.

(* basicInsertExpr.bindTypes: one typed column per (column, value) pair, under
   the column's name; a literal value becomes a literal column with the same
   text *)
Lemma basic_sources_spec : forall columns sources b cols0 b1 cols,
  length columns = length sources ->
  basic_sources b columns sources cols0 = BOk (b1, cols) ->
  frame b b1 /\
  map tcol_column cols = map tcol_column cols0 ++ map columnName columns /\
  map tcol_lit cols = map tcol_lit cols0 ++ map value_lit sources.
Proof.
  induction columns as [|c crest IH]; intros sources b cols0 b1 cols L H.
  - destruct sources; [|discriminate L]. cbn [basic_sources] in H. inversion H; subst.
    cbn. rewrite !app_nil_r. split; [apply frame_refl|split; reflexivity].
  - destruct sources as [|[ma|lit] srest]; [discriminate L| |]; cbn [basic_sources] in H;
      cbn [length] in L; apply eq_add_S in L.
    + destruct (input_member b (tname ma) (mname ma)) as [[b2 l]|e] eqn:IM; cbn [bbind] in H; [|discriminate].
      apply input_member_inv in IM. destruct IM as [F _].
      destruct (IH _ _ _ _ _ L H) as [F' [M1 M2]].
      split; [eapply frame_trans; eassumption|].
      rewrite M1, M2, !map_app, <- !app_assoc. split; reflexivity.
    + destruct (IH _ _ _ _ _ L H) as [F' [M1 M2]]. split; [exact F'|].
      rewrite M1, M2, !map_app, <- !app_assoc. split; reflexivity.
Qed.

Lemma basic_insert_columns env b raw columns vals b' :
  bind_expr env b (BasicIns raw columns vals) = BOk b' ->
  exists tcols, b_infos b' = b_infos b /\ b_exprs b' = b_exprs b ++ [TInsert tcols] /\
    map tcol_column tcols = map columnName columns /\ map tcol_lit tcols = map value_lit vals.
Proof.
  intros H. pose proof (basic_counts _ _ _ _ _ _ H) as L. cbn [bind_expr] in H.
  destruct (negb (Nat.eqb (length columns) (length vals))); [discriminate|].
  destruct (basic_sources b columns vals []) as [[b1 tcols]|e] eqn:BS; cbn [bbind] in H; [|discriminate].
  inversion H; subst b'. destruct (basic_sources_spec _ _ _ _ _ _ L BS) as [[F1 F2] [M1 M2]].
  exists tcols. cbn [add_expr b_infos b_exprs]. rewrite F1, F2. auto.
Qed.

Lemma tcol_literal_eq tc col s : tcol_column tc = col -> tcol_lit tc = Some s -> tc = TCLit col s.
Proof. destruct tc as [i c e|c l]; cbn; intros E L; [discriminate|]. congruence. Qed.

(* the typed column of the i-th value when that value is a literal *)
Lemma basic_insert_literal env b raw columns vals b' i s :
  bind_expr env b (BasicIns raw columns vals) = BOk b' ->
  nth_error vals i = Some (VLit s) ->
  exists c tcols, nth_error columns i = Some c /\
    b_exprs b' = b_exprs b ++ [TInsert tcols] /\
    nth_error tcols i = Some (TCLit (columnName c) s).
Proof.
  intros H N. pose proof (basic_counts _ _ _ _ _ _ H) as L.
  destruct (basic_insert_columns _ _ _ _ _ _ H) as [tcols [_ [E [M1 M2]]]].
  assert (Li : i < length vals) by (apply nth_error_Some; congruence).
  destruct (nth_error columns i) as [c|] eqn:Nc; [|apply nth_error_None in Nc; lia].
  exists c, tcols. split; [reflexivity|]. split; [exact E|].
  pose proof (map_nth_error columnName _ _ Nc) as X1. rewrite <- M1 in X1.
  pose proof (map_nth_error value_lit _ _ N) as X2. rewrite <- M2 in X2. cbn [value_lit] in X2.
  destruct (nth_error tcols i) as [tc|] eqn:Nt.
  - rewrite (map_nth_error tcol_column _ _ Nt) in X1. rewrite (map_nth_error tcol_lit _ _ Nt) in X2.
    injection X1 as Y1. injection X2 as Y2. f_equal. apply tcol_literal_eq; [exact Y1|exact Y2].
  - apply nth_error_None in Nt. assert (i < length (map tcol_column tcols)) by (apply nth_error_Some; congruence).
    rewrite map_length in *. lia.
Qed.

(* a literal column is never omitted: it is one of the live bound columns *)
Lemma bound_all_literal env m : forall tcols cnt bcs i col s,
  bound_all env m cnt tcols bcs -> nth_error tcols i = Some (TCLit col s) ->
  exists j, nth_error (live bcs) j = Some (literal_bcol col s).
Proof.
  induction tcols as [|tc rest IH]; intros cnt bcs i col s BA N; [destruct i; discriminate N|].
  destruct bcs as [|bc bcs']; [destruct BA|]. destruct BA as [BF BA].
  destruct i as [|i']; cbn [nth_error] in N.
  - inversion N; subst tc. cbn [bound_from] in BF. subst bc. exists 0. reflexivity.
  - destruct (IH _ _ _ _ _ BA N) as [j Hj]. unfold live. cbn [filter].
    destruct (bc_omit bc); cbn [negb]; [exists j|exists (S j)]; exact Hj.
Qed.

(* An INSERT writes a literal column as a text cell: its column name is in the
   column list, and at the same place of every generated tuple stands the
   literal, unchanged. *)
Lemma insert_literal_cells env m q tcols q' i col s :
  add_to_query env m q (TInsert tcols) = BOk q' ->
  nth_error tcols i = Some (TCLit col s) ->
  exists names rows j, q_sql q' = q_sql q ++ write_insert names rows /\ rows <> [] /\
    nth_error names j = Some col /\ Forall (fun row => nth_error row j = Some (TText s)) rows.
Proof.
  intros H N. apply add_insert_spec in H. destruct H as [bcs [numRows [BC [Sq _]]]].
  apply bind_cols_top in BC. destruct BC as [BA [_ [_ [_ [_ [N1 _]]]]]].
  destruct (bound_all_literal _ _ _ _ _ _ _ _ BA N) as [j Hj].
  eexists. eexists. exists j. split; [exact Sq|]. split; [|split].
  - destruct numRows; [lia|]. discriminate.
  - rewrite (map_nth_error bc_column _ _ Hj). reflexivity.
  - apply Forall_forall. intros row I. apply in_map_iff in I. destruct I as [r [E _]]. subst row.
    rewrite (map_nth_error (fun bc => cell bc r) _ _ Hj). reflexivity.
Qed.

(* add_to_query and add_all only append to the SQL *)
Lemma add_to_query_appends env m q e q' :
  add_to_query env m q e = BOk q' -> exists new, q_sql q' = q_sql q ++ new.
Proof.
  intros H. destruct e as [chunk|l|cols|ocs].
  - cbn [add_to_query] in H. inversion H; subst. eexists. reflexivity.
  - apply add_input_spec in H. destruct H as [p [_ [_ [_ [_ [_ [Sq _]]]]]]]. eexists. exact Sq.
  - apply add_insert_spec in H. destruct H as [bcs [nr [_ [Sq _]]]]. eexists. exact Sq.
  - cbn [add_to_query] in H. inversion H; subst. eexists. reflexivity.
Qed.

Lemma add_all_appends env m : forall es q q',
  add_all env m q es = BOk q' -> exists new, q_sql q' = q_sql q ++ new.
Proof.
  induction es as [|e es IH]; intros q q' H; cbn [add_all] in H.
  - inversion H; subst. exists []. rewrite app_nil_r. reflexivity.
  - destruct (add_to_query env m q e) as [q1|err] eqn:A; cbn [bbind] in H; [|discriminate].
    apply add_to_query_appends in A. destruct A as [n1 E1].
    destruct (IH _ _ H) as [n2 E2]. exists (n1 ++ n2). rewrite E2, E1, app_assoc. reflexivity.
Qed.

Lemma add_all_each env m : forall es q q',
  add_all env m q es = BOk q' -> forall e, In e es ->
  exists q0 q1 post, add_to_query env m q0 e = BOk q1 /\ q_sql q' = q_sql q1 ++ post.
Proof.
  induction es as [|e0 es IH]; intros q q' H e I; [destruct I|]. cbn [add_all] in H.
  destruct (add_to_query env m q e0) as [q1|err] eqn:A; cbn [bbind] in H; [|discriminate].
  destruct I as [<-|I].
  - destruct (add_all_appends _ _ _ _ _ H) as [post E]. exists q, q1, post. auto.
  - exact (IH _ _ H e I).
Qed.

(* bind_exprs: the typed expression of every expression is in the result *)
Lemma bind_exprs_grows env : forall es b b',
  bind_exprs env b es = BOk b' -> exists tl, b_exprs b' = b_exprs b ++ tl.
Proof.
  induction es as [|e es IH]; intros b b' H; cbn [bind_exprs] in H.
  - inversion H; subst. exists []. rewrite app_nil_r. reflexivity.
  - destruct (bind_expr env b e) as [b1|err] eqn:E; cbn [bbind] in H; [|discriminate].
    apply bind_expr_inv in E. destruct E as [_ [te [E _]]].
    destruct (IH _ _ H) as [tl E2]. exists ([te] ++ tl). rewrite E2, E, <- app_assoc. reflexivity.
Qed.

Lemma bind_exprs_each_te env : forall es b b',
  bind_exprs env b es = BOk b' -> forall e, In e es ->
  exists b0 b1, bind_expr env b0 e = BOk b1 /\ b_infos b0 = b_infos b /\
    forall te, b_exprs b1 = b_exprs b0 ++ [te] -> In te (b_exprs b').
Proof.
  induction es as [|e0 es IH]; intros b b' H e I; [destruct I|]. cbn [bind_exprs] in H.
  destruct (bind_expr env b e0) as [b1|err] eqn:E; cbn [bbind] in H; [|discriminate].
  destruct I as [<-|I].
  - exists b, b1. split; [exact E|]. split; [reflexivity|]. intros te Ete.
    destruct (bind_exprs_grows _ _ _ _ H) as [tl Etl]. rewrite Etl, Ete.
    apply in_or_app. left. apply in_or_app. right. left. reflexivity.
  - destruct (IH _ _ H e I) as [b0 [b2 [B [Bi X]]]]. exists b0, b2. split; [exact B|].
    split; [|exact X]. apply bind_expr_inv in E. destruct E as [Ei _]. congruence.
Qed.

Lemma in_outs_tok f n ts : In (f, n) (outs ts) -> In (TOut f n) ts.
Proof.
  unfold outs. intros H. apply in_flat_map in H. destruct H as [t [It Io]].
  destruct t; cbn [tout] in Io; try (destruct Io; fail).
  destruct Io as [Io|[]]. inversion Io; subst. exact It.
Qed.

(* Whole statement: the text of every function-call column of an output
   expression is the column text of an output token of the generated SQL; the
   text of every literal value of an INSERT is a text cell of every generated
   tuple, at the place of its column. *)
Theorem inner_text_reaches_sql env segs samples tbe args pq :
  bind_types env segs samples = BOk tbe -> bind_inputs env tbe args = BOk pq ->
  (forall raw cols targets f, In (Output raw cols targets) segs -> In (FuncCol f) cols -> f <> star ->
     exists n, In (TOut f n) (pq_toks pq)) /\
  (forall raw cols vals i s, In (BasicIns raw cols vals) segs -> nth_error vals i = Some (VLit s) ->
     exists c pre names rows post j,
       nth_error cols i = Some c /\
       pq_toks pq = pre ++ write_insert names rows ++ post /\ rows <> [] /\
       nth_error names j = Some (columnName c) /\
       Forall (fun row => nth_error row j = Some (TText s)) rows).
Proof.
  intros BT BI. apply bind_types_inv in BT. destruct BT as [infos [b [_ [BE [_ Et]]]]]. subst tbe.
  split.
  - intros raw cols targets f Ie If NS.
    destruct (bind_exprs_each_te _ _ _ _ BE _ Ie) as [b0 [b1 [B [_ X]]]].
    destruct (output_func_column _ _ _ _ _ _ _ If NS B) as [ocs [E I]]. apply X in E.
    destruct (bind_inputs_outputs _ _ _ _ BI) as [_ [_ [_ M]]].
    assert (Io : In f (map fst (out_cols (b_exprs b)))).
    { unfold out_cols. rewrite map_flat_map. apply in_flat_map. exists (TOutput ocs). split; [exact E|exact I]. }
    rewrite <- M in Io. apply in_map_iff in Io. destruct Io as [[f' n] [Ef Io]]. cbn in Ef. subst f'.
    exists n. apply in_outs_tok. exact Io.
  - intros raw cols vals i s Ie N.
    destruct (bind_exprs_each_te _ _ _ _ BE _ Ie) as [b0 [b1 [B [_ X]]]].
    destruct (basic_insert_literal _ _ _ _ _ _ _ _ B N) as [c [tcols [Nc [E Nt]]]]. apply X in E.
    destruct (bind_inputs_query _ _ _ _ BI) as [m [q [_ [A [T _]]]]].
    destruct (add_all_each _ _ _ _ _ A _ E) as [q0 [q1 [post [A1 Sq]]]].
    destruct (insert_literal_cells _ _ _ _ _ _ _ _ A1 Nt) as [names [rows [j [S1 [NE [Nn F]]]]]].
    exists c, (q_sql q0), names, rows, post, j. split; [exact Nc|]. split; [|auto].
    rewrite T, Sq, S1, <- app_assoc. reflexivity.
Qed.
