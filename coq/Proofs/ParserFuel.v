(* C18 (parser part): the parser model never runs out of fuel.

   Every loop of Model/Parser.v runs on fuel [fuel_of st = S (length (rest st))]
   computed from the state the loop is entered in, and every recursive call of a
   loop is on a state with a strictly shorter unread input.  Hence the error
   kind [EFuel] ("the Go loop would not terminate") is never produced, by any
   function, on any input: [parse] is total.

   Structure (same style as ParserExt.v):
   - [ProgFn f]   : f s = (s', Ok _)  ->  s' has strictly less unread input;
   - [NoFuelFn f] : f s = (s', Err e) ->  e is not the fuel error;
   - one lemma per loop, by induction on the fuel, under [len s < fuel]. *)
From SQLair.Base Require Import Bytes Utf8.
From SQLair.Model Require Import GenUnicode GenConsts Parser.
From SQLair.Proofs Require Import Utf8Facts ParserExt ParserTiling.

Notation len s := (length (rest s)).

(* ------------------------------------------------------------- measure -- *)

Lemma advance_cases s : len (advance s) < len s \/ (len s = 0 /\ len (advance s) = 0).
Proof.
  destruct (at_end s) eqn:AE.
  - right. unfold at_end in AE. unfold advance. destruct (rest s) eqn:R; [|discriminate].
    rewrite R. simpl. auto.
  - left. apply advance_progress. exact AE.
Qed.

Lemma at_end_false_len s : at_end s = false -> 1 <= len s.
Proof. unfold at_end. destruct (rest s); [discriminate|simpl; lia]. Qed.

Lemma at_end_true_len s : at_end s = true -> len s = 0.
Proof. unfold at_end. destruct (rest s); [reflexivity|discriminate]. Qed.

Lemma ext_pos_len a b : ext a b -> pos a < pos b -> len b < len a.
Proof. intros [c [H P]] L. rewrite H, app_length. lia. Qed.

Lemma skipChar_true_prog c s s' : skipChar c s = (s', true) -> len s' < len s.
Proof.
  unfold skipChar. destruct (negb (at_end s) && N.eqb (cur s) c) eqn:B; intros H; inversion H; subst.
  apply andb_prop in B. destruct B as [B _]. apply negb_true_iff in B.
  apply advance_progress. exact B.
Qed.

Class ProgFn {A} (f : pstate -> pstate * res A) : Prop :=
  prog_prf : forall s s' v, f s = (s', Ok v) -> len s' < len s.

Class NoFuelFn {A} (f : pstate -> pstate * res A) : Prop :=
  nofuel_prf : forall s s' e, f s = (s', Err e) -> ekind_of e <> EFuel.

(* Records, for every call  E : g s = (s1, _)  in the context, that s1 has no
   more unread input than s (from ParserExt), and strictly less when the call
   is known to make progress. *)
Ltac fix_negb :=
  repeat match goal with
         | H : negb ?b = true |- _ => apply negb_true_iff in H; try subst b
         | H : negb ?b = false |- _ => apply negb_false_iff in H; try subst b
         end.

Ltac meas_record :=
  fix_negb;
  repeat match goal with
         | E : ?g ?s = (?s1, _) |- _ =>
             lazymatch goal with
             | _ : len s1 <= len s |- _ => fail
             | _ => let inst := constr:(_ : ExtFn g) in
                    assert (len s1 <= len s)
                      by (apply ext_len; eapply (@ext_prf _ g inst); [apply ext_refl|exact E])
             end
         | E : strlit_loop _ _ _ ?s = Some (Some ?s1) |- _ =>
             lazymatch goal with
             | _ : len s1 <= len s |- _ => fail
             | _ => assert (len s1 <= len s)
                      by (apply ext_len; eapply strlit_loop_ext; [apply ext_refl|exact E])
             end
         | E : comment_loop _ _ ?s = Some ?s1 |- _ =>
             lazymatch goal with
             | _ : len s1 <= len s |- _ => fail
             | _ => assert (len s1 <= len s)
                      by (apply ext_len; eapply comment_loop_ext; [apply ext_refl|exact E])
             end
         | E : namechars_loop _ ?s = Some ?s1 |- _ =>
             lazymatch goal with
             | _ : len s1 <= len s |- _ => fail
             | _ => assert (len s1 <= len s)
                      by (apply ext_len; eapply namechars_loop_ext; [apply ext_refl|exact E])
             end
         end;
  repeat match goal with
         | E : ?g ?s = (?s1, Ok _) |- _ =>
             lazymatch goal with
             | _ : len s1 < len s |- _ => fail
             | _ => let inst := constr:(_ : ProgFn g) in
                    assert (len s1 < len s) by (eapply (@prog_prf _ g inst); exact E)
             end
         | E : skipChar _ ?s = (?s1, true) |- _ =>
             lazymatch goal with
             | _ : len s1 < len s |- _ => fail
             | _ => assert (len s1 < len s) by (eapply skipChar_true_prog; exact E)
             end
         end.

Ltac meas :=
  meas_record;
  repeat match goal with
         | H : at_end ?s = false |- _ =>
             lazymatch goal with
             | _ : 1 <= len s |- _ => fail
             | _ => pose proof (at_end_false_len _ H)
             end
         end;
  repeat match goal with
         | |- context [len (advance ?s)] =>
             lazymatch goal with
             | _ : len (advance s) < len s \/ _ |- _ => fail
             | _ => pose proof (advance_cases s)
             end
         | _ : context [len (advance ?s)] |- _ =>
             lazymatch goal with
             | _ : len (advance s) < len s \/ _ |- _ => fail
             | _ => pose proof (advance_cases s)
             end
         end;
  unfold fuel_of in *; lia.

(* walk through the match structure of the body in H *)
Ltac walk H := norm_in H; repeat (destruct_scrut H); try discriminate.

Ltac inv_pair :=
  match goal with
  | H : (_, _) = (_, _) |- _ => inversion H; subst; clear H
  end.

(* --------------------------------------------------------- progress (Ok) -- *)

Lemma skipCharFind_loop_prog fuel : forall c s s',
  skipCharFind_loop fuel c s = Some (Some s') -> len s' < len s.
Proof.
  induction fuel as [|f IH]; intros c s s' H; simpl in H; [discriminate|].
  walk H.
  - inversion H; subst. meas.
  - apply IH in H. meas.
Qed.

#[export] Instance skipCharFind_prog c : ProgFn (skipCharFind c).
Proof.
  intros s s' v H. unfold skipCharFind in H.
  destruct (skipCharFind_loop (fuel_of s) c s) as [[s1|]|] eqn:E; inversion H; subst.
  eapply skipCharFind_loop_prog; exact E.
Qed.

#[export] Instance skipStringLiteral_prog : ProgFn skipStringLiteral.
Proof. intros s s' v H. unfold skipStringLiteral in H. walk H; inv_pair; meas. Qed.

#[export] Instance skipComment_prog : ProgFn skipComment.
Proof. intros s s' v H. unfold skipComment in H. walk H; inv_pair; meas. Qed.

#[export] Instance skipEnclosedParentheses_prog : ProgFn skipEnclosedParentheses.
Proof. intros s s' v H. unfold skipEnclosedParentheses in H. walk H; inv_pair; meas. Qed.

#[export] Instance parseIdentifier_prog : ProgFn parseIdentifier.
Proof.
  intros s s' v H. unfold parseIdentifier in H. walk H; inv_pair; [meas|].
  match goal with
  | L : Nat.ltb _ _ = true |- _ => apply Nat.ltb_lt in L; apply ext_pos_len; [|exact L]
  end.
  eapply ext_trans.
  - eapply (ext_prf (f:=skipStringLiteral)); [apply ext_refl|eassumption].
  - eapply namechars_loop_ext; [apply ext_refl|eassumption].
Qed.

#[export] Instance parseIdentifierAsterisk_prog : ProgFn parseIdentifierAsterisk.
Proof. intros s s' v H. unfold parseIdentifierAsterisk in H. walk H; try inv_pair; meas. Qed.

#[export] Instance parseColumnAccessor_prog : ProgFn parseColumnAccessor.
Proof. intros s s' v H. unfold parseColumnAccessor in H. walk H; inv_pair; meas. Qed.

#[export] Instance parseTargetType_prog : ProgFn parseTargetType.
Proof. intros s s' v H. unfold parseTargetType in H. walk H; inv_pair; meas. Qed.

#[export] Instance parseInputMemberAccessor_prog : ProgFn parseInputMemberAccessor.
Proof. intros s s' v H. unfold parseInputMemberAccessor in H. walk H; try inv_pair; meas. Qed.

Section ParseListProg.
  Context {T : Type} (parseFn : pstate -> pstate * res T).
  Context (parseFn_ext : ExtFn parseFn).

  Lemma parseList_loop_ok_len fuel : forall cp first acc s s' v,
    parseList_loop parseFn fuel cp first acc s = (s', Ok v) -> len s' <= len s.
  Proof using parseFn_ext.
    induction fuel as [|f IH]; intros cp first acc s s' v H; simpl in H; [discriminate|].
    walk H.
    all: try (inv_pair; meas).
    all: apply IH in H; meas.
  Qed.

  #[export] Instance parseList_prog : ProgFn (parseList parseFn).
  Proof using parseFn_ext.
    intros s s' v H. unfold parseList in H. walk H.
    apply parseList_loop_ok_len in H. meas.
  Qed.
End ParseListProg.

#[export] Instance parseColumns_prog : ProgFn parseColumns.
Proof. intros s s' v H. unfold parseColumns, is_fuel_err in H. walk H; inv_pair; meas. Qed.

#[export] Instance parseOutputExpr_prog : ProgFn parseOutputExpr.
Proof. intros s s' v H. unfold parseOutputExpr in H. walk H; inv_pair; meas. Qed.

#[export] Instance parseSliceInputExpr_prog : ProgFn parseSliceInputExpr.
Proof. intros s s' v H. unfold parseSliceInputExpr in H. walk H; inv_pair; meas. Qed.

#[export] Instance parseMemberInputExpr_prog : ProgFn parseMemberInputExpr.
Proof. intros s s' v H. unfold parseMemberInputExpr in H. walk H; inv_pair; meas. Qed.

#[export] Instance parseAsteriskInsertExpr_prog : ProgFn parseAsteriskInsertExpr.
Proof. intros s s' v H. unfold parseAsteriskInsertExpr in H. walk H; inv_pair; meas. Qed.

#[export] Instance parseInsertExpr_prog : ProgFn parseInsertExpr.
Proof. intros s s' v H. unfold parseInsertExpr, is_fuel_err in H. walk H; inv_pair; meas. Qed.

#[export] Instance parseInputExpr_prog : ProgFn parseInputExpr.
Proof.
  intros s s' v H. unfold parseInputExpr in H. walk H; try inv_pair; meas.
Qed.

(* ------------------------------------------------------ no fuel error -- *)

(* loops returning an option: None is the fuel error *)
Lemma skipCharFind_loop_fuel fuel : forall c s, len s < fuel -> skipCharFind_loop fuel c s <> None.
Proof.
  induction fuel as [|f IH]; intros c s L; simpl; [lia|].
  destruct (at_end s) eqn:AE; [discriminate|].
  destruct (N.eqb (cur s) c); [discriminate|].
  apply IH. meas.
Qed.

Lemma skipCharFind_not_err c s s' e : skipCharFind c s = (s', Err e) -> False.
Proof.
  unfold skipCharFind. destruct (skipCharFind_loop (fuel_of s) c s) as [[s1|]|] eqn:E; try discriminate.
  intros _. eapply skipCharFind_loop_fuel; [|exact E]. unfold fuel_of. lia.
Qed.

Lemma strlit_loop_fuel fuel : forall c m s, len s < fuel -> strlit_loop fuel c m s <> None.
Proof.
  induction fuel as [|f IH]; intros c m s L; simpl; [lia|].
  destruct (skipCharFind c s) as [s1 [u| |e]] eqn:E.
  - destruct (m && negb (peekChar c s1)); [discriminate|]. apply IH. meas.
  - discriminate.
  - exfalso. eapply skipCharFind_not_err; exact E.
Qed.

Lemma comment_loop_fuel fuel : forall c s, len s < fuel -> comment_loop fuel c s <> None.
Proof.
  induction fuel as [|f IH]; intros c s L; simpl; [lia|].
  destruct (at_end s) eqn:AE; [discriminate|].
  destruct (N.eqb (cur s) c).
  - destruct (N.eqb c ch_star); [|discriminate].
    destruct (skipChar ch_slash (advance s)) as [s2 ok] eqn:E.
    destruct ok; [discriminate|]. apply IH. meas.
  - apply IH. meas.
Qed.

Lemma namechars_loop_fuel fuel : forall s, len s < fuel -> namechars_loop fuel s <> None.
Proof.
  induction fuel as [|f IH]; intros s L; simpl; [lia|].
  destruct (at_end s) eqn:AE; simpl; [discriminate|].
  destruct (isNameChar (cur s)); [|discriminate].
  apply IH. meas.
Qed.

(* closes goals whose context says that an option loop started with enough fuel
   returned None *)
Ltac fuel_contra :=
  exfalso;
  match goal with
  | H : skipCharFind_loop _ _ _ = None |- _ => eapply skipCharFind_loop_fuel; [|exact H]; meas
  | H : strlit_loop _ _ _ _ = None |- _ => eapply strlit_loop_fuel; [|exact H]; meas
  | H : comment_loop _ _ _ = None |- _ => eapply comment_loop_fuel; [|exact H]; meas
  | H : namechars_loop _ _ = None |- _ => eapply namechars_loop_fuel; [|exact H]; meas
  end.

(* the error in the goal is a literal one, or comes from a call in the context *)
Ltac nf_leaf :=
  match goal with
  | |- ekind_of (errorAt _ _ _ _) <> EFuel => cbn; discriminate
  | |- ekind_of {| eline := _; ecol := _; ekind_of := _; epayload := _; positioned := _ |} <> EFuel =>
      cbn; discriminate
  | E : ?g ?s = (_, Err ?e) |- ekind_of ?e <> EFuel =>
      let inst := constr:(_ : NoFuelFn g) in eapply (@nofuel_prf _ g inst); exact E
  | _ => fuel_contra
  end.

Ltac nf_go H := walk H; try inv_pair; try nf_leaf.

#[export] Instance skipCharFind_nofuel c : NoFuelFn (skipCharFind c).
Proof. intros s s' e H. exfalso. eapply skipCharFind_not_err; exact H. Qed.

#[export] Instance skipStringLiteral_nofuel : NoFuelFn skipStringLiteral.
Proof. intros s s' e H. unfold skipStringLiteral in H. nf_go H. Qed.

#[export] Instance skipComment_nofuel : NoFuelFn skipComment.
Proof. intros s s' e H. unfold skipComment in H. nf_go H. Qed.

Lemma skipBlanks_loop_nofuel fuel : forall s s' e,
  len s < fuel -> skipBlanks_loop fuel s = (s', Err e) -> ekind_of e <> EFuel.
Proof.
  induction fuel as [|f IH]; intros s s' e L H; simpl in H; [lia|].
  nf_go H. all: eapply IH; [|exact H]; meas.
Qed.

#[export] Instance skipBlanks_nofuel : NoFuelFn skipBlanks.
Proof.
  intros s s' e H. unfold skipBlanks in H. eapply skipBlanks_loop_nofuel; [|exact H].
  unfold fuel_of. lia.
Qed.

Lemma parens_loop_nofuel fuel : forall n s s' e,
  len s < fuel -> parens_loop fuel n s = (s', Err e) -> ekind_of e <> EFuel.
Proof.
  induction fuel as [|f IH]; intros n s s' e L H; simpl in H; [lia|].
  nf_go H. all: eapply IH; [|exact H]; meas.
Qed.

#[export] Instance skipEnclosedParentheses_nofuel : NoFuelFn skipEnclosedParentheses.
Proof.
  intros s s' e H. unfold skipEnclosedParentheses in H. nf_go H.
  eapply parens_loop_nofuel; [|eassumption]. meas.
Qed.

Lemma litlist_loop_nofuel fuel : forall s s' e,
  len s < fuel -> litlist_loop fuel s = (s', Err e) -> ekind_of e <> EFuel.
Proof.
  induction fuel as [|f IH]; intros s s' e L H; simpl in H; [lia|].
  nf_go H. all: eapply IH; [|exact H]; meas.
Qed.

#[export] Instance skipLiteralInList_nofuel : NoFuelFn skipLiteralInList.
Proof.
  intros s s' e H. unfold skipLiteralInList in H. eapply litlist_loop_nofuel; [|exact H].
  unfold fuel_of. lia.
Qed.

#[export] Instance parseIdentifier_nofuel : NoFuelFn parseIdentifier.
Proof. intros s s' e H. unfold parseIdentifier in H. nf_go H. Qed.

#[export] Instance parseIdentifierAsterisk_nofuel : NoFuelFn parseIdentifierAsterisk.
Proof.
  intros s s' e H. unfold parseIdentifierAsterisk in H. nf_go H.
Qed.

#[export] Instance parseTypeName_nofuel : NoFuelFn parseTypeName.
Proof. intros s s' e H. unfold parseTypeName in H. nf_go H. Qed.

#[export] Instance parseColumnAccessor_nofuel : NoFuelFn parseColumnAccessor.
Proof. intros s s' e H. unfold parseColumnAccessor in H. nf_go H. Qed.

#[export] Instance parseSliceAccessor_nofuel : NoFuelFn parseSliceAccessor.
Proof. intros s s' e H. unfold parseSliceAccessor in H. nf_go H. Qed.

#[export] Instance parseTypeAndMember_nofuel : NoFuelFn parseTypeAndMember.
Proof. intros s s' e H. unfold parseTypeAndMember in H. nf_go H. Qed.

#[export] Instance parseTargetType_nofuel : NoFuelFn parseTargetType.
Proof. intros s s' e H. unfold parseTargetType in H. nf_go H. Qed.

#[export] Instance parseInputMemberAccessor_nofuel : NoFuelFn parseInputMemberAccessor.
Proof.
  intros s s' e H. unfold parseInputMemberAccessor in H. nf_go H.
Qed.

Section ParseListFuel.
  Context {T : Type} (parseFn : pstate -> pstate * res T).
  Context (parseFn_ext : ExtFn parseFn).
  Context (parseFn_nofuel : NoFuelFn parseFn).

  Lemma parseList_loop_nofuel fuel : forall cp first acc s s' e,
    len s < fuel -> parseList_loop parseFn fuel cp first acc s = (s', Err e) -> ekind_of e <> EFuel.
  Proof using parseFn_ext parseFn_nofuel.
    induction fuel as [|f IH]; intros cp first acc s s' e L H; simpl in H; [lia|].
    nf_go H. all: eapply IH; [|exact H]; meas.
  Qed.

  #[export] Instance parseList_nofuel : NoFuelFn (parseList parseFn).
  Proof using parseFn_ext parseFn_nofuel.
    intros s s' e H. unfold parseList in H. nf_go H.
    eapply parseList_loop_nofuel; [|exact H]. meas.
  Qed.
End ParseListFuel.

#[export] Instance parseColumns_nofuel : NoFuelFn parseColumns.
Proof. intros s s' e H. unfold parseColumns, is_fuel_err in H. nf_go H. Qed.

#[export] Instance parseTargetTypes_nofuel : NoFuelFn parseTargetTypes.
Proof. intros s s' e H. unfold parseTargetTypes in H. nf_go H. Qed.

#[export] Instance parseOutputExpr_nofuel : NoFuelFn parseOutputExpr.
Proof. intros s s' e H. unfold parseOutputExpr in H. nf_go H. Qed.

#[export] Instance parseSliceInputExpr_nofuel : NoFuelFn parseSliceInputExpr.
Proof. intros s s' e H. unfold parseSliceInputExpr in H. nf_go H. Qed.

#[export] Instance parseMemberInputExpr_nofuel : NoFuelFn parseMemberInputExpr.
Proof. intros s s' e H. unfold parseMemberInputExpr in H. nf_go H. Qed.

#[export] Instance parseComplexInsertValues_nofuel : NoFuelFn parseComplexInsertValues.
Proof. intros s s' e H. unfold parseComplexInsertValues, is_fuel_err in H. nf_go H. Qed.

#[export] Instance parseAsteriskInsertExpr_nofuel : NoFuelFn parseAsteriskInsertExpr.
Proof. intros s s' e H. unfold parseAsteriskInsertExpr in H. nf_go H. Qed.

Lemma basicvals_loop_nofuel fuel : forall cp ip acc s s' e,
  len s < fuel -> basicvals_loop fuel cp ip acc s = (s', Err e) -> ekind_of e <> EFuel.
Proof.
  induction fuel as [|f IH]; intros cp ip acc s s' e L H; simpl in H; [lia|].
  nf_go H. all: eapply IH; [|exact H]; meas.
Qed.

#[export] Instance parseBasicInsertValues_nofuel : NoFuelFn parseBasicInsertValues.
Proof.
  intros s s' e H. unfold parseBasicInsertValues, is_fuel_err in H. nf_go H.
  eapply basicvals_loop_nofuel; [|exact H]. meas.
Qed.

#[export] Instance parseInsertExpr_nofuel : NoFuelFn parseInsertExpr.
Proof. intros s s' e H. unfold parseInsertExpr, is_fuel_err in H. nf_go H. Qed.

#[export] Instance parseInputExpr_nofuel : NoFuelFn parseInputExpr.
Proof.
  intros s s' e H. unfold parseInputExpr in H. nf_go H.
Qed.

Lemma advance_loop_nofuel fuel : forall s s' e,
  len s < fuel -> advance_loop fuel s = (s', Err e) -> ekind_of e <> EFuel.
Proof.
  induction fuel as [|f IH]; intros s s' e L H; simpl in H; [lia|].
  nf_go H. all: eapply IH; [|exact H]; meas.
Qed.

#[export] Instance advanceToNextExpression_nofuel : NoFuelFn advanceToNextExpression.
Proof.
  intros s s' e H. unfold advanceToNextExpression in H. nf_go H.
  eapply advance_loop_nofuel; [|eassumption]. meas.
Qed.

(* ------------------------------------------------------------ main loop -- *)

Lemma parse_loop_nofuel fuel : forall prev acc st e,
  len st < fuel -> parse_loop fuel prev acc st = Err e -> ekind_of e <> EFuel.
Proof.
  induction fuel as [|f IH]; intros prev acc st e L H; simpl in H; [lia|].
  destruct (advanceToNextExpression st) as [st1 r1] eqn:A.
  destruct r1 as [u| |e1];
    [| |inversion H; subst; eapply (nofuel_prf (f:=advanceToNextExpression)); exact A].
  all: destruct (at_end st1) eqn:AE; [discriminate|].
  all: destruct (parseOutputExpr st1) as [st2 [out| |e2]] eqn:O;
    [eapply IH; [|exact H]; meas
    |
    |inversion H; subst; eapply (nofuel_prf (f:=parseOutputExpr)); exact O].
  all: destruct (parseInputExpr st2) as [st3 [ie| |e3]] eqn:P;
    [eapply IH; [|exact H]; meas
    |eapply IH; [|exact H]; meas
    |inversion H; subst; eapply (nofuel_prf (f:=parseInputExpr)); exact P].
Qed.

Lemma parse_loop_not_no fuel : forall prev acc st, parse_loop fuel prev acc st <> No.
Proof.
  induction fuel as [|f IH]; intros prev acc st; simpl; [discriminate|].
  destruct (advanceToNextExpression st) as [st1 r1].
  destruct r1 as [u| |e1]; [| |discriminate].
  all: destruct (at_end st1); [discriminate|].
  all: destruct (parseOutputExpr st1) as [st2 [out| |e2]]; [apply IH| |discriminate].
  all: destruct (parseInputExpr st2) as [st3 [ie| |e3]]; [apply IH|apply IH|discriminate].
Qed.

(* The parser never reports the model-only error "a loop ran out of fuel":
   every loop of the Go parser terminates, on every byte string. *)
Theorem parse_never_out_of_fuel : forall inp e, parse inp = Err e -> ekind_of e <> EFuel.
Proof.
  intros inp e H. unfold parse in H. eapply parse_loop_nofuel; [|exact H].
  unfold fuel_of. lia.
Qed.

Theorem parse_total : forall inp,
  (exists segs, parse inp = Ok segs) \/ (exists e, parse inp = Err e /\ ekind_of e <> EFuel).
Proof.
  intros inp. destruct (parse inp) as [segs| |e] eqn:H.
  - left. exists segs. reflexivity.
  - exfalso. unfold parse in H. eapply parse_loop_not_no; exact H.
  - right. exists e. split; [reflexivity|]. eapply parse_never_out_of_fuel; exact H.
Qed.

(* The same for every function of the parser, from any state: see the
   [NoFuelFn] instances above. *)
Print Assumptions parse_total.
