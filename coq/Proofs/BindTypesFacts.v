(* bindTypes: what the argument infos built by GenerateArgInfo guarantee, the
   columns of an asterisk INSERT (C04) and of output expressions (C05). *)
From Coq Require Import Permutation Sorted.
From SQLair.Base Require Import Bytes Utf8.
From SQLair.Model Require Import GenUnicode GenConsts Reflect TypeInfo Parser Bind.
From SQLair.Proofs Require Import Utf8Facts BindFacts SortFacts InsertProofs StructFieldsProofs.

(* ------------------------------------------------- well formed infos -- *)

(* every db tag of the fields was accepted by parseTag *)
Definition tags_parsed (fields : list sfield) : Prop :=
  Forall (fun f => exists raw omit, parse_tag raw = BOk (sf_tag f, omit)) fields.

Definition wf_info (a : arginfo) : Prop :=
  match a with
  | StructInfo t tags fields =>
      tags = sort_strs (map sf_tag fields) /\ has_dup_tag [] fields = false /\ tags_parsed fields
  | _ => True
  end.

Definition wf_infos (infos : arginfos) : Prop := Forall (fun p => wf_info (snd p)) infos.

Lemma gsf_go_parsed env rec st :
  (forall st' nested, rec st' = BOk nested -> tags_parsed nested) ->
  forall fs i fields, gsf_go env rec st fs i = BOk fields -> tags_parsed fields.
Proof.
  intros Hrec. induction fs as [|fd fs IH]; intros i fields H.
  - cbn in H. inversion H; subst. constructor.
  - change (gsf_go env rec st (fd :: fs) i) with
      (let rest := gsf_go env rec st fs (S i) in
       match f_anon fd, f_tag fd with
       | true, [] =>
           if negb (f_exported fd) then rest
           else
             let ft := tget env (f_type fd) in
             let st' := match t_kind ft with KPtr => t_elem ft | _ => f_type fd end in
             match t_kind (tget env st') with
             | KStruct =>
                 bbind (rec st') (fun nested =>
                 bbind rest (fun r => BOk (map (reparent st i) nested ++ r)))
             | _ => rest
             end
       | _, [] => rest
       | _, tag =>
           if negb (f_exported fd) then BErr ENotExported
           else
             bbind (parse_tag tag) (fun '(name, omit) =>
             bbind rest (fun r =>
               BOk ({| sf_name := f_name fd; sf_struct := st; sf_index := [i];
                       sf_tag := name; sf_omit := omit |} :: r)))
       end) in H.
    cbv zeta in H.
    destruct (f_tag fd) as [|c tag] eqn:T.
    + destruct (f_anon fd); [|eapply IH; exact H].
      destruct (negb (f_exported fd)); [eapply IH; exact H|].
      destruct (t_kind (tget env _)); try (eapply IH; exact H).
      destruct (rec _) as [nested|e] eqn:R; cbn [bbind] in H; [|discriminate].
      destruct (gsf_go env rec st fs (S i)) as [r|e] eqn:G; cbn [bbind] in H; [|discriminate].
      inversion H; subst fields. apply Forall_app. split; [|eapply IH; exact G].
      apply Hrec in R. unfold tags_parsed in *. rewrite Forall_forall in *.
      intros f I. apply in_map_iff in I. destruct I as [f0 [E I]]. subst f. cbn. apply R. exact I.
    + assert (H' : (if negb (f_exported fd) then BErr ENotExported
                    else bbind (parse_tag (c :: tag)) (fun '(name, omit) =>
                         bbind (gsf_go env rec st fs (S i)) (fun r =>
                           BOk ({| sf_name := f_name fd; sf_struct := st; sf_index := [i];
                                   sf_tag := name; sf_omit := omit |} :: r)))) = BOk fields).
      { destruct (f_anon fd); exact H. }
      clear H. destruct (negb (f_exported fd)); [discriminate|].
      destruct (parse_tag (c :: tag)) as [[name omit]|e] eqn:PT; cbn [bbind] in H'; [|discriminate].
      destruct (gsf_go env rec st fs (S i)) as [r|e] eqn:G; cbn [bbind] in H'; [|discriminate].
      inversion H'; subst fields. constructor; [|eapply IH; exact G].
      cbn. exists (c :: tag), omit. exact PT.
Qed.

Lemma gsf_parsed env : forall fuel emb t fields,
  get_struct_fields fuel env emb t = BOk fields -> tags_parsed fields.
Proof.
  induction fuel as [|fuel IH]; intros emb t fields H; [discriminate|].
  rewrite gsf_unfold in H. destruct (existsb (Nat.eqb t) emb); [discriminate|].
  eapply gsf_go_parsed; [|exact H]. intros st' nested R. eapply IH. exact R.
Qed.

Lemma get_arg_info_wf env t a : get_arg_info env t = BOk a -> wf_info a.
Proof.
  unfold get_arg_info. destruct (t_kind (tget env t)); try discriminate.
  - destruct (get_struct_fields (S (length env)) env [] t) as [fields|e] eqn:G; cbn [bbind]; [|discriminate].
    destruct (has_dup_tag [] fields) eqn:D; [discriminate|].
    intros H. inversion H; subst. cbn. split; [reflexivity|]. split; [exact D|].
    eapply gsf_parsed. exact G.
  - destruct (t_keystr (tget env t)); intros H; inversion H; subst; exact I.
  - intros H; inversion H; subst; exact I.
Qed.

Lemma generate_arg_info_wf env samples : forall acc infos,
  wf_infos acc -> generate_arg_info env samples acc = BOk infos -> wf_infos infos.
Proof.
  induction samples as [|s rest IH]; intros acc infos W H; cbn [generate_arg_info] in H.
  - inversion H; subst. exact W.
  - destruct s as [t|]; [|discriminate].
    destruct (t_kind (tget env t)); try discriminate;
    (destruct (t_name (tget env t)) as [|c name] eqn:Nm; [discriminate|];
     destruct (get_arg_info env t) as [info|e] eqn:G; cbn [bbind] in H; [|discriminate];
     destruct (assoc_str (c :: name) acc) as [d|] eqn:A;
     [destruct (Nat.eqb (ai_type d) t); discriminate|];
     eapply IH; [|exact H];
     apply Forall_app; split; [exact W|]; constructor; [|constructor];
     cbn; eapply get_arg_info_wf; exact G).
Qed.

Lemma assoc_str_in_pair {A} k (l : list (str * A)) v : assoc_str k l = Some v -> exists k', In (k', v) l.
Proof.
  induction l as [|[k0 v0] l IH]; cbn [assoc_str]; [discriminate|].
  destruct (str_eqb k k0).
  - intros H. inversion H; subst. exists k0. left. reflexivity.
  - intros H. destruct (IH H) as [k' I]. exists k'. right. exact I.
Qed.

Lemma wf_infos_assoc infos k a : wf_infos infos -> assoc_str k infos = Some a -> wf_info a.
Proof.
  intros W H. destruct (assoc_str_in_pair _ _ _ H) as [k' I]. unfold wf_infos in W.
  rewrite Forall_forall in W. apply (W _ I).
Qed.

Lemma get_arg_spec b tn b1 a :
  get_arg b tn = BOk (b1, a) -> b_infos b1 = b_infos b /\ assoc_str tn (b_infos b) = Some a.
Proof.
  unfold get_arg. destruct (assoc_str tn (b_infos b)) as [x|]; [|discriminate].
  intros H. inversion H; subst. split; reflexivity.
Qed.

(* the members T.* expands to, for an info built by GenerateArgInfo *)
Lemma wf_all_members a ms :
  wf_info a -> get_all_struct_members a = BOk ms ->
  exists t fields, a = StructInfo t (sort_strs (map sf_tag fields)) fields /\
    map fst ms = sort_strs (map sf_tag fields) /\
    Forall (fun '(tag, l) => exists f, l = LField f /\ In f fields /\ sf_tag f = tag) ms /\
    Permutation (map snd ms) (map LField fields) /\ tags_parsed fields.
Proof.
  destruct a as [t tags fields|t|t]; try discriminate. intros [E [D P]] H. subst tags.
  exists t, fields. split; [reflexivity|].
  destruct fields as [|f fields]; [discriminate|].
  destruct (all_members t (f :: fields) D) as [ms' [E' [M [F Pm]]]]; [discriminate|].
  rewrite E' in H. inversion H; subst. auto.
Qed.

(* ------------------------------------------- asterisk INSERT (C04 d) -- *)

(* the column names one source of "(*) VALUES (...)" contributes *)
Definition source_columns (infos : arginfos) (s : macc) : list str :=
  if is_star (mname s) then
    match assoc_str (tname s) infos with
    | Some (StructInfo _ _ fields) => sort_strs (map sf_tag fields)
    | _ => []
    end
  else [mname s].

Lemma asterisk_columns : forall sources b cols0 b1 cols,
  wf_infos (b_infos b) ->
  asterisk_sources b sources cols0 = BOk (b1, cols) ->
  b_infos b1 = b_infos b /\
  map tcol_column cols = map tcol_column cols0 ++ flat_map (source_columns (b_infos b)) sources.
Proof.
  induction sources as [|s rest IH]; intros b cols0 b1 cols W H; cbn [asterisk_sources] in H.
  - inversion H; subst. cbn. rewrite app_nil_r. split; reflexivity.
  - cbn [flat_map]. unfold source_columns at 1. destruct (is_star (mname s)).
    + unfold all_struct_inputs in H.
      destruct (get_arg b (tname s)) as [[b2 a]|e] eqn:GA; cbn [bbind] in H; [|discriminate].
      apply get_arg_spec in GA. destruct GA as [Bi As].
      destruct (get_all_struct_members a) as [ms|e] eqn:GM; cbn [bbind] in H; [|discriminate].
      destruct (wf_all_members a ms (wf_infos_assoc _ _ _ W As) GM) as [t [fields [Ea [M _]]]].
      rewrite <- Bi in W. destruct (IH _ _ _ _ W H) as [I1 I2].
      rewrite I1, Bi. split; [reflexivity|]. rewrite I2, Bi, As, Ea, map_app, <- app_assoc.
      f_equal. f_equal. rewrite <- M, map_map. apply map_ext. intros [tag l]. reflexivity.
    + unfold input_member in H.
      destruct (get_arg b (tname s)) as [[b2 a]|e] eqn:GA; cbn [bbind] in H; [|discriminate].
      apply get_arg_spec in GA. destruct GA as [Bi As].
      destruct (get_member a (mname s)) as [l|e]; cbn [bbind] in H; [|discriminate].
      rewrite <- Bi in W. destruct (IH _ _ _ _ W H) as [I1 I2].
      rewrite I1, Bi. split; [reflexivity|]. rewrite I2, Bi, map_app, <- app_assoc. reflexivity.
Qed.

(* --------------------------------- no wildcard in output columns (C05 d) -- *)

(* the text does not end in '*': in particular it is not "*" and does not end
   in ".*" *)
Definition no_star_end (s : str) : Prop := last s 0%N <> 42%N.

Lemma last_app_ne {A} (a b : list A) d : b <> [] -> last (a ++ b) d = last b d.
Proof.
  intros NE. induction a as [|x a IH]; [reflexivity|]. cbn [app].
  destruct (a ++ b) eqn:E; [|rewrite <- IH; reflexivity].
  destruct a; cbn in E; [congruence|discriminate].
Qed.

Lemma no_star_end_spec s :
  no_star_end s -> s <> [42%N] /\ forall p, s <> p ++ [46%N; 42%N].
Proof.
  unfold no_star_end. intros H. split.
  - intros E. subst. apply H. reflexivity.
  - intros p E. subst. apply H. rewrite last_app_ne by discriminate. reflexivity.
Qed.

Lemma last_ge (l : list N) : l <> [] -> Forall (fun b => (128 <= b)%N) l -> (128 <= last l 0)%N.
Proof.
  induction l as [|x l IH]; [congruence|]. intros _ F. inversion F as [|y l' Hx Hl]; subst.
  destruct l as [|z l]; [exact Hx|]. change (last (x :: z :: l) 0%N) with (last (z :: l) 0%N).
  apply IH; [discriminate|exact Hl].
Qed.

(* the bytes of the first rune: one ASCII byte, or only bytes >= 0x80 *)
Lemma decode_rune_bytes s r size :
  s <> [] -> decode_rune s = (r, size) ->
  (exists t, s = r :: t /\ size = 1 /\ (r < 128)%N) \/
  (1 <= size /\ size <= length s /\ Forall (fun b => (128 <= b)%N) (firstn size s)).
Proof.
  destruct s as [|s0 t]; [congruence|]. intros _. unfold decode_rune, inr, rune_error.
  repeat match goal with
         | |- context [if ?b then _ else _] => destruct b eqn:?
         | |- context [match ?l with [] => _ | _ :: _ => _ end] => destruct l
         end; intros H; inversion H; subst; clear H;
  repeat match goal with
         | H : (_ <? _)%N = true |- _ => apply N.ltb_lt in H
         | H : (_ <? _)%N = false |- _ => apply N.ltb_ge in H
         | H : (_ <=? _)%N = true |- _ => apply N.leb_le in H
         | H : (_ <=? _)%N = false |- _ => apply N.leb_gt in H
         | H : (_ && _)%bool = true |- _ => apply andb_prop in H; destruct H
         end;
  first [ left; eexists; split; [reflexivity|split; [reflexivity|assumption]]
        | right; cbn [firstn length]; split; [lia|]; split; [lia|]; repeat constructor; lia ].
Qed.

Lemma first_rune_last (p : N -> bool) s r size :
  s <> [] -> decode_rune s = (r, size) -> p r = true -> p 42%N = false ->
  (skipn size s <> [] -> last (skipn size s) 0%N <> 42%N) ->
  last s 0%N <> 42%N.
Proof.
  intros NE D Pr P42 Rest. rewrite <- (firstn_skipn size s).
  destruct (skipn size s) as [|x rest] eqn:SK.
  - rewrite app_nil_r.
    destruct (decode_rune_bytes _ _ _ NE D) as [[t [E [Sz Lt]]]|[S1 [S2 F]]].
    + subst s size. cbn [skipn] in SK. subst t. cbn. intros E. subst r. congruence.
    + assert (NE2 : firstn size s <> []).
      { destruct size; [lia|]. destruct s; [congruence|]. discriminate. }
      pose proof (last_ge _ NE2 F). lia.
  - rewrite last_app_ne by discriminate. apply Rest. discriminate.
Qed.

Lemma all_runes_last (p : N -> bool) : p 42%N = false ->
  forall fuel s, all_runes fuel p s = true -> s <> [] -> last s 0%N <> 42%N.
Proof.
  intros P42. induction fuel as [|f IH]; intros s H NE; [discriminate|].
  cbn [all_runes] in H. destruct s as [|c s']; [congruence|].
  destruct (decode_rune (c :: s')) as [r size] eqn:D.
  apply andb_prop in H. destruct H as [Pr H].
  eapply (first_rune_last p); [discriminate|exact D|exact Pr|exact P42|].
  intros NE2. apply IH; assumption.
Qed.

(* a db tag accepted by parseTag never ends in '*' (a quoted tag ends in its
   quote; an unquoted one consists of letters, digits and '_') *)
Lemma parse_tag_last raw name omit : parse_tag raw = BOk (name, omit) -> no_star_end name.
Proof.
  unfold parse_tag, no_star_end. destruct (split_on 44 raw []) as [|nm flags]; [discriminate|].
  destruct (negb (forallb _ flags)); [discriminate|].
  destruct nm as [|c0 rest]; [discriminate|].
  destruct (N.eqb c0 34 || N.eqb c0 39) eqn:Q.
  - destruct (N.eqb (last (c0 :: rest) 0%N) c0) eqn:E; intros H; inversion H; subst; clear H.
    apply N.eqb_eq in E. rewrite E. apply orb_prop in Q.
    destruct Q as [Q|Q]; apply N.eqb_eq in Q; subst c0; discriminate.
  - destruct (decode_rune (c0 :: rest)) as [r size] eqn:D.
    destruct (is_digit r) eqn:Dg.
    + destruct (all_runes _ is_digit _) eqn:AR; intros H; inversion H; subst; clear H.
      eapply (first_rune_last is_digit); [discriminate|exact D|exact Dg|reflexivity|].
      intros NE. eapply (all_runes_last is_digit); [reflexivity|exact AR|exact NE].
    + destruct (is_letter r || N.eqb r 95) eqn:Lt; [|discriminate].
      destruct (all_runes _ name_rune _) eqn:AR; intros H; inversion H; subst; clear H.
      eapply (first_rune_last (fun x => is_letter x || N.eqb x 95));
        [discriminate|exact D|exact Lt|vm_compute; reflexivity|].
      intros NE. eapply (all_runes_last name_rune); [vm_compute; reflexivity|exact AR|exact NE].
Qed.

Lemma new_output_column_last pref col : no_star_end col -> no_star_end (new_output_column pref col).
Proof.
  unfold no_star_end, new_output_column. intros H. destruct pref as [|c pref]; [exact H|].
  destruct col as [|x col].
  - rewrite app_nil_r. rewrite last_app_ne by discriminate. discriminate.
  - rewrite app_assoc. rewrite last_app_ne by discriminate. exact H.
Qed.

(* the builder functions used for outputs only touch the used-marks *)
Definition same_teb (b b1 : teb) : Prop := b_infos b1 = b_infos b /\ b_exprs b1 = b_exprs b.

Lemma same_teb_trans a b c : same_teb a b -> same_teb b c -> same_teb a c.
Proof. unfold same_teb. intros [H1 H2] [H3 H4]. split; congruence. Qed.

Lemma get_arg_same b tn b1 a : get_arg b tn = BOk (b1, a) -> same_teb b b1.
Proof.
  unfold get_arg. destruct (assoc_str tn (b_infos b)); [|discriminate].
  intros H. inversion H; subst. split; reflexivity.
Qed.

Lemma mark_output_same env b l b1 : mark_output env b l = BOk b1 -> same_teb b b1.
Proof.
  unfold mark_output. destruct (existsb _ (b_outused b)); [discriminate|].
  intros H. inversion H; subst. split; reflexivity.
Qed.

Lemma mark_outputs_same env : forall ms b b1, mark_outputs env b ms = BOk b1 -> same_teb b b1.
Proof.
  induction ms as [|[tag l] ms IH]; intros b b1 H; cbn [mark_outputs] in H.
  - inversion H; subst. split; reflexivity.
  - destruct (mark_output env b l) as [b2|e] eqn:M; cbn [bbind] in H; [|discriminate].
    eapply same_teb_trans; [eapply mark_output_same; exact M|eapply IH; exact H].
Qed.

Lemma output_member_same env b tn member b1 l :
  output_member env b tn member = BOk (b1, l) -> same_teb b b1.
Proof.
  unfold output_member. destruct (get_arg b tn) as [[b2 a]|e] eqn:GA; cbn [bbind]; [|discriminate].
  destruct (get_member a member) as [l0|e]; cbn [bbind]; [|discriminate].
  destruct l0 as [f|mt k|st]; try discriminate;
    (destruct (mark_output env b2 _) as [b3|e] eqn:M; cbn [bbind]; [|discriminate];
     intros H; inversion H; subst;
     eapply same_teb_trans; [eapply get_arg_same; exact GA|eapply mark_output_same; exact M]).
Qed.

Definition clean_oc (oc : str * locator) : Prop := no_star_end (fst oc).

Lemma output_generated_clean env pref : forall targets b ocs b1 ocs',
  wf_infos (b_infos b) ->
  Forall (fun t => mname t = star \/ no_star_end (mname t)) targets ->
  Forall clean_oc ocs ->
  output_generated env b pref targets ocs = BOk (b1, ocs') ->
  same_teb b b1 /\ Forall clean_oc ocs'.
Proof.
  induction targets as [|t rest IH]; intros b ocs b1 ocs' W FT FO H; cbn [output_generated] in H.
  - inversion H; subst. split; [split; reflexivity|exact FO].
  - inversion FT as [|t' rest' Ht Frest]; subst.
    destruct (is_star (mname t)) eqn:St.
    + unfold all_struct_outputs in H.
      destruct (get_arg b (tname t)) as [[b2 a]|e] eqn:GA; cbn [bbind] in H; [|discriminate].
      destruct (get_arg_spec _ _ _ _ GA) as [Bi As]. apply get_arg_same in GA.
      destruct (get_all_struct_members a) as [ms|e] eqn:GM; cbn [bbind] in H; [|discriminate].
      destruct (mark_outputs env b2 ms) as [b3|e] eqn:MO; cbn [bbind] in H; [|discriminate].
      apply mark_outputs_same in MO.
      destruct (wf_all_members a ms (wf_infos_assoc _ _ _ W As) GM) as [ty [fields [_ [_ [F [_ P]]]]]].
      pose proof (same_teb_trans _ _ _ GA MO) as S13.
      assert (W3 : wf_infos (b_infos b3)) by (destruct S13 as [E _]; rewrite E; exact W).
      assert (FN : Forall clean_oc (map (fun '(tag, l) => (new_output_column pref tag, l)) ms)).
      { apply Forall_forall. intros oc I. apply in_map_iff in I. destruct I as [[tag l] [E I]]. subst oc.
        unfold clean_oc. cbn [fst]. apply new_output_column_last.
        rewrite Forall_forall in F. destruct (F _ I) as [f [_ [If Tg]]]. subst tag.
        unfold tags_parsed in P. rewrite Forall_forall in P. destruct (P f If) as [raw [omit PT]].
        eapply parse_tag_last. exact PT. }
      destruct (IH _ _ _ _ W3 Frest (proj2 (Forall_app _ _ _) (conj FO FN)) H) as [S Cl].
      split; [eapply same_teb_trans; eassumption|exact Cl].
    + destruct (output_member env b (tname t) (mname t)) as [[b2 l]|e] eqn:OM; cbn [bbind] in H; [|discriminate].
      apply output_member_same in OM.
      assert (W2 : wf_infos (b_infos b2)) by (destruct OM as [E _]; rewrite E; exact W).
      assert (Cn : no_star_end (mname t)).
      { destruct Ht as [Ht|Ht]; [|exact Ht]. unfold is_star in St. rewrite Ht, str_eqb_refl in St. discriminate. }
      destruct (IH _ _ _ _ W2 Frest (proj2 (Forall_app _ _ _)
                  (conj FO (Forall_cons _ (new_output_column_last pref _ Cn : clean_oc (_, l)) (Forall_nil _)))) H)
        as [S Cl].
      split; [eapply same_teb_trans; eassumption|exact Cl].
Qed.

Lemma output_into_star_clean env tn : forall cols b ocs b1 ocs',
  Forall (fun c => no_star_end (columnName c)) cols -> Forall clean_oc ocs ->
  output_into_star env b tn cols ocs = BOk (b1, ocs') ->
  same_teb b b1 /\ Forall clean_oc ocs'.
Proof.
  induction cols as [|c rest IH]; intros b ocs b1 ocs' FC FO H; cbn [output_into_star] in H.
  - inversion H; subst. split; [split; reflexivity|exact FO].
  - inversion FC as [|c' rest' Hc Frest]; subst.
    destruct (output_member env b tn (columnName c)) as [[b2 l]|e] eqn:OM; cbn [bbind] in H; [|discriminate].
    apply output_member_same in OM.
    destruct (IH _ _ _ _ Frest (proj2 (Forall_app _ _ _)
                (conj FO (Forall_cons _ (new_output_column_last (tableName c) _ Hc : clean_oc (_, l)) (Forall_nil _)))) H)
      as [S Cl].
    split; [eapply same_teb_trans; eassumption|exact Cl].
Qed.

Lemma output_pairwise_clean env : forall cols targets b ocs b1 ocs',
  Forall (fun c => no_star_end (columnName c)) cols -> Forall clean_oc ocs ->
  output_pairwise env b cols targets ocs = BOk (b1, ocs') ->
  same_teb b b1 /\ Forall clean_oc ocs'.
Proof.
  induction cols as [|c rest IH]; intros targets b ocs b1 ocs' FC FO H.
  - cbn [output_pairwise] in H. inversion H; subst. split; [split; reflexivity|exact FO].
  - destruct targets as [|t trest].
    + cbn [output_pairwise] in H. inversion H; subst. split; [split; reflexivity|exact FO].
    + cbn [output_pairwise] in H. inversion FC as [|c' rest' Hc Frest]; subst.
      destruct (output_member env b (tname t) (mname t)) as [[b2 l]|e] eqn:OM; cbn [bbind] in H; [|discriminate].
      apply output_member_same in OM.
      destruct (IH _ _ _ _ _ Frest (proj2 (Forall_app _ _ _)
                  (conj FO (Forall_cons _ (new_output_column_last (tableName c) _ Hc : clean_oc (_, l)) (Forall_nil _)))) H)
        as [S Cl].
      split; [eapply same_teb_trans; eassumption|exact Cl].
Qed.

Lemma filter_length_le {A} (f : A -> bool) l : length (filter f l) <= length l.
Proof. induction l as [|x l IH]; cbn; [lia|]. destruct (f x); cbn; lia. Qed.

Lemma no_star_columns cols :
  starCountColumns cols = 0 ->
  Forall (fun c => columnName c = star \/ no_star_end (columnName c)) cols ->
  Forall (fun c => no_star_end (columnName c)) cols.
Proof.
  unfold starCountColumns. induction cols as [|c cols IH]; intros Z F; [constructor|].
  inversion F as [|c' cols' Hc Fr]; subst. cbn [filter] in Z.
  destruct (str_eqb (columnName c) [ch_star]) eqn:E; [discriminate|].
  constructor; [|apply IH; assumption].
  destruct Hc as [Hc|Hc]; [|exact Hc]. unfold star in Hc. rewrite Hc, str_eqb_refl in E. discriminate.
Qed.

(* An output expression never produces a column that is "*" or ends in ".*":
   the star forms are expanded to the db tags, and parseTag accepts no tag
   ending in '*'.  (Column and member names of the AST are assumed not to end
   in '*' unless they are the star itself.) *)
Theorem output_no_wildcard env b raw cols targets b' :
  wf_infos (b_infos b) ->
  Forall (fun c => columnName c = star \/ no_star_end (columnName c)) cols ->
  Forall (fun t => mname t = star \/ no_star_end (mname t)) targets ->
  bind_expr env b (Output raw cols targets) = BOk b' ->
  exists ocs, b_infos b' = b_infos b /\ b_exprs b' = b_exprs b ++ [TOutput ocs] /\
              Forall clean_oc ocs.
Proof.
  intros W FC FT H. cbn [bind_expr] in H. cbv zeta in H.
  assert (Fin : forall b1 ocs, same_teb b b1 /\ Forall clean_oc ocs ->
            exists ocs0, b_infos (add_expr b1 (TOutput ocs)) = b_infos b /\
                         b_exprs (add_expr b1 (TOutput ocs)) = b_exprs b ++ [TOutput ocs0] /\
                         Forall clean_oc ocs0).
  { intros b1 ocs [[E1 E2] Cl]. exists ocs. cbn. rewrite E1, E2. auto. }
  destruct (Nat.eqb (length cols) 0 || (Nat.eqb (length cols) 1 && Nat.eqb (starCountColumns cols) 1)) eqn:C1.
  - destruct (output_generated env b _ targets []) as [[b1 ocs]|e] eqn:OG; cbn [bbind] in H; [|discriminate].
    inversion H; subst b'. apply Fin. eapply output_generated_clean; [exact W|exact FT|constructor|exact OG].
  - destruct (Nat.ltb 1 (length cols) && Nat.ltb 0 (starCountColumns cols)) eqn:C2; [discriminate|].
    assert (SC : starCountColumns cols = 0).
    { pose proof (filter_length_le (fun c => str_eqb (columnName c) [ch_star]) cols) as Le.
      fold (starCountColumns cols) in Le.
      apply orb_false_iff in C1. destruct C1 as [C1a C1b]. apply Nat.eqb_neq in C1a.
      apply andb_false_iff in C1b. apply andb_false_iff in C2.
      destruct C2 as [C2|C2]; [apply Nat.ltb_ge in C2|apply Nat.ltb_ge in C2; lia].
      destruct C1b as [C1b|C1b]; apply Nat.eqb_neq in C1b; lia. }
    pose proof (no_star_columns cols SC FC) as FC'.
    destruct (Nat.eqb (starCountTypes targets) 1 && Nat.eqb (length targets) 1).
    + destruct (output_into_star env b _ cols []) as [[b1 ocs]|e] eqn:OS; cbn [bbind] in H; [|discriminate].
      inversion H; subst b'. apply Fin. eapply output_into_star_clean; [exact FC'|constructor|exact OS].
    + destruct (Nat.ltb 0 (starCountTypes targets) && Nat.ltb 1 (length targets)); [discriminate|].
      destruct (Nat.eqb (length cols) (length targets)); [|discriminate].
      destruct (output_pairwise env b cols targets []) as [[b1 ocs]|e] eqn:OP; cbn [bbind] in H; [|discriminate].
      inversion H; subst b'. apply Fin. eapply output_pairwise_clean; [exact FC'|constructor|exact OP].
Qed.
