(* Struct field discovery against an independent lookup of a db tag in a
   struct value (C03 member values), and the members of T.* (C04, C05). *)
From Coq Require Import Permutation Sorted.
From SQLair.Base Require Import Bytes Utf8.
From SQLair.Model Require Import GenUnicode Reflect TypeInfo.
From SQLair.Proofs Require Import BindFacts SortFacts.

(* ------------------------------------------------------------ tag name -- *)

(* the db tag name: the part of the tag before the first comma *)
Fixpoint before_comma (s : str) : str :=
  match s with
  | [] => []
  | c :: s' => if N.eqb c 44 then [] else c :: before_comma s'
  end.

Definition tag_name (tag : str) : str := before_comma tag.

Lemma split_on_hd s : forall cur, hd [] (split_on 44 s cur) = rev cur ++ before_comma s.
Proof.
  induction s as [|c s IH]; intros cur; cbn [split_on before_comma].
  - cbn. rewrite app_nil_r. reflexivity.
  - destruct (N.eqb c 44); [cbn; rewrite app_nil_r; reflexivity|].
    rewrite IH. cbn [rev]. rewrite <- app_assoc. reflexivity.
Qed.

Lemma parse_tag_name tag name omit : parse_tag tag = BOk (name, omit) -> name = tag_name tag.
Proof.
  unfold parse_tag, tag_name. pose proof (split_on_hd tag []) as Hd. cbn [rev app] in Hd.
  destruct (split_on 44 tag []) as [|nm flags]; [discriminate|]. cbn [hd] in Hd. subst nm.
  destruct (negb (forallb _ flags)); [discriminate|].
  destruct (before_comma tag) as [|c0 rest] eqn:E; [discriminate|].
  destruct (N.eqb c0 34 || N.eqb c0 39).
  - destruct (N.eqb (last (c0 :: rest) 0%N) c0); intros H; inversion H; reflexivity.
  - destruct (decode_rune (c0 :: rest)) as [r size].
    destruct (is_digit r).
    + destruct (all_runes _ is_digit _); intros H; inversion H; reflexivity.
    + destruct (is_letter r || N.eqb r 95); [|discriminate].
      destruct (all_runes _ name_rune _); intros H; inversion H; reflexivity.
Qed.

(* ------------------------------------ independent specification: lookup -- *)

(* an untagged exported anonymous field whose type is a struct or a pointer to
   a struct: (the struct type, whether through a pointer) *)
Definition embedded_struct (env : tenv) (f : field) : option (tid * bool) :=
  match f_tag f with
  | [] =>
      if f_anon f && f_exported f then
        let ft := tget env (f_type f) in
        match t_kind ft with
        | KPtr => match t_kind (tget env (t_elem ft)) with
                  | KStruct => Some (t_elem ft, true)
                  | _ => None
                  end
        | KStruct => Some (f_type f, false)
        | _ => None
        end
      else None
  | _ => None
  end.

Fixpoint has_tag_fields (env : tenv) (hast : tid -> bool) (m : str) (fs : list field) : bool :=
  match fs with
  | [] => false
  | f :: fs' =>
      match f_tag f with
      | [] => match embedded_struct env f with
              | Some (st', _) => hast st'
              | None => false
              end
      | tag => f_exported f && str_eqb (tag_name tag) m
      end || has_tag_fields env hast m fs'
  end.

(* does struct type [t] have a field tagged [m] (also through embedded structs) *)
Fixpoint has_tag (env : tenv) (fuel : nat) (t : tid) (m : str) : bool :=
  match fuel with
  | O => false
  | S fuel' => has_tag_fields env (fun st => has_tag env fuel' st m) m (t_fields (tget env t))
  end.

Fixpoint lookup_fields (env : tenv) (hast : tid -> bool) (rec : tid -> val -> option val)
  (m : str) (fs : list field) (vs : list val) : option val :=
  match fs, vs with
  | f :: fs', x :: vs' =>
      match f_tag f with
      | [] =>
          match embedded_struct env f with
          | Some (st', isptr) =>
              if hast st' then
                if isptr then match x with VPtr y => rec st' y | _ => None end
                else rec st' x
              else lookup_fields env hast rec m fs' vs'
          | None => lookup_fields env hast rec m fs' vs'
          end
      | tag => if f_exported f && str_eqb (tag_name tag) m then Some x
               else lookup_fields env hast rec m fs' vs'
      end
  | _, _ => None
  end.

(* the value of the field of struct value [v] (of type [t]) whose db tag name
   is [m]: fields in order; a tagged exported field matches by name; an
   embedded struct that has the tag is searched (through a non-nil pointer) *)
Fixpoint lookup_tag (env : tenv) (fuel : nat) (t : tid) (m : str) (v : val) : option val :=
  match fuel with
  | O => None
  | S fuel' =>
      match v with
      | VStruct vs =>
          lookup_fields env (fun st => has_tag env fuel' st m)
                        (fun st x => lookup_tag env fuel' st m x) m (t_fields (tget env t)) vs
      | _ => None
      end
  end.

Fixpoint conforms_fields (env : tenv) (rec : tid -> val -> Prop) (fs : list field) (vs : list val)
  : Prop :=
  match fs, vs with
  | [], [] => True
  | f :: fs', x :: vs' =>
      match embedded_struct env f with
      | Some (st', true) => x = VNilPtr \/ exists y, x = VPtr y /\ rec st' y
      | Some (st', false) => rec st' x
      | None => True
      end /\ conforms_fields env rec fs' vs'
  | _, _ => False
  end.

(* a value tree that has the shape of struct type [t] *)
Fixpoint value_conforms (env : tenv) (fuel : nat) (t : tid) (v : val) : Prop :=
  match fuel with
  | O => True
  | S fuel' =>
      match v with
      | VStruct vs =>
          conforms_fields env (fun st x => value_conforms env fuel' st x) (t_fields (tget env t)) vs
      | _ => False
      end
  end.

(* ----------------------------------------- the loop of getStructFields -- *)

Definition gsf_go (env : tenv) (rec : tid -> bres (list sfield)) (st : tid)
  : list field -> nat -> bres (list sfield) :=
  fix go (fs : list field) (i : nat) : bres (list sfield) :=
    match fs with
    | [] => BOk []
    | f :: fs' =>
        let rest := go fs' (S i) in
        match f_anon f, f_tag f with
        | true, [] =>
            if negb (f_exported f) then rest
            else
              let ft := tget env (f_type f) in
              let st' := match t_kind ft with KPtr => t_elem ft | _ => f_type f end in
              match t_kind (tget env st') with
              | KStruct =>
                  bbind (rec st') (fun nested =>
                  bbind rest (fun r => BOk (map (reparent st i) nested ++ r)))
              | _ => rest
              end
        | _, [] => rest
        | _, tag =>
            if negb (f_exported f) then BErr ENotExported
            else
              bbind (parse_tag tag) (fun '(name, omit) =>
              bbind rest (fun r =>
                BOk ({| sf_name := f_name f; sf_struct := st; sf_index := [i];
                        sf_tag := name; sf_omit := omit |} :: r)))
        end
    end.

Lemma gsf_unfold fuel env emb st :
  get_struct_fields (S fuel) env emb st =
  if existsb (Nat.eqb st) emb then BErr ESelfEmbed
  else gsf_go env (get_struct_fields fuel env (emb ++ [st])) st (t_fields (tget env st)) 0.
Proof. reflexivity. Qed.

Definition is_some {A} (o : option A) : bool := match o with Some _ => true | None => false end.

Lemma find_tag_app m a b :
  find_tag m (a ++ b) = match find_tag m a with Some f => Some f | None => find_tag m b end.
Proof.
  induction a as [|f a IH]; [reflexivity|]. cbn [app find_tag].
  destruct (str_eqb (sf_tag f) m); [reflexivity|exact IH].
Qed.

Lemma find_tag_reparent m st i l :
  find_tag m (map (reparent st i) l) = option_map (reparent st i) (find_tag m l).
Proof.
  induction l as [|f l IH]; [reflexivity|]. cbn [map find_tag reparent sf_tag].
  destruct (str_eqb (sf_tag f) m); [reflexivity|exact IH].
Qed.

Lemma nth_error_pre {A} (pre : list A) x vs : nth_error (pre ++ x :: vs) (length pre) = Some x.
Proof. induction pre as [|p pre IH]; [reflexivity|exact IH]. Qed.

Lemma str_eqb_sym a : forall b, str_eqb a b = str_eqb b a.
Proof.
  induction a as [|x a IH]; intros [|y b]; try reflexivity. cbn [str_eqb].
  rewrite IH, N.eqb_sym. reflexivity.
Qed.

(* what a successful getStructFields of [t] guarantees, against the lookup *)
Definition good (env : tenv) (fuel : nat) (t : tid) (fields : list sfield) : Prop :=
  (forall f, In f fields -> sf_index f <> [] /\ sf_struct f = t) /\
  (forall m, has_tag env fuel t m = is_some (find_tag m fields)) /\
  (forall m f v, find_tag m fields = Some f -> value_conforms env fuel t v ->
                 field_by_index v (sf_index f) = lookup_tag env fuel t m v).

Section Go.
  Variable env : tenv.
  Variable fuel' : nat.
  Variable rec : tid -> bres (list sfield).
  Variable st : tid.
  Hypothesis Hrec : forall st' nested, rec st' = BOk nested -> good env fuel' st' nested.
  Hypothesis Hfuel : forall st' nested, rec st' = BOk nested -> exists k, fuel' = S k.

  Lemma gsf_go_good : forall fs i fields,
    gsf_go env rec st fs i = BOk fields ->
    (forall f, In f fields -> sf_index f <> [] /\ sf_struct f = st) /\
    (forall m, has_tag_fields env (fun s => has_tag env fuel' s m) m fs = is_some (find_tag m fields)) /\
    (forall m f pre vs, find_tag m fields = Some f -> length pre = i ->
       conforms_fields env (fun s x => value_conforms env fuel' s x) fs vs ->
       field_by_index (VStruct (pre ++ vs)) (sf_index f) =
       lookup_fields env (fun s => has_tag env fuel' s m) (fun s x => lookup_tag env fuel' s m x) m fs vs).
  Proof.
    induction fs as [|fd fs IH]; intros i fields H.
    - cbn in H. inversion H; subst. split; [intros f []|]. split; [reflexivity|].
      intros m f pre vs F. discriminate.
    - change (gsf_go env rec st (fd :: fs) i) with
        (let rest := gsf_go env rec st fs (S i) in
         match f_anon fd, f_tag fd with
         | true, [] =>
             if negb (f_exported fd) then rest
             else
               let ft := tget env (f_type fd) in
               let st' := match t_kind ft with KPtr => t_elem ft | _ => f_type fd end in
               match t_kind (tget env st') with
               | KStruct =>
                   bbind (rec st') (fun nested =>
                   bbind rest (fun r => BOk (map (reparent st i) nested ++ r)))
               | _ => rest
               end
         | _, [] => rest
         | _, tag =>
             if negb (f_exported fd) then BErr ENotExported
             else
               bbind (parse_tag tag) (fun '(name, omit) =>
               bbind rest (fun r =>
                 BOk ({| sf_name := f_name fd; sf_struct := st; sf_index := [i];
                         sf_tag := name; sf_omit := omit |} :: r)))
         end) in H.
      cbv zeta in H.
      (* the three ways the loop treats a field *)
      assert (Skip : embedded_struct env fd = None -> f_tag fd = [] ->
                     gsf_go env rec st fs (S i) = BOk fields ->
                     (forall f, In f fields -> sf_index f <> [] /\ sf_struct f = st) /\
                     (forall m, has_tag_fields env (fun s => has_tag env fuel' s m) m (fd :: fs) =
                                is_some (find_tag m fields)) /\
                     (forall m f pre vs, find_tag m fields = Some f -> length pre = i ->
                        conforms_fields env (fun s x => value_conforms env fuel' s x) (fd :: fs) vs ->
                        field_by_index (VStruct (pre ++ vs)) (sf_index f) =
                        lookup_fields env (fun s => has_tag env fuel' s m)
                          (fun s x => lookup_tag env fuel' s m x) m (fd :: fs) vs)).
      { intros ES T R. destruct (IH _ _ R) as [I1 [I2 I3]]. split; [exact I1|]. split.
        - intros m. cbn [has_tag_fields]. rewrite T, ES. cbn [orb]. apply I2.
        - intros m f pre vs F L C. destruct vs as [|x vs]; [destruct C|].
          cbn [conforms_fields] in C. destruct C as [_ C].
          cbn [lookup_fields]. rewrite T, ES.
          rewrite <- (I3 m f (pre ++ [x]) vs F); [rewrite <- app_assoc; reflexivity| |exact C].
          rewrite app_length. cbn. lia. }
      destruct (f_tag fd) as [|c tag] eqn:T.
      + (* untagged *)
        destruct (f_anon fd) eqn:An; [|apply Skip; [unfold embedded_struct; rewrite T, An; reflexivity|reflexivity|exact H]].
        destruct (f_exported fd) eqn:Ex; cbn [negb] in H;
          [|apply Skip; [unfold embedded_struct; rewrite T, An, Ex; reflexivity|reflexivity|exact H]].
        (* the embedded struct type, as embedded_struct computes it *)
        assert (ESome : forall st' isptr,
                  embedded_struct env fd = Some (st', isptr) ->
                  (match t_kind (tget env (f_type fd)) with KPtr => t_elem (tget env (f_type fd)) | _ => f_type fd end) = st' /\
                  t_kind (tget env st') = KStruct).
        { unfold embedded_struct. rewrite T, An, Ex. cbn [andb]. intros st' isptr.
          destruct (t_kind (tget env (f_type fd))) eqn:K; try discriminate.
          - intros E. inversion E; subst. split; [reflexivity|exact K].
          - destruct (t_kind (tget env (t_elem (tget env (f_type fd))))) eqn:K2; try discriminate.
            intros E. inversion E; subst. split; [reflexivity|exact K2]. }
        assert (ENone : embedded_struct env fd = None ->
                  t_kind (tget env (match t_kind (tget env (f_type fd)) with KPtr => t_elem (tget env (f_type fd)) | _ => f_type fd end)) <> KStruct).
        { unfold embedded_struct. rewrite T, An, Ex. cbn [andb].
          destruct (t_kind (tget env (f_type fd))) eqn:K; try discriminate; try (intros _; rewrite K; discriminate).
          destruct (t_kind (tget env (t_elem (tget env (f_type fd))))) eqn:K2; try discriminate;
            intros _; discriminate. }
        destruct (embedded_struct env fd) as [[st' isptr]|] eqn:ES.
        * destruct (ESome st' isptr eq_refl) as [Est K]. rewrite Est, K in H.
          destruct (rec st') as [nested|e] eqn:R; cbn [bbind] in H; [|discriminate].
          destruct (gsf_go env rec st fs (S i)) as [r|e] eqn:G; cbn [bbind] in H; [|discriminate].
          inversion H; subst fields; clear H.
          destruct (Hrec _ _ R) as [N1 [N2 N3]]. destruct (IH _ _ G) as [I1 [I2 I3]].
          split; [|split].
          -- intros f I. apply in_app_iff in I. destruct I as [I|I]; [|apply I1; exact I].
             apply in_map_iff in I. destruct I as [f0 [E I]]. subst f. cbn. split; [discriminate|reflexivity].
          -- intros m. cbn [has_tag_fields]. rewrite T, ES, find_tag_app, find_tag_reparent, N2, I2.
             destruct (find_tag m nested); reflexivity.
          -- intros m f pre vs F L C. destruct vs as [|x vs]; [destruct C|].
             cbn [conforms_fields] in C. rewrite ES in C. destruct C as [Cx C].
             cbn [lookup_fields]. rewrite T, ES, N2.
             rewrite find_tag_app, find_tag_reparent in F.
             destruct (find_tag m nested) as [f0|] eqn:F0; cbn [option_map is_some] in *.
             ++ inversion F; subst f; clear F. cbn [reparent sf_index].
                destruct (N1 f0) as [NE _].
                { clear - F0. induction nested as [|g nested IHn]; [discriminate|]. cbn [find_tag] in F0.
                  destruct (str_eqb (sf_tag g) m); [inversion F0; left; reflexivity|right; apply IHn; exact F0]. }
                cbn [field_by_index]. rewrite <- L, nth_error_pre.
                destruct isptr.
                ** destruct Cx as [Cx|[y [Cx Cy]]]; subst x.
                   --- destruct (sf_index f0); [congruence|reflexivity].
                   --- rewrite <- (N3 m f0 y F0 Cy).
                       destruct (sf_index f0) as [|j p]; [congruence|].
                       destruct (Hfuel _ _ R) as [k Ek]. rewrite Ek in Cy.
                       cbn [value_conforms] in Cy. destruct y; try destruct Cy. reflexivity.
                ** apply N3; assumption.
             ++ rewrite <- (I3 m f (pre ++ [x]) vs F); [rewrite <- app_assoc; reflexivity| |exact C].
                rewrite app_length. cbn. lia.
        * apply Skip; [reflexivity|reflexivity|].
          pose proof (ENone eq_refl) as NK.
          destruct (t_kind (tget env (match t_kind (tget env (f_type fd)) with KPtr => t_elem (tget env (f_type fd)) | _ => f_type fd end)));
            try exact H. congruence.
      + (* tagged *)
        assert (H' : (if negb (f_exported fd) then BErr ENotExported
                      else bbind (parse_tag (c :: tag)) (fun '(name, omit) =>
                           bbind (gsf_go env rec st fs (S i)) (fun r =>
                             BOk ({| sf_name := f_name fd; sf_struct := st; sf_index := [i];
                                     sf_tag := name; sf_omit := omit |} :: r)))) = BOk fields).
        { destruct (f_anon fd); exact H. }
        clear H. destruct (f_exported fd) eqn:Ex; cbn [negb] in H'; [|discriminate].
        destruct (parse_tag (c :: tag)) as [[name omit]|e] eqn:PT; cbn [bbind] in H'; [|discriminate].
        destruct (gsf_go env rec st fs (S i)) as [r|e] eqn:G; cbn [bbind] in H'; [|discriminate].
        inversion H'; subst fields; clear H'.
        apply parse_tag_name in PT. destruct (IH _ _ G) as [I1 [I2 I3]].
        split; [|split].
        * intros f [I|I]; [subst f; cbn; split; [discriminate|reflexivity]|apply I1; exact I].
        * intros m. cbn [has_tag_fields find_tag sf_tag]. rewrite T, Ex, <- PT. cbn [andb].
          destruct (str_eqb name m); [reflexivity|]. cbn [orb]. apply I2.
        * intros m f pre vs F L C. destruct vs as [|x vs]; [destruct C|].
          cbn [conforms_fields] in C. destruct C as [_ C].
          cbn [lookup_fields]. rewrite T, Ex, <- PT. cbn [andb].
          cbn [find_tag sf_tag] in F. destruct (str_eqb name m).
          -- inversion F; subst f. cbn [sf_index field_by_index]. rewrite <- L, nth_error_pre. reflexivity.
          -- rewrite <- (I3 m f (pre ++ [x]) vs F); [rewrite <- app_assoc; reflexivity| |exact C].
             rewrite app_length. cbn. lia.
  Qed.
End Go.

Lemma gsf_good env : forall fuel emb t fields,
  get_struct_fields fuel env emb t = BOk fields -> good env fuel t fields.
Proof.
  induction fuel as [|fuel IH]; intros emb t fields H; [discriminate|].
  rewrite gsf_unfold in H. destruct (existsb (Nat.eqb t) emb); [discriminate|].
  assert (Hf : forall st' nested, get_struct_fields fuel env (emb ++ [t]) st' = BOk nested ->
                                  exists k, fuel = S k).
  { intros st' nested R. destruct fuel; [discriminate|]. eexists; reflexivity. }
  destruct (gsf_go_good env fuel (get_struct_fields fuel env (emb ++ [t])) t
              (fun st' nested R => IH _ _ _ R) Hf _ _ _ H) as [G1 [G2 G3]].
  split; [exact G1|]. split.
  - intros m. cbn [has_tag]. apply G2.
  - intros m f v F C. cbn [value_conforms] in C. destruct v as [| | |vs| | |]; try destruct C.
    cbn [lookup_tag]. apply (G3 m f [] vs F eq_refl C).
Qed.

(* $T.member: the index path found by getStructFields leads to the value the
   independent lookup finds (None on both sides for a nil embedded pointer) *)
Theorem member_value env fuel t fields m f v :
  get_struct_fields fuel env [] t = BOk fields ->
  find_tag m fields = Some f ->
  value_conforms env fuel t v ->
  field_by_index v (sf_index f) = lookup_tag env fuel t m v.
Proof. intros H F C. destruct (gsf_good _ _ _ _ _ H) as [_ [_ G]]. apply G; assumption. Qed.

Theorem member_has_tag env fuel t fields m :
  get_struct_fields fuel env [] t = BOk fields ->
  has_tag env fuel t m = is_some (find_tag m fields).
Proof. intros H. destruct (gsf_good _ _ _ _ _ H) as [_ [G _]]. apply G. Qed.

Lemma find_tag_some m fields f : find_tag m fields = Some f -> In f fields /\ sf_tag f = m.
Proof.
  induction fields as [|g fields IH]; [discriminate|]. cbn [find_tag].
  destruct (str_eqb (sf_tag g) m) eqn:E.
  - intros H. inversion H; subst. split; [left; reflexivity|apply str_eqb_eq; exact E].
  - intros H. destruct (IH H) as [I T]. split; [right; exact I|exact T].
Qed.

(* LocateParams of a struct member when the struct itself was supplied *)
Theorem locate_member env fuel t fields m f mm v :
  get_struct_fields fuel env [] t = BOk fields ->
  find_tag m fields = Some f ->
  t2v_get mm t = Some v ->
  value_conforms env fuel t v ->
  locate_params env (LField f) mm =
    match lookup_tag env fuel t m v with
    | Some x => BOk {| p_vals := [x]; p_omit := is_zero x && sf_omit f; p_bulk := false; p_argtype := t |}
    | None => BErr ENilEmbedded
    end.
Proof.
  intros H F G C. destruct (gsf_good _ _ _ _ _ H) as [G1 [_ G3]].
  destruct (find_tag_some _ _ _ F) as [I _]. destruct (G1 f I) as [_ St].
  cbn [locate_params]. rewrite St, G. unfold field_of. rewrite (G3 m f v F C).
  destruct (lookup_tag env fuel t m v); reflexivity.
Qed.

(* $M.key: the value stored under the key *)
Theorem locate_mapkey env mt key mm nl entries v :
  t2v_get mm mt = Some (VMap nl entries) ->
  ((exists p, locate_params env (LMapKey mt key) mm = BOk p /\ p_vals p = [v]) <->
   assoc_str key entries = Some v).
Proof.
  intros G. cbn [locate_params]. rewrite G. cbn [map_index].
  destruct (assoc_str key entries) as [x|]; split.
  - intros [p [E V]]. inversion E; subst. cbn in V. congruence.
  - intros E. inversion E; subst. eexists. split; reflexivity.
  - intros [p [E _]]. discriminate.
  - discriminate.
Qed.

(* ------------------------------------------------- members of T.* -- *)

Lemma has_dup_tag_spec : forall fields seen,
  has_dup_tag seen fields = false ->
  NoDup (map sf_tag fields) /\ forall t, In t seen -> ~ In t (map sf_tag fields).
Proof.
  induction fields as [|f fields IH]; intros seen H.
  - split; [constructor|intros t _ []].
  - cbn [has_dup_tag] in H. apply orb_false_iff in H. destruct H as [H1 H2].
    destruct (IH _ H2) as [ND NS]. cbn [map]. split.
    + constructor; [|exact ND]. apply NS. left. reflexivity.
    + intros t I [E|I2].
      * subst t. assert (X : existsb (str_eqb (sf_tag f)) seen = true).
        { apply existsb_exists. exists (sf_tag f). split; [exact I|apply str_eqb_refl]. }
        congruence.
      * apply (NS t); [right; exact I|exact I2].
Qed.

Lemma find_tag_nodup fields : NoDup (map sf_tag fields) ->
  forall f, In f fields -> find_tag (sf_tag f) fields = Some f.
Proof.
  induction fields as [|g fields IH]; intros ND f I; [destruct I|].
  cbn [map] in ND. inversion ND as [|x l NI ND']; subst. cbn [find_tag].
  destruct I as [I|I].
  - subst g. rewrite str_eqb_refl. reflexivity.
  - destruct (str_eqb (sf_tag g) (sf_tag f)) eqn:E; [|apply IH; assumption].
    apply str_eqb_eq in E. exfalso. apply NI. rewrite E. apply in_map. exact I.
Qed.

Lemma members_flat_map fields : NoDup (map sf_tag fields) -> forall l,
  incl l fields ->
  flat_map (fun tag => match find_tag tag fields with
                       | Some f => [(tag, LField f)]
                       | None => []
                       end) (map sf_tag l) = map (fun f => (sf_tag f, LField f)) l.
Proof.
  intros ND. induction l as [|f l IH]; intros Inc; [reflexivity|].
  cbn [map flat_map]. rewrite (find_tag_nodup fields ND f (Inc f (or_introl eq_refl))).
  cbn [app]. f_equal. apply IH. intros x Hx. apply Inc. right. exact Hx.
Qed.

(* T.*: one member per db tag, in byte-lexicographic order of the tags *)
Theorem all_members t fields :
  has_dup_tag [] fields = false -> fields <> [] ->
  exists ms,
    get_all_struct_members (StructInfo t (sort_strs (map sf_tag fields)) fields) = BOk ms /\
    map fst ms = sort_strs (map sf_tag fields) /\
    Forall (fun '(tag, l) => exists f, l = LField f /\ In f fields /\ sf_tag f = tag) ms /\
    Permutation (map snd ms) (map LField fields).
Proof.
  intros D NE. destruct (has_dup_tag_spec _ _ D) as [ND _].
  cbn [get_all_struct_members].
  destruct (sort_strs (map sf_tag fields)) as [|t0 ts] eqn:S.
  { exfalso. apply NE. pose proof (sort_strs_length (map sf_tag fields)) as L.
    rewrite S, map_length in L. destruct fields; [reflexivity|discriminate]. }
  rewrite <- S. clear t0 ts S. eexists. split; [reflexivity|].
  set (g := fun tag => match find_tag tag fields with
                       | Some f => [(tag, LField f)]
                       | None => []
                       end).
  assert (Each : forall tags, incl tags (map sf_tag fields) ->
            map fst (flat_map g tags) = tags /\
            Forall (fun '(tag, l) => exists f, l = LField f /\ In f fields /\ sf_tag f = tag)
                   (flat_map g tags)).
  { induction tags as [|tag tags IH]; intros Inc; [split; [reflexivity|constructor]|].
    assert (I : In tag (map sf_tag fields)) by (apply Inc; left; reflexivity).
    apply in_map_iff in I. destruct I as [f [E I]]. subst tag.
    destruct IH as [IH1 IH2]; [intros x Hx; apply Inc; right; exact Hx|].
    cbn [flat_map]. unfold g at 1 3. rewrite (find_tag_nodup fields ND f I). cbn [app map fst].
    split; [rewrite IH1; reflexivity|]. constructor; [|exact IH2]. exists f. auto. }
  destruct (Each (sort_strs (map sf_tag fields))) as [E1 E2].
  { intros x Hx. exact (proj1 (sort_strs_in _ _) Hx). }
  split; [exact E1|]. split; [exact E2|].
  eapply Permutation_trans.
  - apply Permutation_map. apply Permutation_flat_map. apply Permutation_sym. apply sort_strs_perm.
  - fold g. unfold g. rewrite (members_flat_map fields ND fields (incl_refl _)).
    rewrite map_map. cbn [snd]. apply Permutation_refl.
Qed.

Theorem all_members_sorted t fields ms :
  get_all_struct_members (StructInfo t (sort_strs (map sf_tag fields)) fields) = BOk ms ->
  has_dup_tag [] fields = false ->
  map fst ms = sort_strs (map sf_tag fields) /\ StronglySorted str_le (map fst ms).
Proof.
  intros H D. destruct fields as [|f fields]; [discriminate|].
  destruct (all_members t (f :: fields) D) as [ms' [E [M _]]]; [discriminate|].
  rewrite E in H. inversion H; subst. split; [exact M|]. rewrite M. apply sort_strs_sorted.
Qed.
