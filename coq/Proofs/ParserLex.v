(* C02: string literals and comments are opaque to expression parsing.

   Specification, independent of the parser: a byte-level automaton [lexq]
   that tracks whether a position of the input is inside a quoted literal or a
   comment.  Synchronisation invariant: whenever the parser model is at a
   "top-level" point (main-loop head, entry/exit of any expression-level
   function), the automaton run over the consumed prefix is outside literals
   and comments, up to the one-byte lookahead of the automaton ([good]).

   Structure (same style as ParserExt.v / ParserFuel.v):
   - [SyncFn f]    : f preserves [synced inp] whatever it returns;
   - [NormFn f]    : if f returns Ok, the automaton is exactly in [Normal];
   - [RestoreFn f] : if f returns No, the state is the entry state. *)
From SQLair.Base Require Import Bytes Utf8.
From SQLair.Model Require Import GenUnicode GenConsts Parser.
From SQLair.Proofs Require Import Utf8Facts ParserExt ParserTiling ParserFuel.
Local Open Scope N_scope.

(* ------------------------------------------------------- the automaton -- *)

Inductive lexstate :=
| Normal            (* outside literals and comments *)
| SeenMinus         (* outside; the previous byte is a '-' that may open "--" *)
| SeenSlash         (* outside; the previous byte is a '/' that may open "/*" *)
| InS               (* inside '...' *)
| InD               (* inside "..." *)
| InLine            (* inside -- ... (up to, not including, the newline) *)
| InBlock           (* inside /* ... *)
| InBlockStar.      (* inside /* ... and the previous byte is a '*' *)

Definition lex_step (q : lexstate) (b : N) : lexstate :=
  match q with
  | Normal | SeenMinus | SeenSlash =>
      if b =? 39 then InS
      else if b =? 34 then InD
      else if b =? 45 then (match q with SeenMinus => InLine | _ => SeenMinus end)
      else if b =? 47 then SeenSlash
      else if b =? 42 then (match q with SeenSlash => InBlock | _ => Normal end)
      else Normal
  | InS => if b =? 39 then Normal else InS
  | InD => if b =? 34 then Normal else InD
  | InLine => if b =? 10 then Normal else InLine
  | InBlock => if b =? 42 then InBlockStar else InBlock
  | InBlockStar => if b =? 47 then Normal else if b =? 42 then InBlockStar else InBlock
  end.

Definition lexq (q : lexstate) (bs : str) : lexstate := fold_left lex_step bs q.

Definition lex_state_at_end (inp : str) : lexstate := lexq Normal inp.

(* strictly inside a quoted literal *)
Definition unclosed (q : lexstate) : bool :=
  match q with InS | InD => true | _ => false end.

(* outside literals and comments *)
Definition normal_like (q : lexstate) : bool :=
  match q with Normal | SeenMinus | SeenSlash => true | _ => false end.

Lemma lexq_app q a b : lexq q (a ++ b) = lexq (lexq q a) b.
Proof. unfold lexq. apply fold_left_app. Qed.

(* what any byte other than 10 34 39 42 45 47 does *)
Definition hi (q : lexstate) : lexstate :=
  match q with
  | Normal | SeenMinus | SeenSlash => Normal
  | InBlock | InBlockStar => InBlock
  | q => q
  end.

Definition plainb (b : N) : bool := negb (mem_N b [10; 34; 39; 42; 45; 47]).

Ltac eqb_cases :=
  repeat match goal with
         | |- context [(?a =? ?b)] => destruct (N.eqb_spec a b); try subst; try lia; try congruence
         end.

Lemma lex_step_plain q b : plainb b = true -> lex_step q b = hi q.
Proof.
  unfold plainb, mem_N. simpl. intros H. apply negb_true_iff in H.
  repeat (apply orb_false_elim in H; destruct H as [? H]).
  destruct q; unfold lex_step, hi;
    repeat match goal with
           | E : (b =? ?k) = false |- context [b =? ?k] => rewrite E
           end; reflexivity.
Qed.

Lemma hi_hi q : hi (hi q) = hi q.
Proof. destruct q; reflexivity. Qed.

Lemma lexq_plain bs : forall q, bs <> [] -> (forall b, In b bs -> plainb b = true) -> lexq q bs = hi q.
Proof.
  induction bs as [|b t IH]; intros q NE P; [congruence|].
  change (lexq q (b :: t)) with (lexq (lex_step q b) t).
  rewrite (lex_step_plain q b) by (apply P; left; reflexivity).
  destruct t as [|b' t']; [reflexivity|].
  rewrite IH; [apply hi_hi|discriminate|intros x Hx; apply P; right; exact Hx].
Qed.

Lemma high_plain b : 128 <= b -> plainb b = true.
Proof.
  intros H. unfold plainb, mem_N. simpl. apply negb_true_iff.
  repeat match goal with |- context [b =? ?k] => destruct (N.eqb_spec b k); [lia|] end. reflexivity.
Qed.

(* ------------------------------------------- parser state vs automaton -- *)

(* the automaton run over the consumed part of [inp] is in state q *)
Definition at_q (inp : str) (s : pstate) (q : lexstate) : Prop :=
  exists pre, inp = pre ++ rest s /\ lexq Normal pre = q.

(* q is a state the parser may be in at a top-level point: outside literals
   and comments, except that a line comment extends up to the next newline and
   a comment may be cut by the end of the input; the lookahead states are only
   allowed where the lookahead fails *)
Definition good (q : lexstate) (s : pstate) : Prop :=
  match q with
  | Normal => True
  | SeenMinus => peekChar 45 s = false
  | SeenSlash => peekChar 42 s = false
  | InLine => at_end s = true \/ cur s = 10
  | InBlock | InBlockStar => at_end s = true
  | InS | InD => False
  end.

Definition synced (inp : str) (s : pstate) : Prop := exists q, at_q inp s q /\ good q s.
Definition snorm (inp : str) (s : pstate) : Prop := at_q inp s Normal.

Lemma snorm_synced inp s : snorm inp s -> synced inp s.
Proof. intros H. exists Normal. split; [exact H|exact I]. Qed.

Lemma at_q_consume inp s s' q bs :
  at_q inp s q -> rest s = bs ++ rest s' -> at_q inp s' (lexq q bs).
Proof.
  intros [pre [I Q]] R. exists (pre ++ bs). split.
  - rewrite I, R, app_assoc. reflexivity.
  - rewrite lexq_app, Q. reflexivity.
Qed.

Lemma at_q_fun inp s q1 q2 : at_q inp s q1 -> at_q inp s q2 -> q1 = q2.
Proof.
  intros [p1 [I1 Q1]] [p2 [I2 Q2]]. rewrite I1 in I2. apply app_inv_tail in I2. subst p2.
  congruence.
Qed.

(* ------------------------------------------------------ bytes of a rune -- *)

Lemma decode_high s0 t r n :
  decode_rune (s0 :: t) = (r, n) -> (s0 <? 128) = false ->
  forall b, In b (firstn n (s0 :: t)) -> 128 <= b.
Proof.
  unfold decode_rune, inr. intros H L. rewrite L in H. apply N.ltb_ge in L.
  repeat match type of H with
         | context [if ?b then _ else _] => destruct b eqn:?
         | context [match ?l with [] => _ | _ :: _ => _ end] => destruct l
         end; inversion H; subst; clear H; cbn [firstn In]; intros b Hb;
    repeat match goal with
           | H : (_ && _)%bool = true |- _ => apply andb_prop in H; destruct H
           | H : (_ <=? _) = true |- _ => apply N.leb_le in H
           | H : _ \/ _ |- _ => destruct H
           | H : False |- _ => destruct H
           end; subst; lia.
Qed.

Lemma at_end_false_rest s : at_end s = false -> exists b t, rest s = b :: t.
Proof. unfold at_end. destruct (rest s) as [|b t]; [discriminate|]. intros _. eauto. Qed.

Lemma at_end_true_rest s : at_end s = true -> rest s = [].
Proof. unfold at_end. destruct (rest s); [reflexivity|discriminate]. Qed.

Lemma cur_at_end s : at_end s = true -> cur s = 0.
Proof. intros H. unfold cur. rewrite (at_end_true_rest _ H). reflexivity. Qed.

(* the bytes [advance] steps over: the rune itself when it is ASCII, otherwise
   only bytes >= 128 *)
Lemma advance_split s : at_end s = false ->
  exists bs, rest s = bs ++ rest (advance s) /\
    (((cur s <? 128) = true /\ bs = [cur s]) \/
     ((cur s <? 128) = false /\ bs <> [] /\ forall b, In b bs -> 128 <= b)).
Proof.
  intros AE. destruct (at_end_false_rest _ AE) as [b [t R]].
  unfold advance, cur. rewrite R.
  destruct (decode_rune (b :: t)) as [r n] eqn:D. cbn [fst].
  exists (firstn n (b :: t)).
  assert (RS : forall l st, rest (if r =? 10
                  then {| pos := pos s + n; rest := skipn n (b :: t); line := l; lstart := pos s + n |}
                  else {| pos := pos s + n; rest := skipn n (b :: t); line := line s; lstart := st |})
               = skipn n (b :: t)) by (intros; destruct (r =? 10); reflexivity).
  rewrite RS. split; [symmetry; apply firstn_skipn|].
  destruct (r <? 128) eqn:L.
  - left. split; [reflexivity|]. apply N.ltb_lt in L.
    destruct (decode_rune_small _ _ _ D L) as [t' [E N1]]. inversion E; subst. reflexivity.
  - right. split; [reflexivity|].
    assert (L0 : (b <? 128) = false).
    { destruct (b <? 128) eqn:L0; [|reflexivity]. apply N.ltb_lt in L0.
      rewrite (decode_ascii b t L0) in D. inversion D; subst. apply N.ltb_lt in L0. congruence. }
    split.
    + pose proof (decode_size_pos (b :: t)) as P. rewrite D in P. simpl in P.
      destruct n; [exfalso; assert (1 <= 0)%nat by (apply P; discriminate); lia|discriminate].
    + eapply decode_high; eassumption.
Qed.

Definition step_rune (q : lexstate) (r : N) : lexstate :=
  if r <? 128 then lex_step q r else hi q.

Lemma at_q_advance inp s q :
  at_q inp s q -> at_end s = false -> at_q inp (advance s) (step_rune q (cur s)).
Proof.
  intros A AE. destruct (advance_split s AE) as [bs [R [[L E]|[L [NE Hb]]]]].
  - unfold step_rune. rewrite L. subst bs. exact (at_q_consume _ _ _ _ _ A R).
  - unfold step_rune. rewrite L. rewrite <- (lexq_plain bs q NE).
    + exact (at_q_consume _ _ _ _ _ A R).
    + intros b Hin. apply high_plain. apply Hb. exact Hin.
Qed.

Lemma advance_at_end s : at_end s = true -> advance s = s.
Proof. intros H. unfold advance. rewrite (at_end_true_rest _ H). reflexivity. Qed.

(* ------------------------------------------------------- plain advance -- *)

Definition special (r : N) : bool := mem_N r [34; 39; 45; 47].

Lemma special_false r : special r = false -> r <> 34 /\ r <> 39 /\ r <> 45 /\ r <> 47.
Proof.
  unfold special, mem_N. simpl. intros H.
  repeat (apply orb_false_elim in H; destruct H as [? H]).
  repeat match goal with E : (_ =? _) = false |- _ => apply N.eqb_neq in E end. auto.
Qed.

Ltac good_cases q G :=
  destruct q; cbn [good] in G; unfold peekChar in G;
  repeat match goal with
         | AE : at_end ?s = false, G : context [at_end ?s] |- _ => rewrite AE in G; cbn [negb andb] in G
         end;
  try (exfalso; exact G); try discriminate.

Lemma advance_plain_norm inp s :
  synced inp s -> at_end s = false -> special (cur s) = false -> snorm inp (advance s).
Proof.
  intros [q [A G]] AE SP. apply special_false in SP. destruct SP as [? [? [? ?]]].
  pose proof (at_q_advance _ _ _ A AE) as A'. unfold snorm.
  replace Normal with (step_rune q (cur s)); [exact A'|].
  unfold step_rune. good_cases q G.
  - destruct (cur s <? 128); [|reflexivity]. unfold lex_step. eqb_cases; reflexivity.
  - destruct (cur s <? 128); [|reflexivity]. unfold lex_step. eqb_cases; reflexivity.
  - apply N.eqb_neq in G. destruct (cur s <? 128); [|reflexivity]. unfold lex_step. eqb_cases; reflexivity.
  - destruct G as [G|G]; [discriminate|]. rewrite G. reflexivity.
Qed.

Lemma advance_plain_sync inp s :
  synced inp s -> special (cur s) = false -> synced inp (advance s).
Proof.
  intros S SP. destruct (at_end s) eqn:AE.
  - rewrite advance_at_end by exact AE. exact S.
  - apply snorm_synced. apply advance_plain_norm; assumption.
Qed.

(* ------------------------------------------------------------- skipChar -- *)

Lemma skipChar_true c s s' : skipChar c s = (s', true) -> at_end s = false /\ cur s = c /\ s' = advance s.
Proof.
  unfold skipChar. destruct (negb (at_end s) && (cur s =? c))%bool eqn:B; intros H; inversion H; subst.
  apply andb_prop in B. destruct B as [B1 B2]. apply negb_true_iff in B1. apply N.eqb_eq in B2. auto.
Qed.

Lemma skipChar_false' c s s' : skipChar c s = (s', false) -> s' = s /\ peekChar c s = false.
Proof.
  unfold skipChar, peekChar. destruct (negb (at_end s) && (cur s =? c))%bool eqn:B; intros H; inversion H; subst.
  auto.
Qed.

Lemma skipChar_norm c inp s s' :
  special c = false -> synced inp s -> skipChar c s = (s', true) -> snorm inp s'.
Proof.
  intros SP S H. apply skipChar_true in H. destruct H as [AE [C E]]. subst s'.
  apply advance_plain_norm; [exact S|exact AE|rewrite C; exact SP].
Qed.

Lemma skipChar_sync c inp s s' b :
  special c = false -> synced inp s -> skipChar c s = (s', b) -> synced inp s'.
Proof.
  intros SP S H. destruct b.
  - apply snorm_synced. eapply skipChar_norm; eassumption.
  - apply skipChar_false in H. subst s'. exact S.
Qed.

(* -------------------------------------------------------- string literal -- *)

Definition inq (c : N) : lexstate := if c =? 39 then InS else InD.

Lemma step_rune_inq c r : (c = 34 \/ c = 39) -> r <> c -> step_rune (inq c) r = inq c.
Proof.
  intros [C|C] NE; subst c; unfold step_rune, inq; simpl;
    (destruct (r <? 128); [|reflexivity]); unfold lex_step; eqb_cases; reflexivity.
Qed.

Lemma step_rune_inq_close c : (c = 34 \/ c = 39) -> step_rune (inq c) c = Normal.
Proof. intros [C|C]; subst c; reflexivity. Qed.

Lemma step_rune_open c : (c = 34 \/ c = 39) -> step_rune Normal c = inq c.
Proof. intros [C|C]; subst c; reflexivity. Qed.

(* skipCharFind from inside a literal stops right after the closing quote; from
   outside, when the next rune is the quote, it steps over exactly that rune *)
Lemma skipCharFind_loop_lex inp c (Hc : c = 34 \/ c = 39) fuel : forall s s',
  skipCharFind_loop fuel c s = Some (Some s') ->
  (at_q inp s (inq c) -> at_q inp s' Normal) /\
  (at_q inp s Normal -> peekChar c s = true -> at_q inp s' (inq c)).
Proof.
  induction fuel as [|f IH]; intros s s' H; simpl in H; [discriminate|].
  destruct (at_end s) eqn:AE; [discriminate|].
  destruct (cur s =? c) eqn:C.
  - inversion H; subst. apply N.eqb_eq in C. split.
    + intros A. pose proof (at_q_advance _ _ _ A AE) as A'. rewrite C, step_rune_inq_close in A'; assumption.
    + intros A _. pose proof (at_q_advance _ _ _ A AE) as A'. rewrite C, step_rune_open in A'; assumption.
  - apply N.eqb_neq in C. destruct (IH _ _ H) as [IH1 _]. split.
    + intros A. apply IH1. pose proof (at_q_advance _ _ _ A AE) as A'.
      rewrite step_rune_inq in A'; assumption.
    + intros _ P. unfold peekChar in P. rewrite AE in P. simpl in P. apply N.eqb_eq in P. congruence.
Qed.

Lemma skipCharFind_lex inp c (Hc : c = 34 \/ c = 39) s s' u :
  skipCharFind c s = (s', Ok u) ->
  (at_q inp s (inq c) -> at_q inp s' Normal) /\
  (at_q inp s Normal -> peekChar c s = true -> at_q inp s' (inq c)).
Proof.
  unfold skipCharFind. destruct (skipCharFind_loop (fuel_of s) c s) as [[s1|]|] eqn:E; intros H; inversion H; subst.
  eapply skipCharFind_loop_lex; eassumption.
Qed.

Lemma strlit_loop_lex inp c (Hc : c = 34 \/ c = 39) fuel : forall m s s',
  strlit_loop fuel c m s = Some (Some s') ->
  (if m then at_q inp s (inq c) else at_q inp s Normal /\ peekChar c s = true) ->
  snorm inp s'.
Proof.
  induction fuel as [|f IH]; intros m s s' H I; simpl in H; [discriminate|].
  destruct (skipCharFind c s) as [s1 [u| |e]] eqn:E; try discriminate.
  destruct (skipCharFind_lex inp c Hc _ _ _ E) as [F1 F2].
  destruct m.
  - specialize (F1 I). simpl in H. destruct (peekChar c s1) eqn:P; simpl in H.
    + eapply IH; [exact H|]. simpl. auto.
    + inversion H; subst. exact F1.
  - destruct I as [I P]. specialize (F2 I P). simpl in H. eapply IH; [exact H|]. exact F2.
Qed.

(* entering a literal from a top-level point *)
Lemma open_quote inp s c :
  (c = 34 \/ c = 39) -> synced inp s -> at_end s = false -> cur s = c -> at_q inp (advance s) (inq c).
Proof.
  intros Hc [q [A G]] AE C. pose proof (at_q_advance _ _ _ A AE) as A'. rewrite C in A'.
  replace (inq c) with (step_rune q c); [exact A'|].
  assert (C10 : c <> 10) by (destruct Hc; lia).
  good_cases q G; try (destruct Hc as [Hc|Hc]; rewrite Hc; reflexivity).
  destruct G as [G|G]; [discriminate|]. congruence.
Qed.

Class SyncFn {A} (f : pstate -> pstate * A) : Prop :=
  sync_prf : forall inp s s' r, synced inp s -> f s = (s', r) -> synced inp s'.
Class NormFn {A} (f : pstate -> pstate * res A) : Prop :=
  norm_prf : forall inp s s' v, synced inp s -> f s = (s', Ok v) -> snorm inp s'.
Class RestoreFn {A} (f : pstate -> pstate * res A) : Prop :=
  restore_prf : forall s s', f s = (s', No) -> s' = s.

#[export] Instance skipStringLiteral_norm : NormFn skipStringLiteral.
Proof.
  intros inp s s' v S H. unfold skipStringLiteral in H.
  destruct (skipChar ch_dquote s) as [s1 ok1] eqn:E1. destruct ok1.
  - apply skipChar_true in E1. destruct E1 as [AE [C E1]]. subst s1.
    destruct (strlit_loop (fuel_of (advance s)) (cur s) true (advance s)) as [[s3|]|] eqn:L;
      inversion H; subst.
    eapply (strlit_loop_lex inp (cur s)); [left; exact C|exact L|].
    apply open_quote; auto.
  - apply skipChar_false in E1. subst s1.
    destruct (skipChar ch_squote s) as [s2 ok2] eqn:E2. destruct ok2; [|discriminate].
    apply skipChar_true in E2. destruct E2 as [AE [C E2]]. subst s2.
    destruct (strlit_loop (fuel_of (advance s)) (cur s) true (advance s)) as [[s3|]|] eqn:L;
      inversion H; subst.
    eapply (strlit_loop_lex inp (cur s)); [right; exact C|exact L|].
    apply open_quote; auto.
Qed.

(* No: not at a quote, state unchanged.  Err: state restored or EFuel *)
Lemma skipStringLiteral_no s s' :
  skipStringLiteral s = (s', No) -> s' = s /\ peekChar 34 s = false /\ peekChar 39 s = false.
Proof.
  intros H. unfold skipStringLiteral in H.
  destruct (skipChar ch_dquote s) as [s1 ok1] eqn:E1. destruct ok1.
  - destruct (strlit_loop (fuel_of s1) (cur s) true s1) as [[s3|]|]; discriminate.
  - apply skipChar_false' in E1. destruct E1 as [E1 P1]. subst s1.
    destruct (skipChar ch_squote s) as [s2 ok2] eqn:E2. destruct ok2.
    + destruct (strlit_loop (fuel_of s2) (cur s) true s2) as [[s3|]|]; discriminate.
    + apply skipChar_false' in E2. destruct E2 as [E2 P2]. subst s2. inversion H; subst. auto.
Qed.

#[export] Instance skipStringLiteral_restore : RestoreFn skipStringLiteral.
Proof. intros s s' H. apply skipStringLiteral_no in H. tauto. Qed.

#[export] Instance skipStringLiteral_sync : SyncFn skipStringLiteral.
Proof.
  intros inp s s' r S H. destruct r as [u| |e].
  - apply snorm_synced. eapply (norm_prf (f:=skipStringLiteral)); eassumption.
  - apply skipStringLiteral_no in H. destruct H as [H _]. subst s'. exact S.
  - unfold skipStringLiteral in H.
    destruct (skipChar ch_dquote s) as [s1 ok1] eqn:E1.
    assert (X : forall s2, (let '(st2, ok) := (s2, true) in
               if ok then match strlit_loop (fuel_of st2) (cur s) true st2 with
                          | None => (st2, Err (efuel st2))
                          | Some (Some st3) => (st3, Ok tt)
                          | Some None => (s, Err (errorAt EMissingQuote [] (line s) (colNum s)))
                          end else (st2, @No unit)) = (s', Err e) -> s' = s \/ False).
    { intros s2 X. cbv beta iota zeta in X.
      destruct (strlit_loop (fuel_of s2) (cur s) true s2) as [[s3|]|] eqn:L; inversion X; subst; auto.
      right. eapply strlit_loop_fuel; [|exact L]. unfold fuel_of. lia. }
    destruct ok1.
    + destruct (X _ H) as [->|[]]. exact S.
    + destruct (skipChar ch_squote s1) as [s2 ok2] eqn:E2. destruct ok2; [|discriminate].
      destruct (X _ H) as [->|[]]. exact S.
Qed.

(* --------------------------------------------------------------- comment -- *)

Lemma peekChar_true c s : peekChar c s = true -> at_end s = false /\ cur s = c.
Proof.
  unfold peekChar. intros H. apply andb_prop in H. destruct H as [H1 H2].
  apply negb_true_iff in H1. apply N.eqb_eq in H2. auto.
Qed.

Lemma peekChar_intro c s : at_end s = false -> cur s = c -> peekChar c s = true.
Proof. intros AE C. unfold peekChar. rewrite AE, C, N.eqb_refl. reflexivity. Qed.

Lemma peekChar_neq c d s : peekChar c s = true -> c <> d -> peekChar d s = false.
Proof.
  intros H NE. apply peekChar_true in H. destruct H as [AE C]. unfold peekChar.
  rewrite AE, C. simpl. apply N.eqb_neq. exact NE.
Qed.

(* the shape of skipComment *)
Lemma skipComment_cases s s' r : skipComment s = (s', r) ->
  (r = No /\ s' = s /\
   (peekChar 45 s = true -> peekChar 45 (advance s) = false) /\
   (peekChar 47 s = true -> peekChar 42 (advance s) = false)) \/
  (r = Ok tt /\ peekChar 45 s = true /\ peekChar 45 (advance s) = true /\
   comment_loop (fuel_of (advance (advance s))) ch_nl (advance (advance s)) = Some s') \/
  (r = Ok tt /\ peekChar 47 s = true /\ peekChar 42 (advance s) = true /\
   comment_loop (fuel_of (advance (advance s))) ch_star (advance (advance s)) = Some s').
Proof.
  unfold skipComment. intros H.
  destruct (skipChar ch_minus s) as [s1 ok1] eqn:E1. destruct ok1.
  - apply skipChar_true in E1. destruct E1 as [AE [C E1]]. subst s1.
    rewrite C in H. simpl (ch_minus =? ch_minus) in H. simpl (ch_minus =? ch_slash) in H.
    cbv beta iota zeta in H.
    destruct (skipChar ch_minus (advance s)) as [s3 ok3] eqn:E3. destruct ok3.
    + apply skipChar_true in E3. destruct E3 as [AE3 [C3 E3]]. subst s3.
      destruct (comment_loop (fuel_of (advance (advance s))) ch_nl (advance (advance s))) as [s5|] eqn:L.
      * inversion H; subst. right. left.
        repeat split; auto using peekChar_intro.
      * exfalso. eapply comment_loop_fuel; [|exact L]. unfold fuel_of. lia.
    + cbv beta iota zeta in H. inversion H; subst.
      apply skipChar_false' in E3. destruct E3 as [_ P3]. left. repeat split; auto.
      intros P. apply peekChar_true in P. destruct P as [_ P]. rewrite C in P. discriminate.
  - apply skipChar_false' in E1. destruct E1 as [E1 P1]. subst s1.
    destruct (skipChar ch_slash s) as [s2 ok2] eqn:E2. destruct ok2.
    + apply skipChar_true in E2. destruct E2 as [AE [C E2]]. subst s2.
      rewrite C in H. simpl (ch_slash =? ch_minus) in H. simpl (ch_slash =? ch_slash) in H.
      cbv beta iota zeta in H.
      destruct (skipChar ch_star (advance s)) as [s4 ok4] eqn:E4. destruct ok4.
      * apply skipChar_true in E4. destruct E4 as [AE4 [C4 E4]]. subst s4.
        cbv beta iota zeta in H.
        destruct (comment_loop (fuel_of (advance (advance s))) ch_star (advance (advance s))) as [s5|] eqn:L.
        -- inversion H; subst. right. right. repeat split; auto using peekChar_intro.
        -- exfalso. eapply comment_loop_fuel; [|exact L]. unfold fuel_of. lia.
      * inversion H; subst. apply skipChar_false' in E4. destruct E4 as [_ P4]. left.
        unfold ch_minus, ch_slash, ch_star in *. repeat split; auto. intros P. congruence.
    + apply skipChar_false' in E2. destruct E2 as [E2 P2]. subst s2. inversion H; subst. left.
      unfold ch_minus, ch_slash, ch_star in *. repeat split; auto; intros P; congruence.
Qed.

#[export] Instance skipComment_restore : RestoreFn skipComment.
Proof.
  intros s s' H. apply skipComment_cases in H.
  destruct H as [[_ [H _]]|[[H _]|[H _]]]; [exact H|discriminate|discriminate].
Qed.

Lemma comment_loop_line inp fuel : forall s s',
  comment_loop fuel ch_nl s = Some s' -> at_q inp s InLine ->
  at_q inp s' InLine /\ (at_end s' = true \/ cur s' = 10).
Proof.
  induction fuel as [|f IH]; intros s s' H A; simpl in H; [discriminate|].
  destruct (at_end s) eqn:AE; [inversion H; subst; auto|].
  destruct (cur s =? ch_nl) eqn:C.
  - change (ch_nl =? ch_star) with false in H. cbv iota in H. inversion H; subst.
    apply N.eqb_eq in C. auto.
  - apply N.eqb_neq in C. apply (IH _ _ H).
    pose proof (at_q_advance _ _ _ A AE) as A'.
    replace (step_rune InLine (cur s)) with InLine in A'; [exact A'|].
    unfold step_rune. destruct (cur s <? 128); [|reflexivity]. unfold lex_step, ch_nl in *. eqb_cases; reflexivity.
Qed.

Lemma comment_loop_block inp fuel : forall s s',
  comment_loop fuel ch_star s = Some s' ->
  (at_q inp s InBlock \/ (at_q inp s InBlockStar /\ peekChar 47 s = false)) ->
  snorm inp s' \/ (at_end s' = true /\ (at_q inp s' InBlock \/ at_q inp s' InBlockStar)).
Proof.
  induction fuel as [|f IH]; intros s s' H A; simpl in H; [discriminate|].
  destruct (at_end s) eqn:AE.
  { inversion H; subst. right. split; [exact AE|]. tauto. }
  assert (A1 : forall q, at_q inp s q -> at_q inp (advance s) (step_rune q (cur s)))
    by (intros q Aq; apply at_q_advance; assumption).
  destruct (cur s =? ch_star) eqn:C.
  - change (ch_star =? ch_star) with true in H. cbv iota in H. apply N.eqb_eq in C.
    assert (AS : at_q inp (advance s) InBlockStar).
    { destruct A as [A|[A _]]; apply A1 in A; rewrite C in A; exact A. }
    destruct (skipChar ch_slash (advance s)) as [s2 ok] eqn:E. destruct ok.
    + inversion H; subst. apply skipChar_true in E. destruct E as [AE2 [C2 E]]. subst s'.
      left. pose proof (at_q_advance _ _ _ AS AE2) as A'. rewrite C2 in A'. exact A'.
    + apply skipChar_false' in E. destruct E as [E P]. subst s2.
      apply (IH _ _ H). right. auto.
  - apply N.eqb_neq in C. apply (IH _ _ H). left.
    destruct A as [A|[A P]]; apply A1 in A.
    + replace (step_rune InBlock (cur s)) with InBlock in A; [exact A|].
      unfold step_rune. destruct (cur s <? 128); [|reflexivity]. unfold lex_step, ch_star in *. eqb_cases; reflexivity.
    + unfold peekChar in P. rewrite AE in P. simpl in P. apply N.eqb_neq in P.
      replace (step_rune InBlockStar (cur s)) with InBlock in A; [exact A|].
      unfold step_rune. destruct (cur s <? 128); [|reflexivity]. unfold lex_step, ch_star in *. eqb_cases; reflexivity.
Qed.

#[export] Instance skipComment_sync : SyncFn skipComment.
Proof.
  intros inp s s' r S H. apply skipComment_cases in H.
  destruct H as [[_ [H _]]|[[_ [P1 [P2 L]]]|[_ [P1 [P2 L]]]]].
  - subst s'. exact S.
  - apply peekChar_true in P1. destruct P1 as [AE1 C1].
    apply peekChar_true in P2. destruct P2 as [AE2 C2].
    destruct S as [q [A G]].
    pose proof (at_q_advance _ _ _ A AE1) as A1. rewrite C1 in A1.
    pose proof (at_q_advance _ _ _ A1 AE2) as A2. rewrite C2 in A2.
    assert (Q : step_rune (step_rune q 45) 45 = InLine).
    { good_cases q G; reflexivity. }
    rewrite Q in A2. destruct (comment_loop_line inp _ _ _ L A2) as [A3 E3].
    exists InLine. split; [exact A3|exact E3].
  - apply peekChar_true in P1. destruct P1 as [AE1 C1].
    apply peekChar_true in P2. destruct P2 as [AE2 C2].
    destruct S as [q [A G]].
    pose proof (at_q_advance _ _ _ A AE1) as A1. rewrite C1 in A1.
    pose proof (at_q_advance _ _ _ A1 AE2) as A2. rewrite C2 in A2.
    assert (Q : step_rune (step_rune q 47) 42 = InBlock).
    { good_cases q G; try reflexivity.
      destruct G as [G|G]; [discriminate|]. rewrite C1 in G. discriminate. }
    rewrite Q in A2.
    destruct (comment_loop_block inp _ _ _ L (or_introl A2)) as [N|[AE3 [A3|A3]]].
    + apply snorm_synced. exact N.
    + exists InBlock. split; [exact A3|exact AE3].
    + exists InBlockStar. split; [exact A3|exact AE3].
Qed.

(* ------------------------------------------- a rune that is not special -- *)

(* stepping over a rune after skipStringLiteral and skipComment both said No *)
Lemma advance_other inp s s1 s2 :
  synced inp s -> skipStringLiteral s = (s1, No) -> skipComment s = (s2, No) -> synced inp (advance s).
Proof.
  intros S HL HC. destruct (at_end s) eqn:AE; [rewrite advance_at_end by exact AE; exact S|].
  apply skipStringLiteral_no in HL. destruct HL as [_ [P34 P39]].
  apply skipComment_cases in HC.
  destruct HC as [[_ [_ [M1 M2]]]|[[HC _]|[HC _]]]; [|discriminate|discriminate].
  unfold peekChar in P34, P39. rewrite AE in P34, P39. simpl in P34, P39.
  apply N.eqb_neq in P34. apply N.eqb_neq in P39.
  destruct (N.eq_dec (cur s) 45) as [C|C45].
  - specialize (M1 (peekChar_intro _ _ AE C)).
    destruct S as [q [A G]]. pose proof (at_q_advance _ _ _ A AE) as A'. rewrite C in A'.
    exists SeenMinus. split; [|exact M1].
    replace SeenMinus with (step_rune q 45); [exact A'|].
    good_cases q G; try reflexivity.
    + rewrite C in G. discriminate.
    + destruct G as [G|G]; [discriminate|]. rewrite C in G. discriminate.
  - destruct (N.eq_dec (cur s) 47) as [C|C47].
    + specialize (M2 (peekChar_intro _ _ AE C)).
      destruct S as [q [A G]]. pose proof (at_q_advance _ _ _ A AE) as A'. rewrite C in A'.
      exists SeenSlash. split; [|exact M2].
      replace SeenSlash with (step_rune q 47); [exact A'|].
      good_cases q G; try reflexivity.
      destruct G as [G|G]; [discriminate|]. rewrite C in G. discriminate.
    + apply advance_plain_sync; [exact S|].
      unfold special, mem_N. simpl.
      repeat match goal with |- context [cur s =? ?k] => destruct (N.eqb_spec (cur s) k); [congruence|] end.
      reflexivity.
Qed.

Lemma mem_not_special c l :
  forallb (fun x => negb (special x)) l = true -> mem_N c l = true -> special c = false.
Proof.
  intros F M. unfold mem_N in M. apply existsb_exists in M. destruct M as [x [I E]].
  apply N.eqb_eq in E. subst x. rewrite forallb_forall in F. apply F in I.
  apply negb_true_iff in I. exact I.
Qed.

Lemma blank_not_special c : is_blank c = true -> special c = false.
Proof. apply mem_not_special. reflexivity. Qed.

Lemma trigger_not_special c : is_trigger c = true -> special c = false.
Proof. apply mem_not_special. reflexivity. Qed.

Lemma special_elim (P : N -> Prop) r :
  special r = true -> P 34 -> P 39 -> P 45 -> P 47 -> P r.
Proof.
  unfold special, mem_N. simpl. intros H.
  repeat (apply orb_prop in H; destruct H as [H|H]); try discriminate;
    apply N.eqb_eq in H; subst; auto.
Qed.

Lemma namechar_not_special c : isNameChar c = true -> special c = false.
Proof.
  intros H. destruct (special c) eqn:S; [|reflexivity].
  revert H. pattern c. apply special_elim; [exact S|..]; vm_compute; discriminate.
Qed.

Lemma initial_namechar c : isInitialNameChar c = true -> isNameChar c = true.
Proof.
  unfold isInitialNameChar, isNameChar. intros H. apply orb_prop in H.
  destruct H as [H|H]; rewrite H; [reflexivity|]. rewrite orb_true_r. reflexivity.
Qed.

Lemma initial_namechar_not_end s : isInitialNameChar (cur s) = true -> at_end s = false.
Proof.
  intros H. destruct (at_end s) eqn:AE; [|reflexivity].
  rewrite (cur_at_end _ AE) in H. vm_compute in H. discriminate.
Qed.

Create HintDb lexdb.
#[export] Hint Resolve snorm_synced advance_plain_sync advance_plain_norm blank_not_special
  trigger_not_special namechar_not_special initial_namechar initial_namechar_not_end : lexdb.
#[export] Hint Extern 2 (synced _ (advance _)) => (eapply advance_other; eassumption) : lexdb.

(* ------------------------------------------------------- proof machinery -- *)

Lemma skipString_split kw : forall r,
  prefix_fold kw r = true ->
  exists bs, r = bs ++ skipn (length kw) r /\ length bs = length kw /\
             forall b, In b bs -> exists k, In k kw /\ lower k = lower b.
Proof.
  induction kw as [|k kw IH]; intros r P.
  - exists []. simpl. repeat split. intros b [].
  - destruct r as [|x r]; simpl in P; [discriminate|].
    apply andb_prop in P. destruct P as [E P]. apply N.eqb_eq in E.
    destruct (IH _ P) as [bs [R [L F]]]. exists (x :: bs). simpl. repeat split.
    + rewrite <- R. reflexivity.
    + rewrite L. reflexivity.
    + intros b [B|B].
      * subst b. exists k. auto.
      * destruct (F _ B) as [k' [I' E']]. exists k'. auto.
Qed.

Definition upper_kw (kw : str) : bool := forallb (fun k => (65 <=? k) && (k <=? 90))%bool kw.

Lemma lower_upper_plain k b : 65 <= k <= 90 -> lower k = lower b -> plainb b = true.
Proof.
  intros K E. unfold lower in E.
  assert (K' : ((65 <=? k) && (k <=? 90))%bool = true).
  { apply andb_true_intro. split; apply N.leb_le; lia. }
  rewrite K' in E.
  assert (65 <= b).
  { destruct ((65 <=? b) && (b <=? 90))%bool eqn:B.
    - apply andb_prop in B. destruct B as [B _]. apply N.leb_le in B. exact B.
    - lia. }
  unfold plainb, mem_N. simpl. apply negb_true_iff.
  repeat match goal with |- context [b =? ?k] => destruct (N.eqb_spec b k); [lia|] end. reflexivity.
Qed.

Lemma consume_plain inp s s' bs :
  synced inp s -> rest s = bs ++ rest s' -> bs <> [] -> (forall b, In b bs -> plainb b = true) ->
  snorm inp s'.
Proof.
  intros [q [A G]] R NE P. pose proof (at_q_consume _ _ _ _ _ A R) as A'.
  rewrite (lexq_plain bs q NE P) in A'. unfold snorm.
  replace Normal with (hi q); [exact A'|].
  destruct bs as [|b t]; [congruence|].
  assert (AE : at_end s = false) by (unfold at_end; rewrite R; reflexivity).
  assert (Pb : plainb b = true) by (apply P; left; reflexivity).
  assert (C10 : b = 10 -> False) by (intros ->; discriminate Pb).
  assert (Cb : (b <? 128) = true -> cur s = b).
  { intros L. unfold cur. rewrite R. simpl app. apply N.ltb_lt in L. rewrite (decode_ascii b _ L). reflexivity. }
  assert (Ch : (b <? 128) = false -> cur s <> 10).
  { intros L E. destruct (advance_split s AE) as [bs' [R' [[L' E']|[L' _]]]].
    - rewrite E in E'. subst bs'. rewrite R in R'. simpl in R'. inversion R'; subst. discriminate L.
    - rewrite E in L'. discriminate L'. }
  good_cases q G; try reflexivity.
  destruct G as [G|G]; [discriminate|]. exfalso.
  destruct (b <? 128) eqn:L.
  + apply C10. rewrite <- Cb by reflexivity. exact G.
  + apply Ch; [reflexivity|exact G].
Qed.

Lemma skipString_sync kw inp s s' b :
  upper_kw kw = true -> synced inp s -> skipString kw s = (s', b) -> synced inp s'.
Proof.
  intros U S H. unfold skipString in H. destruct (prefix_fold kw (rest s)) eqn:P; inversion H; subst; [|exact S].
  destruct kw as [|k0 kw0]; [destruct S as [q [[pre [I Q]] G]]|].
  - (* empty keyword: nothing consumed *)
    exists q. split.
    + exists pre. simpl. auto.
    + destruct q; simpl in *; auto.
  - apply snorm_synced.
    destruct (skipString_split _ _ P) as [bs [R [L F]]].
    eapply consume_plain; [exact S|simpl rest; exact R| |].
    + destruct bs; [discriminate L|discriminate].
    + intros b Hb. destruct (F _ Hb) as [k [Ik Ek]].
      unfold upper_kw in U. rewrite forallb_forall in U. apply U in Ik.
      apply andb_prop in Ik. destruct Ik as [K1 K2]. apply N.leb_le in K1. apply N.leb_le in K2.
      eapply lower_upper_plain; [|exact Ek]. lia.
Qed.

Ltac lex_solve := eauto 4 with lexdb.

Ltac lex_record inp :=
  fix_negb;
  repeat match goal with
         | E : skipChar _ ?s = (?s1, false) |- _ => apply skipChar_false in E; subst s1
         end;
  repeat match goal with
         | E : ?g ?s = (?s1, No) |- _ =>
             tryif constr_eq s s1 then fail else
               (let inst := constr:(_ : RestoreFn g) in
                let Q := fresh "Q" in
                pose proof (@restore_prf _ g inst _ _ E) as Q; subst s1)
         end;
  repeat match goal with
         | E : skipChar ?c ?s = (?s1, true) |- _ =>
             lazymatch goal with
             | _ : snorm inp s1 |- _ => fail
             | _ => assert (snorm inp s1)
                      by (eapply (skipChar_norm c); [reflexivity| |exact E]; lex_solve)
             end
         | E : skipString ?kw ?s = (?s1, _) |- _ =>
             lazymatch goal with
             | _ : synced inp s1 |- _ => fail
             | _ => assert (synced inp s1)
                      by (eapply (skipString_sync kw); [reflexivity| |exact E]; lex_solve)
             end
         | E : ?g ?s = (?s1, Ok _) |- _ =>
             lazymatch goal with
             | _ : snorm inp s1 |- _ => fail
             | _ => let inst := constr:(_ : NormFn g) in
                    assert (snorm inp s1)
                      by (eapply (@norm_prf _ g inst); [|exact E]; lex_solve)
             end
         | E : ?g ?s = (?s1, _) |- _ =>
             lazymatch goal with
             | _ : synced inp s1 |- _ => fail
             | _ : snorm inp s1 |- _ => fail
             | _ => let inst := constr:(_ : SyncFn g) in
                    assert (synced inp s1)
                      by (eapply (@sync_prf _ g inst); [|exact E]; lex_solve)
             end
         end.

Ltac lex_go inp H :=
  norm_in H;
  repeat (lex_record inp; destruct_scrut H); try discriminate;
  try inv_pair; lex_record inp; lex_solve.

(* ---------------------------------------------------------- the scanner -- *)

#[export] Instance skipBlanks_loop_sync fuel : SyncFn (skipBlanks_loop fuel).
Proof.
  induction fuel as [|f IH]; intros inp s s' r S H; simpl in H.
  - inversion H; subst; assumption.
  - lex_go inp H. all: try (eapply IH; [|exact H]; lex_solve).
Qed.

#[export] Instance skipBlanks_sync : SyncFn skipBlanks.
Proof. unfold skipBlanks. intros inp s s' r S H. eapply skipBlanks_loop_sync; eauto. Qed.

#[export] Instance parens_loop_sync fuel n : SyncFn (parens_loop fuel n).
Proof.
  revert n. induction fuel as [|f IH]; intros n inp s s' r S H; simpl in H.
  - inversion H; subst; assumption.
  - lex_go inp H. all: try (eapply IH; [|exact H]; lex_solve).
Qed.

Lemma parens_loop_norm inp fuel : forall n s s',
  parens_loop fuel n s = (s', Ok O) -> synced inp s -> (n = O -> snorm inp s) -> snorm inp s'.
Proof.
  induction fuel as [|f IH]; intros n s s' H S N0; simpl in H; [discriminate|].
  lex_go inp H.
  all: try (eapply IH; [exact H|lex_solve|]; try discriminate; intros; lex_solve).
Qed.

#[export] Instance skipEnclosedParentheses_restore : RestoreFn skipEnclosedParentheses.
Proof.
  intros s s' H. unfold skipEnclosedParentheses in H. walk H; inv_pair; fix_negb;
    try reflexivity.
  match goal with E : skipChar _ _ = (_, false) |- _ => apply skipChar_false in E; exact E end.
Qed.

#[export] Instance skipEnclosedParentheses_sync : SyncFn skipEnclosedParentheses.
Proof. intros inp s s' r S H. unfold skipEnclosedParentheses in H. lex_go inp H. Qed.

#[export] Instance skipEnclosedParentheses_norm : NormFn skipEnclosedParentheses.
Proof.
  intros inp s s' v S H. unfold skipEnclosedParentheses in H. lex_go inp H.
  eapply parens_loop_norm; [eassumption|lex_solve|discriminate].
Qed.

#[export] Instance litlist_loop_sync fuel : SyncFn (litlist_loop fuel).
Proof.
  induction fuel as [|f IH]; intros inp s s' r S H; simpl in H.
  - inversion H; subst; assumption.
  - lex_go inp H. all: try (eapply IH; [|exact H]; lex_solve).
Qed.

#[export] Instance skipLiteralInList_sync : SyncFn skipLiteralInList.
Proof. unfold skipLiteralInList. intros inp s s' r S H. eapply litlist_loop_sync; eauto. Qed.

(* ---------------------------------------------------------------- names -- *)

Lemma namechars_loop_lex inp fuel : forall s s',
  namechars_loop fuel s = Some s' -> synced inp s -> synced inp s' /\ (s' = s \/ snorm inp s').
Proof.
  induction fuel as [|f IH]; intros s s' H S; simpl in H; [discriminate|].
  destruct (negb (at_end s) && isNameChar (cur s))%bool eqn:B.
  - apply andb_prop in B. destruct B as [B1 B2]. apply negb_true_iff in B1.
    assert (N1 : snorm inp (advance s)) by lex_solve.
    destruct (IH _ _ H (snorm_synced _ _ N1)) as [S' [E|N']].
    + subst s'. auto.
    + auto.
  - inversion H; subst. auto.
Qed.

Lemma namechars_loop_norm inp fuel s s' :
  namechars_loop fuel s = Some s' -> snorm inp s -> snorm inp s'.
Proof.
  intros H N. destruct (namechars_loop_lex inp _ _ _ H (snorm_synced _ _ N)) as [_ [E|N']].
  - subst s'. exact N.
  - exact N'.
Qed.

#[export] Instance parseIdentifier_sync : SyncFn parseIdentifier.
Proof.
  intros inp s s' r S H. unfold parseIdentifier in H. lex_go inp H.
  all: match goal with
       | E : namechars_loop _ _ = Some _ |- _ => apply (namechars_loop_lex inp) in E; [tauto|assumption]
       end.
Qed.

#[export] Instance parseIdentifier_norm : NormFn parseIdentifier.
Proof.
  intros inp s s' v S H. unfold parseIdentifier in H. lex_go inp H.
  match goal with
  | E : namechars_loop _ _ = Some _ |- _ =>
      apply (namechars_loop_lex inp) in E; [destruct E as [_ [E|E]]|assumption]
  end; [|assumption].
  subst. match goal with L : Nat.ltb _ _ = true |- _ => apply Nat.ltb_lt in L; lia end.
Qed.

#[export] Instance parseIdentifierAsterisk_sync : SyncFn parseIdentifierAsterisk.
Proof. intros inp s s' r S H. unfold parseIdentifierAsterisk in H. lex_go inp H. Qed.

#[export] Instance parseIdentifierAsterisk_norm : NormFn parseIdentifierAsterisk.
Proof. intros inp s s' v S H. unfold parseIdentifierAsterisk in H. lex_go inp H. Qed.

#[export] Instance parseTypeName_sync : SyncFn parseTypeName.
Proof.
  intros inp s s' r S H. unfold parseTypeName in H. lex_go inp H.
  all: match goal with
       | E : namechars_loop _ _ = Some _ |- _ => apply (namechars_loop_lex inp) in E; [tauto|lex_solve]
       end.
Qed.

#[export] Instance parseTypeName_norm : NormFn parseTypeName.
Proof.
  intros inp s s' v S H. unfold parseTypeName in H. lex_go inp H.
  match goal with
  | E : namechars_loop _ _ = Some _ |- _ => apply (namechars_loop_norm inp) in E; [assumption|]
  end.
  apply advance_plain_norm; lex_solve.
Qed.

(* ----------------------------------------------------------- expressions -- *)

#[export] Instance parseColumnAccessor_sync : SyncFn parseColumnAccessor.
Proof. intros inp s s' r S H. unfold parseColumnAccessor in H. lex_go inp H. Qed.

#[export] Instance parseColumnAccessor_norm : NormFn parseColumnAccessor.
Proof. intros inp s s' v S H. unfold parseColumnAccessor in H. lex_go inp H. Qed.

#[export] Instance parseSliceAccessor_sync : SyncFn parseSliceAccessor.
Proof. intros inp s s' r S H. unfold parseSliceAccessor in H. lex_go inp H. Qed.

#[export] Instance parseSliceAccessor_norm : NormFn parseSliceAccessor.
Proof. intros inp s s' v S H. unfold parseSliceAccessor in H. lex_go inp H. Qed.

#[export] Instance parseTypeAndMember_sync : SyncFn parseTypeAndMember.
Proof. intros inp s s' r S H. unfold parseTypeAndMember in H. lex_go inp H. Qed.

#[export] Instance parseTypeAndMember_norm : NormFn parseTypeAndMember.
Proof. intros inp s s' v S H. unfold parseTypeAndMember in H. lex_go inp H. Qed.

#[export] Instance parseTargetType_sync : SyncFn parseTargetType.
Proof. intros inp s s' r S H. unfold parseTargetType in H. lex_go inp H. Qed.

#[export] Instance parseTargetType_norm : NormFn parseTargetType.
Proof. intros inp s s' v S H. unfold parseTargetType in H. lex_go inp H. Qed.

#[export] Instance parseInputMemberAccessor_sync : SyncFn parseInputMemberAccessor.
Proof. intros inp s s' r S H. unfold parseInputMemberAccessor in H. lex_go inp H. Qed.

#[export] Instance parseInputMemberAccessor_norm : NormFn parseInputMemberAccessor.
Proof. intros inp s s' v S H. unfold parseInputMemberAccessor in H. lex_go inp H. Qed.

Section ParseListLex.
  Context {T : Type} (parseFn : pstate -> pstate * res T).
  Context (parseFn_sync : SyncFn parseFn).

  Lemma parseList_loop_sync inp fuel : forall cp first acc s s' r,
    synced inp cp -> synced inp s -> parseList_loop parseFn fuel cp first acc s = (s', r) ->
    synced inp s'.
  Proof using parseFn_sync.
    induction fuel as [|f IH]; intros cp first acc s s' r Scp S H; simpl in H.
    - inversion H; subst; assumption.
    - lex_go inp H. all: try (refine (IH _ _ _ _ _ _ _ _ H); lex_solve).
  Qed.

  Lemma parseList_loop_norm inp fuel : forall cp first acc s s' v,
    synced inp s -> parseList_loop parseFn fuel cp first acc s = (s', Ok v) -> snorm inp s'.
  Proof using parseFn_sync.
    induction fuel as [|f IH]; intros cp first acc s s' v S H; simpl in H; [discriminate|].
    lex_go inp H. all: try (refine (IH _ _ _ _ _ _ _ H); lex_solve).
  Qed.

  #[export] Instance parseList_sync : SyncFn (parseList parseFn).
  Proof using parseFn_sync.
    intros inp s s' r S H. unfold parseList in H. lex_go inp H.
    all: try (refine (parseList_loop_sync _ _ _ _ _ _ _ _ _ _ H); lex_solve).
  Qed.

  #[export] Instance parseList_norm : NormFn (parseList parseFn).
  Proof using parseFn_sync.
    intros inp s s' v S H. unfold parseList in H. lex_go inp H.
    all: try (refine (parseList_loop_norm _ _ _ _ _ _ _ _ _ H); lex_solve).
  Qed.
End ParseListLex.

#[export] Instance parseColumns_sync : SyncFn parseColumns.
Proof. intros inp s s' r S H. unfold parseColumns, is_fuel_err in H. lex_go inp H. Qed.

#[export] Instance parseTargetTypes_sync : SyncFn parseTargetTypes.
Proof. intros inp s s' r S H. unfold parseTargetTypes in H. lex_go inp H. Qed.

#[export] Instance parseTargetTypes_norm : NormFn parseTargetTypes.
Proof. intros inp s s' v S H. unfold parseTargetTypes in H. lex_go inp H. Qed.

#[export] Instance parseOutputExpr_sync : SyncFn parseOutputExpr.
Proof. intros inp s s' r S H. unfold parseOutputExpr in H. lex_go inp H. Qed.

#[export] Instance parseOutputExpr_norm : NormFn parseOutputExpr.
Proof. intros inp s s' v S H. unfold parseOutputExpr in H. lex_go inp H. Qed.

#[export] Instance parseSliceInputExpr_sync : SyncFn parseSliceInputExpr.
Proof. intros inp s s' r S H. unfold parseSliceInputExpr in H. lex_go inp H. Qed.

#[export] Instance parseSliceInputExpr_norm : NormFn parseSliceInputExpr.
Proof. intros inp s s' v S H. unfold parseSliceInputExpr in H. lex_go inp H. Qed.

#[export] Instance parseMemberInputExpr_sync : SyncFn parseMemberInputExpr.
Proof. intros inp s s' r S H. unfold parseMemberInputExpr in H. lex_go inp H. Qed.

#[export] Instance parseMemberInputExpr_norm : NormFn parseMemberInputExpr.
Proof. intros inp s s' v S H. unfold parseMemberInputExpr in H. lex_go inp H. Qed.

#[export] Instance parseComplexInsertValues_sync : SyncFn parseComplexInsertValues.
Proof. intros inp s s' r S H. unfold parseComplexInsertValues, is_fuel_err in H. lex_go inp H. Qed.

#[export] Instance parseComplexInsertValues_norm : NormFn parseComplexInsertValues.
Proof. intros inp s s' v S H. unfold parseComplexInsertValues, is_fuel_err in H. lex_go inp H. Qed.

#[export] Instance parseAsteriskInsertExpr_sync : SyncFn parseAsteriskInsertExpr.
Proof. intros inp s s' r S H. unfold parseAsteriskInsertExpr in H. lex_go inp H. Qed.

#[export] Instance parseAsteriskInsertExpr_norm : NormFn parseAsteriskInsertExpr.
Proof. intros inp s s' v S H. unfold parseAsteriskInsertExpr in H. lex_go inp H. Qed.

Lemma basicvals_loop_sync inp fuel : forall cp ip acc s s' r,
  synced inp cp -> synced inp s -> basicvals_loop fuel cp ip acc s = (s', r) -> synced inp s'.
Proof.
  induction fuel as [|f IH]; intros cp ip acc s s' r Scp S H; simpl in H.
  - inversion H; subst; assumption.
  - lex_go inp H. all: try (refine (IH _ _ _ _ _ _ _ _ H); lex_solve).
Qed.

Lemma basicvals_loop_norm inp fuel : forall cp ip acc s s' v,
  synced inp s -> basicvals_loop fuel cp ip acc s = (s', Ok v) -> snorm inp s'.
Proof.
  induction fuel as [|f IH]; intros cp ip acc s s' v S H; simpl in H; [discriminate|].
  lex_go inp H. all: try (refine (IH _ _ _ _ _ _ _ H); lex_solve).
Qed.

#[export] Instance parseBasicInsertValues_sync : SyncFn parseBasicInsertValues.
Proof.
  intros inp s s' r S H. unfold parseBasicInsertValues, is_fuel_err in H. lex_go inp H.
  all: try (refine (basicvals_loop_sync _ _ _ _ _ _ _ _ _ _ H); lex_solve).
Qed.

#[export] Instance parseBasicInsertValues_norm : NormFn parseBasicInsertValues.
Proof.
  intros inp s s' v S H. unfold parseBasicInsertValues, is_fuel_err in H. lex_go inp H.
  all: try (refine (basicvals_loop_norm _ _ _ _ _ _ _ _ _ H); lex_solve).
Qed.

#[export] Instance parseInsertExpr_sync : SyncFn parseInsertExpr.
Proof. intros inp s s' r S H. unfold parseInsertExpr, is_fuel_err in H. lex_go inp H. Qed.

#[export] Instance parseInsertExpr_norm : NormFn parseInsertExpr.
Proof. intros inp s s' v S H. unfold parseInsertExpr, is_fuel_err in H. lex_go inp H. Qed.

#[export] Instance parseInputExpr_sync : SyncFn parseInputExpr.
Proof. intros inp s s' r S H. unfold parseInputExpr in H. lex_go inp H. Qed.

#[export] Instance parseInputExpr_norm : NormFn parseInputExpr.
Proof. intros inp s s' v S H. unfold parseInputExpr in H. lex_go inp H. Qed.

