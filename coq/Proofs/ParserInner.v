(* C02, second sentence: text inside an expression (a function-call column,
   a literal value of an INSERT) is a verbatim piece of the expression's
   source text, and it starts and ends outside literals and comments.

   Structure (same style as ParserExt.v / ParserLex.v):
   - [inner inp E st0 s' f]: f is the text between two states a, b reached
     between st0 and s'; at a the automaton of ParserLex.v is outside literals
     and comments ([nsync]); [E a b] says how the piece ends;
   - one lemma per function that builds columns or values
     (parseColumnAccessor, parseList, parseColumns, parseOutputExpr,
     basicvals_loop, parseBasicInsertValues, parseInsertExpr, parseInputExpr);
   - the main loop, for an arbitrary per-segment property ([parse_loop_Q]). *)
From SQLair.Base Require Import Bytes Utf8.
From SQLair.Model Require Import GenUnicode GenConsts Parser.
From SQLair.Proofs Require Import Utf8Facts ParserExt ParserTiling ParserFuel ParserLex ParserLexMain
  ParserSigil ParserNames ParserDepth.
Local Open Scope N_scope.

(* ------------------------------------------- outside literals/comments -- *)

(* the parser is at a top-level point and the automaton is outside literals
   and comments *)
Definition nsync (inp : str) (s : pstate) : Prop :=
  exists q, at_q inp s q /\ good q s /\ normal_like q = true.

Lemma nsync_synced inp s : nsync inp s -> synced inp s.
Proof. intros [q [A [G _]]]. exists q. auto. Qed.

Lemma snorm_nsync inp s : snorm inp s -> nsync inp s.
Proof. intros A. exists Normal. split; [exact A|]. split; [exact I|reflexivity]. Qed.

Lemma synced_nsync inp s : synced inp s -> at_end s = false -> cur s <> 10 -> nsync inp s.
Proof.
  intros [q [A G]] AE C. exists q. split; [exact A|]. split; [exact G|].
  eapply good_normal_like; eassumption.
Qed.

(* ------------------------------------------------ a piece of the source -- *)

Definition inner (inp : str) (E : pstate -> pstate -> Prop) (st0 s' : pstate) (f : str) : Prop :=
  exists a b, ext st0 a /\ ext a b /\ ext b s' /\ f = slice a b /\ nsync inp a /\ E a b.

Lemma inner_r inp E st0 s1 s2 f : inner inp E st0 s1 f -> ext s1 s2 -> inner inp E st0 s2 f.
Proof.
  intros [a [b [E1 [E2 [E3 R]]]]] X. exists a, b. split; [exact E1|]. split; [exact E2|].
  split; [eapply ext_trans; eassumption|exact R].
Qed.

Lemma inner_l inp E st0 st1 s' f : ext st0 st1 -> inner inp E st1 s' f -> inner inp E st0 s' f.
Proof.
  intros X [a [b [E1 R]]]. exists a, b. split; [eapply ext_trans; eassumption|exact R].
Qed.

(* a function call ends outside literals and comments, with ')' *)
Definition func_end (inp : str) (a b : pstate) : Prop :=
  snorm inp b /\ endsw a b 41 /\ forall qa, at_q inp a qa -> func_balanced qa (slice a b).

(* a literal value ends outside literals and comments, before ',' or ')' *)
Definition lit_end (inp : str) (a b : pstate) : Prop :=
  nsync inp b /\ at_end b = false /\ (cur b = 44 \/ cur b = 41) /\
  forall qa, at_q inp a qa -> exists q', drun true (Some (qa, O)) (slice a b) = Some (q', O).

Definition col_inner (inp : str) (st0 s' : pstate) (c : column) : Prop :=
  match c with FuncCol f => inner inp (func_end inp) st0 s' f | BasicCol _ _ => True end.

(* (the state s' lies strictly after the literal: its ',' or ')' was read) *)
Definition val_inner (inp : str) (st0 s' : pstate) (v : value) : Prop :=
  match v with
  | VLit s => exists a b, ext st0 a /\ ext a b /\ ext b s' /\ (pos b < pos s')%nat /\
                          s = slice a b /\ nsync inp a /\ lit_end inp a b
  | VMem _ => True
  end.

Lemma col_inner_r inp st0 s1 s2 c : col_inner inp st0 s1 c -> ext s1 s2 -> col_inner inp st0 s2 c.
Proof. destruct c; [auto|]. apply inner_r. Qed.

Lemma val_inner_r inp st0 s1 s2 v : val_inner inp st0 s1 v -> ext s1 s2 -> val_inner inp st0 s2 v.
Proof.
  destruct v; [auto|]. intros [a [b [E1 [E2 [E3 [L R]]]]]] X. exists a, b.
  split; [exact E1|]. split; [exact E2|]. split; [eapply ext_trans; eassumption|].
  split; [|exact R]. apply ext_pos in X. lia.
Qed.

Lemma Forall_mono {A} (P Q : A -> Prop) l : (forall x, P x -> Q x) -> Forall P l -> Forall Q l.
Proof. intros H F. eapply Forall_impl; [exact H|exact F]. Qed.

(* ----------------------------------------------------- proof machinery -- *)

(* walk through the body in H recording, for every call, that the state it
   returns extends the root st0 and the entry state s, and what is known about
   the automaton there *)
Ltac both_record st0 s inp := ext_record st0; ext_record s; lex_record inp.

Ltac both_go st0 s inp H :=
  norm_in H;
  repeat (both_record st0 s inp; destruct_scrut H); try discriminate;
  try inv_pair; both_record st0 s inp.

(* ----------------------------------------------------------- identifier -- *)

Lemma namechars_loop_first fuel s s' :
  namechars_loop fuel s = Some s' -> (pos s < pos s')%nat -> at_end s = false /\ isNameChar (cur s) = true.
Proof.
  destruct fuel as [|f]; cbn [namechars_loop]; [discriminate|].
  destruct (negb (at_end s) && isNameChar (cur s))%bool eqn:B.
  - intros _ _. apply andb_prop in B. destruct B as [B1 B2]. apply negb_true_iff in B1. auto.
  - intros H L. inversion H; subst. lia.
Qed.

(* an identifier starts outside literals and comments *)
Lemma parseIdentifier_nsync inp s s' id :
  synced inp s -> parseIdentifier s = (s', Ok id) -> nsync inp s.
Proof.
  intros S H. unfold parseIdentifier in H.
  destruct (skipStringLiteral s) as [s1 [u| |e]] eqn:E; [| |discriminate].
  - unfold skipStringLiteral in E.
    destruct (skipChar ch_dquote s) as [s2 ok1] eqn:E1. destruct ok1.
    + apply skipChar_true in E1. destruct E1 as [AE [C _]].
      apply synced_nsync; [exact S|exact AE|rewrite C; discriminate].
    + apply skipChar_false in E1. subst s2.
      destruct (skipChar ch_squote s) as [s3 ok2] eqn:E2. destruct ok2; [|discriminate].
      apply skipChar_true in E2. destruct E2 as [AE [C _]].
      apply synced_nsync; [exact S|exact AE|rewrite C; discriminate].
  - apply skipStringLiteral_no in E. destruct E as [E _]. subst s1.
    destruct (namechars_loop (fuel_of s) s) as [s2|] eqn:NL; [|discriminate].
    destruct (Nat.ltb (pos s) (pos s2)) eqn:Lt; [|discriminate]. apply Nat.ltb_lt in Lt.
    destruct (namechars_loop_first _ _ _ NL Lt) as [AE NC].
    apply synced_nsync; [exact S|exact AE|]. intros C. rewrite C in NC. vm_compute in NC. discriminate.
Qed.

(* ------------------------------------------------------ column accessor -- *)

Lemma parseColumnAccessor_inner inp st0 s s' c :
  ext st0 s -> synced inp s -> parseColumnAccessor s = (s', Ok c) -> col_inner inp st0 s' c.
Proof.
  intros E0 S H. pose proof H as H0. unfold parseColumnAccessor in H.
  both_go st0 s inp H; cbn [col_inner]; try exact I.
  match goal with
  | Ei : parseIdentifier s = (_, Ok _), Ep : skipEnclosedParentheses ?a = (?b, Ok _) |- _ =>
      exists s, b; split; [assumption|]; split; [assumption|]; split; [apply ext_refl|];
      split; [reflexivity|]; split; [eapply parseIdentifier_nsync; eassumption|]; split; [assumption|];
      split; [apply skipEnclosedParentheses_endsw in Ep; eapply endsw_l; [|exact Ep]; assumption|];
      intros qa Aq; eapply parseColumnAccessor_balanced; [exact S|exact Aq|exact H0]
  end.
Qed.

(* ------------------------------------------------------------ parseList -- *)

Section ParseListInner.
  Context {T : Type} (parseFn : pstate -> pstate * res T).
  Context (inp : str) (P : pstate -> pstate -> T -> Prop).
  Context (parseFn_ext : ExtFn parseFn) (parseFn_sync : SyncFn parseFn).
  Context (HP : forall st0 s s' v, ext st0 s -> synced inp s -> parseFn s = (s', Ok v) -> P st0 s' v).
  Context (P_r : forall st0 s1 s2 v, P st0 s1 v -> ext s1 s2 -> P st0 s2 v).

  Lemma parseList_loop_inner fuel : forall cp first acc st0 s s' v,
    ext st0 s -> synced inp s -> Forall (P st0 s) acc ->
    parseList_loop parseFn fuel cp first acc s = (s', Ok v) -> Forall (P st0 s') v.
  Proof using parseFn_ext parseFn_sync HP P_r.
    induction fuel as [|f IH]; intros cp first acc st0 s s' v E0 S F H; simpl in H; [discriminate|].
    assert (Step : forall a b obj s2, ext st0 a -> synced inp a -> parseFn a = (b, Ok obj) ->
              ext s s2 -> ext b s2 -> Forall (P st0 s2) (acc ++ [obj])).
    { intros a b obj s2 Xa Sa Ea X1 X2. apply Forall_app. split.
      - eapply Forall_mono; [|exact F]. intros x Px. eapply P_r; eassumption.
      - constructor; [|constructor]. eapply P_r; [eapply HP; eassumption|exact X2]. }
    both_go st0 s inp H.
    all: first
      [ match goal with
        | Ea : parseFn ?a = (?b, Ok ?obj) |- Forall _ (_ ++ [?obj]) =>
            ext_record b; eapply (Step a b obj); try eassumption; lex_solve
        end
      | match goal with
        | Ea : parseFn ?a = (?b, Ok ?obj), Ec : skipChar ch_comma _ = (?s5, true) |- _ =>
            ext_record b; eapply (IH _ _ _ st0 s5); [assumption|lex_solve| |exact H];
            eapply (Step a b obj); try eassumption; lex_solve
        end ].
  Qed.

  Lemma parseList_inner st0 s s' v :
    ext st0 s -> synced inp s -> parseList parseFn s = (s', Ok v) -> Forall (P st0 s') v.
  Proof using parseFn_ext parseFn_sync HP P_r.
    intros E0 S H. unfold parseList in H. both_go st0 s inp H.
    eapply parseList_loop_inner; [| | |exact H]; [assumption|lex_solve|constructor].
  Qed.
End ParseListInner.

Lemma parseColumns_inner inp st0 s s' cols par :
  ext st0 s -> synced inp s -> parseColumns s = (s', Ok (cols, par)) ->
  Forall (col_inner inp st0 s') cols.
Proof.
  intros E0 S H. unfold parseColumns, is_fuel_err in H.
  both_go st0 s inp H.
  all: try (constructor; [|constructor]; eapply parseColumnAccessor_inner; [| |eassumption]; [assumption|lex_solve]).
  all: match goal with
       | Ep : parseList parseColumnAccessor ?a = (_, Ok _) |- _ =>
           eapply (parseList_inner parseColumnAccessor inp (col_inner inp) _ _
                     (parseColumnAccessor_inner inp) (col_inner_r inp)); [| |exact Ep];
           [assumption|lex_solve]
       end.
Qed.

(* --------------------------------------------------------- expressions -- *)

(* the columns and literal values of an expression parsed between st and st' *)
Definition expr_inner (inp : str) (st st' : pstate) (e : expr) : Prop :=
  match e with
  | Output _ cols _ => Forall (col_inner inp st st') cols
  | ColumnsIns _ cols _ => Forall (col_inner inp st st') cols
  | BasicIns _ cols vals => Forall (col_inner inp st st') cols /\ Forall (val_inner inp st st') vals
  | _ => True
  end.

Lemma parseOutputExpr_inner inp s s' e :
  synced inp s -> parseOutputExpr s = (s', Ok e) -> expr_inner inp s s' e.
Proof.
  intros S H. unfold parseOutputExpr in H. pose proof (ext_refl s) as E0.
  both_go s s inp H; cbn [expr_inner]; try (apply Forall_nil).
  all: match goal with
  | Ec : parseColumns ?a = (?b, Ok _) |- Forall (col_inner _ _ ?c) _ =>
      eapply Forall_mono; [|eapply (parseColumns_inner inp s a); [| |exact Ec]; [assumption|lex_solve]];
      intros x Px; eapply col_inner_r; [exact Px|]; ext_record b; assumption
  end.
Qed.

(* ------------------------------------------------------- literal values -- *)

(* skipBlanks stops at the end of the input or on a rune that is not blank *)
Lemma skipBlanks_loop_post fuel : forall s s' u,
  skipBlanks_loop fuel s = (s', Ok u) -> at_end s' = true \/ is_blank (cur s') = false.
Proof.
  induction fuel as [|f IH]; intros s s' u H; simpl in H; [discriminate|].
  walk H; try (eapply IH; exact H); inv_pair; auto.
Qed.

Lemma skipBlanks_post s s' u :
  skipBlanks s = (s', Ok u) -> at_end s' = true \/ is_blank (cur s') = false.
Proof. apply skipBlanks_loop_post. Qed.

Lemma skipBlanks_loop_no fuel : forall s s', skipBlanks_loop fuel s = (s', No) -> False.
Proof.
  induction fuel as [|f IH]; intros s s' H; simpl in H; [discriminate|].
  walk H; eapply IH; exact H.
Qed.

Lemma skipBlanks_no s s' : skipBlanks s = (s', No) -> False.
Proof. apply skipBlanks_loop_no. Qed.

(* skipLiteralInList stops before a top-level ',' or ')' *)
Lemma litlist_loop_post fuel : forall s s' u,
  litlist_loop fuel s = (s', Ok u) -> at_end s' = false /\ (cur s' = 44 \/ cur s' = 41).
Proof.
  induction fuel as [|f IH]; intros s s' u H; simpl in H; [discriminate|].
  walk H; try (eapply IH; exact H). inv_pair.
  match goal with
  | B : (_ || _)%bool = true |- _ =>
      apply orb_prop in B; destruct B as [B|B]; apply N.eqb_eq in B
  end.
  all: split; [|auto].
  all: match goal with
       | B : cur ?x = _ |- at_end ?x = false =>
           destruct (at_end x) eqn:AE; [|reflexivity]; rewrite (cur_at_end _ AE) in B; discriminate B
       end.
Qed.

Lemma ext_at_end a b : ext a b -> at_end a = true -> at_end b = true.
Proof.
  intros [c [R _]] AE. apply at_end_true_rest in AE. rewrite AE in R.
  unfold at_end. destruct c; [|discriminate R]. cbn in R. rewrite <- R. reflexivity.
Qed.

Lemma skipChar_true_pos c s s' : skipChar c s = (s', true) -> (pos s < pos s')%nat.
Proof.
  intros H. pose proof (skipChar_true_prog _ _ _ H) as L.
  pose proof (ext_prf (f:=skipChar c) _ _ _ _ (ext_refl _) H) as [x [R P]].
  rewrite R, app_length in L. lia.
Qed.

Lemma after_skipChar c a s s' : ext a s -> skipChar c s = (s', true) -> (pos a < pos s')%nat.
Proof. intros E H. apply ext_pos in E. apply skipChar_true_pos in H. lia. Qed.

(* the literal value between itemStart and the state skipLiteralInList stops in *)
Lemma literal_inner inp st0 s1 s2 s3 s' u v :
  ext st0 s1 -> synced inp s1 -> (at_end s1 = true \/ is_blank (cur s1) = false) ->
  parseInputMemberAccessor s1 = (s2, No) ->
  ext s1 s2 -> synced inp s2 -> skipLiteralInList s2 = (s3, Ok u) -> ext s3 s' ->
  (pos s3 < pos s')%nat ->
  v = VLit (slice s1 s3) -> val_inner inp st0 s' v.
Proof.
  intros E1 S1 B Hm E2 S2 H E3 Lt ->. cbn [val_inner]. pose proof H as H0.
  assert (X3 : ext s2 s3) by (exact (ext_prf (f:=skipLiteralInList) _ _ _ _ (ext_refl _) H)).
  assert (S3 : synced inp s3) by (exact (sync_prf (f:=skipLiteralInList) _ _ _ _ S2 H)).
  unfold skipLiteralInList in H. apply litlist_loop_post in H. destruct H as [AE3 C3].
  assert (X13 : ext s1 s3) by (eapply ext_trans; eassumption).
  exists s1, s3. split; [exact E1|]. split; [exact X13|]. split; [exact E3|]. split; [exact Lt|].
  split; [reflexivity|]. split; [|split; [|split; [assumption|split; [assumption|]]]].
  - destruct (at_end s1) eqn:AE1.
    + rewrite (ext_at_end _ _ X13 AE1) in AE3. discriminate AE3.
    + apply synced_nsync; [exact S1|exact AE1|]. destruct B as [B|B]; [discriminate|].
      intros C. rewrite C in B. vm_compute in B. discriminate.
  - apply synced_nsync; [exact S3|exact AE3|]. destruct C3 as [C|C]; rewrite C; discriminate.
  - intros qa Aq. eapply (literal_balanced inp s1 s2 s3 u qa); assumption.
Qed.

Lemma basicvals_loop_inner inp fuel : forall cp ip acc st0 s s' v,
  ext st0 s -> synced inp s -> Forall (val_inner inp st0 s) acc ->
  basicvals_loop fuel cp ip acc s = (s', Ok v) -> Forall (val_inner inp st0 s') v.
Proof.
  induction fuel as [|f IH]; intros cp ip acc st0 s s' v E0 S F H; simpl in H; [discriminate|].
  assert (Step : forall x s2, ext s s2 -> val_inner inp st0 s2 x -> Forall (val_inner inp st0 s2) (acc ++ [x])).
  { intros x s2 X Px. apply Forall_app. split; [|constructor; [exact Px|constructor]].
    eapply Forall_mono; [|exact F]. intros y Py. eapply val_inner_r; eassumption. }
  both_go st0 s inp H.
  all: try (exfalso; eapply skipBlanks_no; eassumption).
  all: first
    [ (* a member: closing parenthesis *)
      match goal with
      | |- Forall _ (_ ++ [VMem _]) => eapply Step; [assumption|exact I]
      end
    | (* a literal: closing parenthesis *)
      match goal with
      | El : skipLiteralInList ?s2 = (?s3, Ok _)
        |- Forall (val_inner _ _ ?sf) (_ ++ [VLit (slice ?s1 ?s3)]) =>
          eapply Step; [assumption|];
          eapply (literal_inner inp st0 s1 s2 s3 sf); try eassumption; try reflexivity;
          [eapply skipBlanks_post; eassumption|ext_record s1; assumption|ext_record s3; assumption
          |ext_record s3;
           match goal with
           | Ek : skipChar _ ?x = (sf, true) |- _ => eapply (after_skipChar _ s3 x sf); [assumption|exact Ek]
           end]
      end
    | (* a member: comma, next round *)
      match goal with
      | Ec : skipChar ch_comma _ = (?s6, true), Hl : basicvals_loop _ _ _ (_ ++ [VMem _]) ?s6 = _ |- _ =>
          eapply (IH _ _ _ st0 s6); [assumption|lex_solve| |exact Hl];
          eapply Step; [assumption|exact I]
      end
    | (* a literal: comma, next round *)
      match goal with
      | El : skipLiteralInList ?s2 = (?s3, Ok _),
        Ec : skipChar ch_comma _ = (?s6, true),
        Hl : basicvals_loop _ _ _ (_ ++ [VLit (slice ?s1 ?s3)]) ?s6 = _ |- _ =>
          eapply (IH _ _ _ st0 s6); [assumption|lex_solve| |exact Hl];
          eapply Step; [assumption|];
          eapply (literal_inner inp st0 s1 s2 s3 s6); try eassumption; try reflexivity;
          [eapply skipBlanks_post; eassumption|ext_record s1; assumption|ext_record s3; assumption
          |ext_record s3; eapply (after_skipChar _ s3 _ s6); [|exact Ec]; assumption]
      end ].
Qed.

Lemma parseBasicInsertValues_inner inp st0 s s' v :
  ext st0 s -> synced inp s -> parseBasicInsertValues s = (s', Ok v) ->
  Forall (val_inner inp st0 s') v.
Proof.
  intros E0 S H. unfold parseBasicInsertValues, is_fuel_err in H.
  both_go st0 s inp H.
  eapply basicvals_loop_inner; [| | |exact H]; [assumption|lex_solve|constructor].
Qed.

Lemma parseInsertExpr_inner inp s s' e :
  synced inp s -> parseInsertExpr s = (s', Ok e) -> expr_inner inp s s' e.
Proof.
  intros S H. unfold parseInsertExpr, is_fuel_err in H. pose proof (ext_refl s) as E0.
  destruct (parseAsteriskInsertExpr s) as [sa ra] eqn:EA.
  destruct ra as [ea| |ea]; [| |discriminate].
  { inversion H; subst; clear H. unfold parseAsteriskInsertExpr in EA. walk EA; inv_pair; exact I. }
  both_go s s inp H; cbn [expr_inner]; try exact I.
  all: try match goal with
       | |- _ /\ _ => split
       end.
  all: try match goal with
       | Ec : parseColumns ?a = (?b, Ok _) |- Forall (col_inner _ _ ?c) _ =>
           eapply Forall_mono; [|eapply (parseColumns_inner inp s a); [| |exact Ec]; [assumption|lex_solve]];
           intros x Px; eapply col_inner_r; [exact Px|]; ext_record b; assumption
       end.
  all: match goal with
       | Ev : parseBasicInsertValues ?a = (?b, Ok _) |- Forall (val_inner _ _ ?b) _ =>
           eapply (parseBasicInsertValues_inner inp s a); [| |exact Ev]; [assumption|lex_solve]
       end.
Qed.

Lemma parseInputExpr_inner inp s s' e :
  synced inp s -> parseInputExpr s = (s', Ok e) -> expr_inner inp s s' e.
Proof.
  intros S H. unfold parseInputExpr in H.
  destruct (parseSliceInputExpr s) as [s1 r1] eqn:E1.
  pose proof (parseSliceInputExpr_spec _ _ _ E1) as S1.
  destruct r1 as [e1| |e1]; [| |discriminate].
  - inversion H; subst; clear H. unfold parseSliceInputExpr in E1. walk E1; inv_pair; exact I.
  - cbn in S1. subst s1.
    destruct (parseMemberInputExpr s) as [s2 r2] eqn:E2.
    pose proof (parseMemberInputExpr_spec _ _ _ E2) as S2.
    destruct r2 as [e2| |e2]; [| |discriminate].
    + inversion H; subst; clear H. unfold parseMemberInputExpr in E2. walk E2; inv_pair; exact I.
    + cbn in S2. subst s2. apply parseInsertExpr_inner; assumption.
Qed.

(* ------------------------------------------------------------ main loop -- *)

(* A property of every segment, given the text before it: it holds of all
   segments of an accepted query when it holds of bypass chunks and of what the
   two top-level expression parsers return, called at a synchronised point. *)
Section MainLoop.
  Variable Q : str -> str -> expr -> Prop.       (* input, text before, segment *)
  Hypothesis QB : forall inp pre c, Q inp pre (Bypass c).
  Hypothesis QO : forall inp pre st1 st2 e,
    inp = pre ++ rest st1 -> synced inp st1 -> parseOutputExpr st1 = (st2, Ok e) -> Q inp pre e.
  Hypothesis QI : forall inp pre st1 st2 e,
    inp = pre ++ rest st1 -> synced inp st1 -> parseInputExpr st1 = (st2, Ok e) -> Q inp pre e.

  Definition allQ (inp : str) (segs : list expr) : Prop :=
    forall s1 e s2, segs = s1 ++ e :: s2 -> Q inp (flat s1) e.

  Lemma allQ_nil inp : allQ inp [].
  Proof. intros s1 e s2 H. destruct s1; discriminate. Qed.

  Lemma allQ_snoc inp acc e : allQ inp acc -> Q inp (flat acc) e -> allQ inp (acc ++ [e]).
  Proof.
    intros B S s1 e' s2 H.
    destruct s2 as [|x s2'].
    - apply app_inj_tail in H. destruct H as [H1 H2]. subst. exact S.
    - assert (NE : x :: s2' <> []) by discriminate.
      destruct (exists_last NE) as [l [a L]]. rewrite L in H.
      change (s1 ++ e' :: l ++ [a]) with (s1 ++ (e' :: l) ++ [a]) in H.
      rewrite app_assoc in H. apply app_inj_tail in H. destruct H as [H1 H2].
      eapply B. exact H1.
  Qed.

  Lemma allQ_add_bypass inp prev cstart acc : allQ inp acc -> allQ inp (add_bypass prev cstart acc).
  Proof using QB.
    intros B. unfold add_bypass. destruct (Nat.eqb (pos prev) (pos cstart)); [exact B|].
    apply allQ_snoc; [exact B|]. apply QB.
  Qed.

  Lemma parse_loop_Q fuel : forall inp prev acc st segs,
    ext prev st -> inp = flat acc ++ rest prev -> synced inp st -> allQ inp acc ->
    parse_loop fuel prev acc st = Ok segs -> allQ inp segs.
  Proof using QB QO QI.
    induction fuel as [|f IH]; intros inp prev acc st segs E I S B H; simpl in H; [discriminate|].
    destruct (advanceToNextExpression st) as [st1 r1] eqn:A.
    assert (E1 : ext prev st1) by (exact (ext_prf (f:=advanceToNextExpression) _ _ _ _ E A)).
    assert (S1 : synced inp st1) by (exact (sync_prf (f:=advanceToNextExpression) _ _ _ _ S A)).
    pose proof (advanceToNextExpression_stops _ _ _ A) as St1.
    assert (H' : (if at_end st1 then Ok (add_bypass prev st1 acc)
            else match parseOutputExpr st1 with
                 | (_, Err e) => Err e
                 | (st2, Ok out) => parse_loop f st2 (add_bypass prev st1 acc ++ [out]) st2
                 | (st2, No) =>
                     match parseInputExpr st2 with
                     | (_, Err e) => Err e
                     | (st3, Ok inp) => parse_loop f st3 (add_bypass prev st1 acc ++ [inp]) st3
                     | (st3, No) => parse_loop f prev acc (advance st3)
                     end
                 end) = Ok segs /\ stops st1).
    { destruct r1; try (split; [exact H|exact St1]). discriminate. }
    clear H St1. destruct H' as [H St1].
    assert (F : inp = flat (add_bypass prev st1 acc) ++ rest st1)
      by (rewrite add_bypass_flat by exact E1; exact I).
    destruct (at_end st1) eqn:AE.
    - inversion H; subst segs. apply allQ_add_bypass. exact B.
    - destruct (parseOutputExpr st1) as [st2 r2] eqn:O.
      pose proof (parseOutputExpr_spec _ _ _ O) as SO.
      assert (E2 : ext st1 st2) by (exact (ext_prf (f:=parseOutputExpr) _ _ _ _ (ext_refl _) O)).
      destruct r2 as [out| |e]; [| |discriminate].
      + destruct SO as [Raw NB].
        assert (N2 : snorm inp st2) by (exact (norm_prf (f:=parseOutputExpr) _ _ _ _ S1 O)).
        eapply IH; [apply ext_refl| |apply snorm_synced; exact N2| |exact H].
        * rewrite flat_app. unfold flat at 2. simpl. rewrite app_nil_r, Raw, <- app_assoc.
          rewrite <- (slice_ext _ _ E2). exact F.
        * apply allQ_snoc; [apply allQ_add_bypass; exact B|]. eapply QO; eassumption.
      + simpl in SO. subst st2.
        destruct (parseInputExpr st1) as [st3 r3] eqn:P.
        pose proof (parseInputExpr_spec _ _ _ P) as SP.
        assert (E3 : ext st1 st3) by (exact (ext_prf (f:=parseInputExpr) _ _ _ _ (ext_refl _) P)).
        destruct r3 as [ie| |e]; [| |discriminate].
        * destruct SP as [Raw NB].
          assert (N3 : snorm inp st3) by (exact (norm_prf (f:=parseInputExpr) _ _ _ _ S1 P)).
          eapply IH; [apply ext_refl| |apply snorm_synced; exact N3| |exact H].
          -- rewrite flat_app. unfold flat at 2. simpl. rewrite app_nil_r, Raw, <- app_assoc.
             rewrite <- (slice_ext _ _ E3). exact F.
          -- apply allQ_snoc; [apply allQ_add_bypass; exact B|]. eapply QI; eassumption.
        * simpl in SP. subst st3.
          eapply IH; [|exact I| |exact B|exact H].
          -- eapply ext_trans; [exact E1|apply advance_ext].
          -- apply advance_plain_sync; [exact S1|].
             destruct St1 as [St1|St1]; [congruence|]. apply stopc_not_special. exact St1.
  Qed.

  Theorem parse_Q inp segs s1 e s2 :
    parse inp = Ok segs -> segs = s1 ++ e :: s2 -> Q inp (concat (map raw_of s1)) e.
  Proof using QB QO QI.
    unfold parse. intros H D.
    eapply parse_loop_Q in H; [|apply ext_refl|reflexivity|apply synced_init|apply allQ_nil].
    exact (H _ _ _ D).
  Qed.
End MainLoop.

(* ------------------------------------------ from states to plain strings -- *)

(* the shape of a piece of an expression's source, in terms of the automaton
   alone: where it lies in the source [raw] that follows the text [pre] *)
Definition piece (pre raw f : str) (P : str -> str -> str -> Prop) : Prop :=
  exists x y, raw = x ++ f ++ y /\ P (pre ++ x) f y.

(* a function-call column: starts outside literals and comments, ends in state
   Normal with ')'; on its own it is lexically closed *)
Definition func_piece (before f after : str) : Prop :=
  normal_like (lexq Normal before) = true /\
  lexq Normal (before ++ f) = Normal /\
  lexq Normal f = Normal /\
  (exists p, f = p ++ [41]) /\
  func_balanced Normal f.

(* a literal value: starts and ends outside literals and comments, and is
   followed by ',' or ')' *)
Definition lit_piece (before s after : str) : Prop :=
  normal_like (lexq Normal before) = true /\
  normal_like (lexq Normal (before ++ s)) = true /\
  normal_like (lexq Normal s) = true /\
  (exists t, after = 44 :: t \/ after = 41 :: t) /\
  (exists q', drun true (Some (Normal, O)) s = Some (q', O)).

Lemma at_q_prefix inp pre st1 a q :
  inp = pre ++ rest st1 -> ext st1 a -> at_q inp a q -> lexq Normal (pre ++ slice st1 a) = q.
Proof.
  intros I E [p [Ip Q]]. rewrite (slice_ext _ _ E), app_assoc in I. rewrite I in Ip.
  apply app_inv_tail in Ip. rewrite Ip. exact Q.
Qed.

Lemma inner_split st1 st2 a b :
  ext st1 a -> ext a b -> ext b st2 -> slice st1 st2 = slice st1 a ++ slice a b ++ slice b st2.
Proof.
  intros E1 E2 E3. rewrite (slice_app st1 a st2 E1 (ext_trans _ _ _ E2 E3)).
  rewrite (slice_app a b st2 E2 E3). reflexivity.
Qed.

Lemma cur_first s c : at_end s = false -> cur s = c -> c < 128 -> exists t, rest s = c :: t.
Proof.
  intros AE C L. destruct (advance_split s AE) as [bs [R [[_ E]|[L' _]]]].
  - subst bs. rewrite C in R. eexists. exact R.
  - rewrite C in L'. apply N.ltb_lt in L. congruence.
Qed.

Lemma func_balanced_restart inp a q f tl :
  at_q inp a q -> good q a -> normal_like q = true -> rest a = f ++ tl ->
  func_balanced q f -> func_balanced Normal f.
Proof.
  intros A G NL R [id [body [q1 [q2 [Ef [R1 [N1 [R2 N2]]]]]]]].
  destruct id as [|i0 it] eqn:Id.
  - cbn in R1. inversion R1; subst q1. exists [], body, Normal, q2. repeat split; assumption.
  - rewrite <- Id in *. exists id, body, q1, q2. split; [exact Ef|]. split; [|auto].
    rewrite <- R1. symmetry. eapply (drun_restart false inp a q O id); [exact A|exact G|exact NL| |rewrite Id; discriminate].
    rewrite R, Ef, <- app_assoc. reflexivity.
Qed.

Lemma func_inner_piece inp pre st1 st2 f :
  inp = pre ++ rest st1 -> inner inp (func_end inp) st1 st2 f ->
  piece pre (slice st1 st2) f func_piece.
Proof.
  intros I [a [b [E1 [E2 [E3 [Ef [[q [A [G NL]]] [Nb [En Bal]]]]]]]]].
  exists (slice st1 a), (slice b st2). split; [rewrite Ef; apply inner_split; assumption|].
  pose proof (at_q_prefix _ _ _ _ _ I E1 A) as Qa.
  assert (E1b : ext st1 b) by (eapply ext_trans; eassumption).
  pose proof (at_q_prefix _ _ _ _ _ I E1b Nb) as Qb.
  rewrite (slice_app _ _ _ E1 E2), app_assoc, <- Ef in Qb.
  destruct En as [_ [p Ep]]. rewrite <- Ef in Ep.
  assert (Ra : rest a = f ++ rest b) by (rewrite Ef; apply slice_ext; exact E2).
  split; [rewrite Qa; exact NL|]. split; [exact Qb|]. split; [|split; [exists p; exact Ep|]].
  - rewrite lexq_app, Qa in Qb.
    rewrite <- (restart inp a q f (rest b)); [exact Qb|exact A|exact G|exact Ra|].
    rewrite Ep. destruct p; discriminate.
  - specialize (Bal q A). rewrite <- Ef in Bal.
    exact (func_balanced_restart inp a q f (rest b) A G NL Ra Bal).
Qed.

Lemma lit_inner_piece inp pre st1 st2 f :
  inp = pre ++ rest st1 -> val_inner inp st1 st2 (VLit f) ->
  piece pre (slice st1 st2) f lit_piece.
Proof.
  intros I [a [b [E1 [E2 [E3 [Lt [Ef [[q [A [G NL]]] [[qb [Ab [Gb NLb]]] [AEb [Cb Bal]]]]]]]]]]].
  assert (E1b : ext st1 b) by (eapply ext_trans; eassumption).
  exists (slice st1 a), (slice b st2). split; [rewrite Ef; apply inner_split; assumption|].
  pose proof (at_q_prefix _ _ _ _ _ I E1 A) as Qa.
  pose proof (at_q_prefix _ _ _ _ _ I E1b Ab) as Qb.
  rewrite (slice_app _ _ _ E1 E2), app_assoc, <- Ef in Qb.
  assert (Ra : rest a = f ++ rest b) by (rewrite Ef; apply slice_ext; exact E2).
  split; [rewrite Qa; exact NL|]. split; [rewrite Qb; exact NLb|]. split; [|split].
  - destruct f as [|f0 ft] eqn:Ff; [reflexivity|]. rewrite <- Ff in *.
    rewrite lexq_app, Qa in Qb.
    rewrite <- (restart inp a q f (rest b)); [rewrite Qb; exact NLb|exact A|exact G|exact Ra|rewrite Ff; discriminate].
  - pose proof (slice_ext _ _ E3) as R3. pose proof (slice_ext_length _ _ E3) as L3.
    destruct (slice b st2) as [|y0 yt] eqn:Y; [cbn in L3; lia|].
    destruct Cb as [C|C]; destruct (cur_first b _ AEb C) as [t Rt]; try reflexivity;
      rewrite Rt in R3; cbn [app] in R3; inversion R3; subst; exists yt; auto.
  - destruct (Bal q A) as [q' R]. rewrite <- Ef in R.
    destruct f as [|f0 ft] eqn:Ff; [exists Normal; reflexivity|]. rewrite <- Ff in *.
    exists q'. rewrite <- R. symmetry.
    eapply (drun_restart true inp a q O f); [exact A|exact G|exact NL|exact Ra|rewrite Ff; discriminate].
Qed.

(* ------------------------------------------------------------- theorems -- *)

(* what holds of a segment that follows the text [pre] *)
Definition seg_inner (pre : str) (e : expr) : Prop :=
  match e with
  | Output raw cols _ | ColumnsIns raw cols _ =>
      forall f, In (FuncCol f) cols -> piece pre raw f func_piece
  | BasicIns raw cols vals =>
      (forall f, In (FuncCol f) cols -> piece pre raw f func_piece) /\
      (forall s, In (VLit s) vals -> piece pre raw s lit_piece)
  | _ => True
  end.

Lemma cols_pieces inp pre st1 st2 cols :
  inp = pre ++ rest st1 -> Forall (col_inner inp st1 st2) cols ->
  forall f, In (FuncCol f) cols -> piece pre (slice st1 st2) f func_piece.
Proof.
  intros I F f Hin. rewrite Forall_forall in F. specialize (F _ Hin). cbn [col_inner] in F.
  eapply func_inner_piece; eassumption.
Qed.

Lemma vals_pieces inp pre st1 st2 vals :
  inp = pre ++ rest st1 -> Forall (val_inner inp st1 st2) vals ->
  forall s, In (VLit s) vals -> piece pre (slice st1 st2) s lit_piece.
Proof.
  intros I F s Hin. rewrite Forall_forall in F. specialize (F _ Hin).
  eapply lit_inner_piece; eassumption.
Qed.

Lemma expr_inner_seg inp pre st1 st2 e :
  inp = pre ++ rest st1 -> raw_of e = slice st1 st2 -> expr_inner inp st1 st2 e -> seg_inner pre e.
Proof.
  intros I Raw X. destruct e as [c|r m|r t|r ss|r cols ss|r cols vals|r cols ts];
    cbn [seg_inner expr_inner raw_of] in *; try exact Logic.I; subst r.
  - eapply cols_pieces; eassumption.
  - destruct X as [X1 X2]. split; [eapply cols_pieces|eapply vals_pieces]; eassumption.
  - eapply cols_pieces; eassumption.
Qed.

Theorem parse_inner inp segs s1 e s2 :
  parse inp = Ok segs -> segs = s1 ++ e :: s2 -> seg_inner (concat (map raw_of s1)) e.
Proof.
  apply (parse_Q (fun _ pre e => seg_inner pre e)).
  - intros _ pre c. exact I.
  - intros inp0 pre st1 st2 e0 I S H. pose proof (parseOutputExpr_spec _ _ _ H) as [Raw _].
    eapply expr_inner_seg; [exact I|exact Raw|]. apply parseOutputExpr_inner; assumption.
  - intros inp0 pre st1 st2 e0 I S H. pose proof (parseInputExpr_spec _ _ _ H) as [Raw _].
    eapply expr_inner_seg; [exact I|exact Raw|]. apply parseInputExpr_inner; assumption.
Qed.

(* a function-call column is never "*" *)
Lemma func_piece_not_star before f after : func_piece before f after -> f <> [42].
Proof.
  intros [_ [_ [_ [[p Ep] _]]]] E. rewrite E in Ep. destruct p as [|x [|y p]]; discriminate.
Qed.
