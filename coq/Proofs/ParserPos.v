(* C19, part 1: positioned parse errors report a line and a column that lie
   inside the input.

   - [lines_of] / [nlines]: the input split at byte 10 (strings.Split(q, "\n"));
   - [wf inp st]: the parser state [st] is a consistent position inside [inp]:
     inp = a ++ b ++ rest st  where [a] is empty or ends with a newline, [b]
     has no newline, lstart = |a|, pos = |a| + |b|, line = 1 + #newlines(a);
   - every function of the model preserves [wf] and only reports positions
     taken from [wf] states ([PosFn], one instance per function, same proof
     walk as Proofs/ParserExt.v). *)
From SQLair.Base Require Import Bytes Utf8.
From SQLair.Model Require Import GenUnicode GenConsts Parser.
From SQLair.Proofs Require Import Utf8Facts ParserExt ParserTiling.

(* ------------------------------------------------------ lines of a string -- *)

Fixpoint lines_of (s : str) : list str :=
  match s with
  | [] => [[]]
  | c :: t =>
      if N.eqb c 10 then [] :: lines_of t
      else match lines_of t with
           | l :: ls => (c :: l) :: ls
           | [] => [[c]]
           end
  end.

Definition nlines (s : str) : nat := length (lines_of s).

Fixpoint count_nl (s : str) : nat :=
  match s with
  | [] => 0
  | c :: t => (if N.eqb c 10 then 1 else 0) + count_nl t
  end.

Definition nonl (s : str) : Prop := Forall (fun c => c <> 10%N) s.

(* line l, column c is a position of inp: an existing line, and a column on
   that line or just behind its last byte *)
Definition good_pos (inp : str) (l c : nat) : Prop :=
  1 <= c /\ 1 <= l /\ l <= nlines inp /\ c <= length (nth (l - 1) (lines_of inp) []) + 1.

Lemma lines_of_ne s : lines_of s <> [].
Proof.
  destruct s as [|c t]; simpl; [discriminate|].
  destruct (N.eqb c 10); [discriminate|]. destruct (lines_of t); discriminate.
Qed.

Lemma lines_of_app_nl x s : lines_of (x ++ 10%N :: s) = lines_of x ++ lines_of s.
Proof.
  induction x as [|c x IH]; [reflexivity|].
  cbn [app lines_of]. rewrite IH. destruct (N.eqb c 10); [reflexivity|].
  pose proof (lines_of_ne x) as NE. destruct (lines_of x) as [|l ls]; [congruence|reflexivity].
Qed.

Lemma lines_of_length x : length (lines_of x) = S (count_nl x).
Proof.
  induction x as [|c x IH]; [reflexivity|].
  cbn [lines_of count_nl]. destruct (N.eqb c 10); cbn [length]; [rewrite IH; lia|].
  pose proof (lines_of_ne x) as NE. destruct (lines_of x) as [|l ls]; [congruence|].
  cbn [length] in *. lia.
Qed.

Lemma count_nl_app x y : count_nl (x ++ y) = count_nl x + count_nl y.
Proof. induction x as [|c x IH]; [reflexivity|]. cbn [app count_nl]. rewrite IH. lia. Qed.

Lemma count_nl_nonl b : nonl b -> count_nl b = 0.
Proof.
  induction 1 as [|c b Hc _ IH]; [reflexivity|]. cbn [count_nl].
  apply N.eqb_neq in Hc. rewrite Hc, IH. reflexivity.
Qed.

Lemma lines_of_nonl_app b r :
  nonl b -> exists tl, lines_of (b ++ r) = (b ++ hd [] (lines_of r)) :: tl.
Proof.
  induction 1 as [|c b Hc _ IH].
  - cbn [app]. pose proof (lines_of_ne r) as NE. destruct (lines_of r) as [|l ls]; [congruence|].
    exists ls. reflexivity.
  - destruct IH as [tl IH]. cbn [app lines_of]. apply N.eqb_neq in Hc. rewrite Hc, IH.
    exists tl. reflexivity.
Qed.

(* --------------------------------------------------------- the invariant -- *)

Definition wf (inp : str) (st : pstate) : Prop :=
  exists a b,
    inp = a ++ b ++ rest st /\ lstart st = length a /\ pos st = length a + length b /\
    line st = 1 + count_nl a /\ nonl b /\ (a = [] \/ exists a', a = a' ++ [10%N]).

Lemma wf_init inp : wf inp (init inp).
Proof.
  exists [], []. cbn. repeat split; auto. constructor.
Qed.

Lemma wf_lstart_le inp st : wf inp st -> lstart st <= pos st.
Proof. intros (a & b & _ & Hl & Hp & _). lia. Qed.

Lemma wf_good inp st c : wf inp st -> 1 <= c <= colNum st -> good_pos inp (line st) c.
Proof.
  intros (a & b & Hi & Hl & Hp & Hline & Hb & Ha) Hc. unfold colNum in Hc. unfold good_pos, nlines.
  destruct (lines_of_nonl_app b (rest st) Hb) as [tl Hlines].
  destruct Ha as [Ha|[a' Ha]].
  - subst a. cbn [app length count_nl] in *. rewrite Hline, Hi, Hlines.
    change (1 + 0 - 1) with 0. cbn [length nth]. rewrite app_length. lia.
  - subst a. rewrite <- app_assoc in Hi. cbn [app] in Hi.
    rewrite Hi, lines_of_app_nl, Hlines, app_length.
    rewrite count_nl_app in Hline. cbn [count_nl N.eqb Pos.eqb] in Hline.
    pose proof (lines_of_length a') as La.
    replace (line st - 1) with (length (lines_of a') + 0) by lia.
    rewrite app_nth2_plus. cbn [nth length]. rewrite !app_length in *. cbn [length] in *. lia.
Qed.

Lemma wf_good_col inp st : wf inp st -> good_pos inp (line st) (colNum st).
Proof. intros H. apply (wf_good _ _ _ H). unfold colNum. lia. Qed.

(* ------------------------------------------------------------- decoding -- *)

Lemma decode_nl s n : decode_rune s = (10%N, n) -> exists t, s = 10%N :: t /\ n = 1.
Proof. intros H. apply (decode_rune_small _ _ _ H). lia. Qed.

Lemma decode_nonl s r n : decode_rune s = (r, n) -> r <> 10%N -> nonl (firstn n s).
Proof.
  unfold nonl. destruct s as [|s0 t]; unfold decode_rune.
  - intros H _. inversion H; subst. constructor.
  - unfold inr, rune_error.
    repeat match goal with
           | |- context [if ?b then _ else _] => destruct b eqn:?
           | |- context [match ?l with [] => _ | _ :: _ => _ end] => destruct l
           end; intros H Hr; inversion H; subst; cbn [firstn].
    all: repeat match goal with
           | H : (_ <? _)%N = true |- _ => apply N.ltb_lt in H
           | H : (_ <? _)%N = false |- _ => apply N.ltb_ge in H
           | H : (_ <=? _)%N = true |- _ => apply N.leb_le in H
           | H : (_ <=? _)%N = false |- _ => apply N.leb_gt in H
           | H : (_ && _)%bool = true |- _ => apply andb_prop in H; destruct H
           | H : (_ =? _)%N = true |- _ => apply N.eqb_eq in H
           | H : (_ =? _)%N = false |- _ => apply N.eqb_neq in H
           end.
    all: repeat (constructor; try lia).
Qed.

(* -------------------------------------------------------------- advance -- *)

Lemma advance_wf inp st : wf inp st -> wf inp (advance st).
Proof.
  intros (a & b & Hi & Hl & Hp & Hline & Hb & Ha).
  unfold advance. destruct (rest st) as [|c0 t] eqn:R.
  { exists a, b. rewrite R. auto 10. }
  destruct (decode_rune (c0 :: t)) as [r size] eqn:D.
  destruct (N.eqb r 10) eqn:Er.
  - apply N.eqb_eq in Er. subst r. destruct (decode_nl _ _ D) as [t' [Hs Hn]].
    inversion Hs; subst c0 t' size. cbn [skipn].
    exists (a ++ b ++ [10%N]), []. cbn [pos rest line lstart].
    rewrite !app_length, !count_nl_app, (count_nl_nonl b Hb). cbn [length count_nl N.eqb Pos.eqb app].
    repeat split; try lia.
    + rewrite Hi, <- !app_assoc. reflexivity.
    + constructor.
    + right. exists (a ++ b). rewrite <- app_assoc. reflexivity.
  - apply N.eqb_neq in Er.
    pose proof (decode_nonl _ _ _ D Er) as Hn.
    pose proof (decode_size_le (c0 :: t)) as Hle. rewrite D in Hle. cbn [snd] in Hle.
    exists a, (b ++ firstn size (c0 :: t)). cbn [pos rest line lstart].
    rewrite app_length, firstn_length, Nat.min_l by exact Hle.
    repeat split; try lia; try assumption.
    + rewrite <- app_assoc, firstn_skipn. exact Hi.
    + apply Forall_app. split; assumption.
Qed.

Lemma advance_pos_lt st : at_end st = false -> pos st < pos (advance st).
Proof.
  intros AE. pose proof (advance_progress st AE) as P.
  destruct (advance_ext st) as [c [Hc Hp]]. rewrite Hc, app_length in P. lia.
Qed.

Lemma advance_same_line st :
  cur st <> 10%N -> line (advance st) = line st /\ lstart (advance st) = lstart st.
Proof.
  unfold cur, advance. destruct (rest st) as [|c0 t]; [auto|].
  destruct (decode_rune (c0 :: t)) as [r size]. cbn [fst]. intros Hr.
  apply N.eqb_neq in Hr. rewrite Hr. auto.
Qed.

(* ----------------------------------------------------------- skipString -- *)

Definition kw_ok (kw : str) : Prop := Forall (fun k => lower k <> 10%N) kw.

Lemma lower_nl x : lower x = 10%N -> x = 10%N.
Proof.
  unfold lower. destruct (N.leb 65 x && N.leb x 90)%bool eqn:E; [|auto].
  apply andb_prop in E. destruct E as [E1 E2]. apply N.leb_le in E1. lia.
Qed.

Lemma prefix_fold_nonl kw : kw_ok kw -> forall s,
  prefix_fold kw s = true -> length kw <= length s /\ nonl (firstn (length kw) s).
Proof.
  induction 1 as [|k kw Hk _ IH]; intros s P.
  - cbn. split; [lia|constructor].
  - destruct s as [|x s]; cbn [prefix_fold] in P; [discriminate|].
    apply andb_prop in P. destruct P as [P1 P2]. apply N.eqb_eq in P1.
    destruct (IH s P2) as [L NL]. cbn [length firstn]. split; [lia|].
    constructor; [|exact NL]. intros ->. apply Hk. rewrite P1. reflexivity.
Qed.

Lemma skipString_wf kw : kw_ok kw -> forall inp s s' r,
  wf inp s -> skipString kw s = (s', r) -> wf inp s'.
Proof.
  intros K inp s s' r W H. unfold skipString in H.
  destruct (prefix_fold kw (rest s)) eqn:P; inversion H; subst; [|exact W].
  destruct (prefix_fold_nonl kw K _ P) as [L NL].
  destruct W as (a & b & Hi & Hl & Hp & Hline & Hb & Ha).
  exists a, (b ++ firstn (length kw) (rest s)). cbn [pos rest line lstart].
  rewrite app_length, firstn_length, Nat.min_l by exact L.
  repeat split; try lia; try assumption.
  - rewrite <- app_assoc, firstn_skipn. exact Hi.
  - apply Forall_app. split; assumption.
Qed.

Lemma kw_output_as_ok : kw_ok kw_output_as.
Proof. unfold kw_ok, kw_output_as. repeat constructor; vm_compute; discriminate. Qed.
Lemma kw_asterisk_values_ok : kw_ok kw_asterisk_values.
Proof. unfold kw_ok, kw_asterisk_values. repeat constructor; vm_compute; discriminate. Qed.
Lemma kw_insert_values_ok : kw_ok kw_insert_values.
Proof. unfold kw_ok, kw_insert_values. repeat constructor; vm_compute; discriminate. Qed.

(* ----------------------------------------------------- proof machinery -- *)

Definition err_ok {A} (inp : str) (r : res A) : Prop :=
  match r with
  | Err e => positioned e = true -> good_pos inp (eline e) (ecol e)
  | _ => True
  end.

Class WfFn {A} (f : pstate -> pstate * A) : Prop :=
  wf_prf : forall inp s s' r, wf inp s -> f s = (s', r) -> wf inp s'.

Class PosFn {A} (f : pstate -> pstate * res A) : Prop :=
  pos_prf : forall inp s s' r, wf inp s -> f s = (s', r) -> wf inp s' /\ err_ok inp r.

Create HintDb posdb.
#[export] Hint Resolve advance_wf wf_init : posdb.

(* marks a call equation whose consequences have been recorded *)
Definition done (P : Prop) : Prop := P.

(* extension point: extra ways of recording the consequences of a call *)
Ltac pos_hook inp E := fail.

Ltac pos_record inp :=
  repeat match goal with
         | E : ?g ?s = (?s1, ?r) |- _ =>
             first
               [ pos_hook inp E
               | let inst := constr:(_ : PosFn g) in
                 let Hs := fresh "Hs" in
                 assert (Hs : wf inp s) by (eauto 3 with posdb);
                 let Hw := fresh "Hw" in let He := fresh "He" in
                 destruct (@pos_prf _ g inst inp s s1 r Hs E) as [Hw He]; clear Hs
               | let inst := constr:(_ : WfFn g) in
                 let Hs := fresh "Hs" in
                 assert (Hs : wf inp s) by (eauto 3 with posdb);
                 let Hw := fresh "Hw" in
                 pose proof (@wf_prf _ g inst inp s s1 r Hs E) as Hw; clear Hs ];
             change (done (g s = (s1, r))) in E
         end.

Ltac pos_err inp :=
  first
    [ exact I
    | assumption
    | unfold err_ok, errorAt, efuel; cbn [positioned eline ecol];
      first [ intros Hp; discriminate Hp
            | intros _; apply wf_good_col; eauto 3 with posdb ] ].

(* extension point: results of the option-valued loops *)
Ltac pos_loops inp := idtac.

Ltac pos_finish inp :=
  match goal with
  | H : (_, _) = (_, _) |- _ => inversion H; subst; clear H
  end;
  pos_record inp; pos_loops inp; (split; [eauto 3 with posdb | try (pos_err inp)]).

Ltac pos_go inp H :=
  norm_in H;
  repeat (pos_record inp; destruct_scrut H); try discriminate; try (pos_finish inp);
  try (pos_record inp; split; assumption).

(* ---------------------------------------------------- character level -- *)

#[export] Instance skipChar_wf c : WfFn (skipChar c).
Proof.
  intros inp s s' r W H. unfold skipChar in H.
  destruct (negb (at_end s) && N.eqb (cur s) c); inversion H; subst; auto with posdb.
Qed.

Lemma skipChar_true c s s1 : skipChar c s = (s1, true) ->
  s1 = advance s /\ at_end s = false /\ cur s = c.
Proof.
  unfold skipChar. destruct (negb (at_end s) && N.eqb (cur s) c) eqn:E; intros H; inversion H; subst.
  apply andb_prop in E. destruct E as [E1 E2]. apply negb_true_iff in E1. apply N.eqb_eq in E2. auto.
Qed.

(* after stepping over a character that is not a newline the column is >= 2 *)
Lemma skipChar_true_col inp c s s1 :
  wf inp s -> skipChar c s = (s1, true) -> c <> 10%N -> lstart s1 < pos s1.
Proof.
  intros W H Hc. destruct (skipChar_true _ _ _ H) as [-> [AE Cu]].
  pose proof (advance_pos_lt s AE) as P. pose proof (wf_lstart_le _ _ W) as L.
  destruct (advance_same_line s) as [_ Ls]; [congruence|]. lia.
Qed.

Lemma skipCharFind_loop_wf fuel : forall c inp s s',
  wf inp s -> skipCharFind_loop fuel c s = Some (Some s') -> wf inp s'.
Proof.
  induction fuel as [|f IH]; intros c inp s s' W H; simpl in H; [discriminate|].
  destruct (at_end s); [discriminate|]. destruct (N.eqb (cur s) c).
  - inversion H; subst. auto with posdb.
  - eapply IH; [|exact H]. auto with posdb.
Qed.

#[export] Instance skipCharFind_pos c : PosFn (skipCharFind c).
Proof.
  intros inp s s' r W H. unfold skipCharFind in H.
  destruct (skipCharFind_loop (fuel_of s) c s) as [[s1|]|] eqn:E; inversion H; subst.
  - split; [eapply skipCharFind_loop_wf; eauto|exact I].
  - split; [assumption|exact I].
  - split; [assumption|]. cbn. discriminate.
Qed.

#[export] Instance skipString_as_wf : WfFn (skipString kw_output_as).
Proof. exact (skipString_wf _ kw_output_as_ok). Qed.
#[export] Instance skipString_av_wf : WfFn (skipString kw_asterisk_values).
Proof. exact (skipString_wf _ kw_asterisk_values_ok). Qed.
#[export] Instance skipString_iv_wf : WfFn (skipString kw_insert_values).
Proof. exact (skipString_wf _ kw_insert_values_ok). Qed.

Lemma strlit_loop_wf fuel : forall c m inp s s',
  wf inp s -> strlit_loop fuel c m s = Some (Some s') -> wf inp s'.
Proof.
  induction fuel as [|f IH]; intros c m inp s s' W H; simpl in H; [discriminate|].
  pos_go inp H.
  - inversion H; subst. assumption.
  - eapply IH; [|exact H]. assumption.
Qed.

Lemma comment_loop_wf fuel : forall c inp s s',
  wf inp s -> comment_loop fuel c s = Some s' -> wf inp s'.
Proof.
  induction fuel as [|f IH]; intros c inp s s' W H; simpl in H; [discriminate|].
  pos_go inp H.
  all: try (match goal with H : Some _ = Some _ |- _ => inversion H; subst; clear H end;
            eauto 3 with posdb).
  all: try (eapply IH; [|exact H]; eauto 3 with posdb).
Qed.

Lemma namechars_loop_wf fuel : forall inp s s',
  wf inp s -> namechars_loop fuel s = Some s' -> wf inp s'.
Proof.
  induction fuel as [|f IH]; intros inp s s' W H; simpl in H; [discriminate|].
  destruct (negb (at_end s) && isNameChar (cur s)).
  - eapply IH; [|exact H]. auto with posdb.
  - inversion H; subst. assumption.
Qed.

(* results of the option-valued loops *)
Ltac pos_loops inp ::=
  repeat match goal with
         | E : strlit_loop _ _ _ ?x = Some (Some ?y) |- _ =>
             lazymatch goal with
             | _ : wf inp y |- _ => fail
             | _ => assert (wf inp y) by (eapply strlit_loop_wf; [|exact E]; eauto 3 with posdb)
             end
         | E : comment_loop _ _ ?x = Some ?y |- _ =>
             lazymatch goal with
             | _ : wf inp y |- _ => fail
             | _ => assert (wf inp y) by (eapply comment_loop_wf; [|exact E]; eauto 3 with posdb)
             end
         | E : namechars_loop _ ?x = Some ?y |- _ =>
             lazymatch goal with
             | _ : wf inp y |- _ => fail
             | _ => assert (wf inp y) by (eapply namechars_loop_wf; [|exact E]; eauto 3 with posdb)
             end
         end.


#[export] Instance skipStringLiteral_pos : PosFn skipStringLiteral.
Proof.
  intros inp s s' r W H. unfold skipStringLiteral in H. pos_go inp H.
Qed.

#[export] Instance skipComment_pos : PosFn skipComment.
Proof.
  intros inp s s' r W H. unfold skipComment in H. pos_go inp H.
Qed.

#[export] Instance skipBlanks_loop_pos fuel : PosFn (skipBlanks_loop fuel).
Proof.
  induction fuel as [|f IH]; intros inp s s' r W H; simpl in H.
  - inversion H; subst. split; [assumption|cbn; discriminate].
  - pos_go inp H. all: try (eapply IH; [|exact H]; eauto 3 with posdb).
Qed.

#[export] Instance skipBlanks_pos : PosFn skipBlanks.
Proof. unfold skipBlanks. intros inp s s' r W H. eapply skipBlanks_loop_pos; eauto. Qed.

#[export] Instance parens_loop_pos fuel n : PosFn (parens_loop fuel n).
Proof.
  revert n. induction fuel as [|f IH]; intros n inp s s' r W H; simpl in H.
  - inversion H; subst. split; [assumption|cbn; discriminate].
  - pos_go inp H. all: try (eapply IH; [|exact H]; eauto 3 with posdb).
Qed.

#[export] Instance skipEnclosedParentheses_pos : PosFn skipEnclosedParentheses.
Proof. intros inp s s' r W H. unfold skipEnclosedParentheses in H. pos_go inp H. Qed.

#[export] Instance litlist_loop_pos fuel : PosFn (litlist_loop fuel).
Proof.
  induction fuel as [|f IH]; intros inp s s' r W H; simpl in H.
  - inversion H; subst. split; [assumption|cbn; discriminate].
  - pos_go inp H. all: try (eapply IH; [|exact H]; eauto 3 with posdb).
Qed.

#[export] Instance skipLiteralInList_pos : PosFn skipLiteralInList.
Proof. unfold skipLiteralInList. intros inp s s' r W H. eapply litlist_loop_pos; eauto. Qed.

(* ---------------------------------------------------------------- names -- *)

#[export] Instance parseIdentifier_pos : PosFn parseIdentifier.
Proof.
  intros inp s s' r W H. unfold parseIdentifier in H. pos_go inp H.
Qed.

#[export] Instance parseIdentifierAsterisk_pos : PosFn parseIdentifierAsterisk.
Proof. intros inp s s' r W H. unfold parseIdentifierAsterisk in H. pos_go inp H. Qed.

#[export] Instance parseTypeName_pos : PosFn parseTypeName.
Proof.
  intros inp s s' r W H. unfold parseTypeName in H. pos_go inp H.
Qed.

#[export] Instance parseColumnAccessor_pos : PosFn parseColumnAccessor.
Proof. intros inp s s' r W H. unfold parseColumnAccessor in H. pos_go inp H. Qed.

#[export] Instance parseSliceAccessor_pos : PosFn parseSliceAccessor.
Proof. intros inp s s' r W H. unfold parseSliceAccessor in H. pos_go inp H. Qed.

(* A type name does not span lines and is not empty. *)
Lemma isNameChar_nl c : isNameChar c = true -> c <> 10%N.
Proof. intros H ->. vm_compute in H. discriminate. Qed.

Lemma namechars_loop_same_line fuel : forall s s',
  namechars_loop fuel s = Some s' -> line s' = line s /\ lstart s' = lstart s.
Proof.
  induction fuel as [|f IH]; intros s s' H; simpl in H; [discriminate|].
  destruct (negb (at_end s) && isNameChar (cur s)) eqn:C.
  - apply andb_prop in C. destruct C as [_ C]. apply isNameChar_nl in C.
    destruct (advance_same_line s C) as [L1 L2]. destruct (IH _ _ H) as [L3 L4]. split; congruence.
  - inversion H; subst. auto.
Qed.

Lemma isInitialNameChar_cur st : isInitialNameChar (cur st) = true ->
  at_end st = false /\ cur st <> 10%N.
Proof.
  intros H. split.
  - unfold at_end, cur in *. destruct (rest st); [vm_compute in H; discriminate|reflexivity].
  - intros E. rewrite E in H. vm_compute in H. discriminate.
Qed.

Lemma parseTypeName_facts st st' r : parseTypeName st = (st', r) ->
  line st' = line st /\ lstart st' = lstart st /\ pos st <= pos st' /\ (r = No -> st' = st).
Proof.
  intros H. unfold parseTypeName in H.
  destruct (isInitialNameChar (cur st)) eqn:I; [|inversion H; subst; auto].
  destruct (isInitialNameChar_cur _ I) as [AE NL].
  destruct (namechars_loop (fuel_of st) (advance st)) as [s2|] eqn:E; [|inversion H; subst; auto].
  destruct (namechars_loop_same_line _ _ _ E) as [L1 L2].
  destruct (advance_same_line st NL) as [L3 L4].
  pose proof (advance_pos_lt st AE) as P.
  pose proof (ext_pos _ _ (namechars_loop_ext _ _ _ _ (ext_refl _) E)) as P2.
  destruct (Nat.ltb (pos st) (pos s2)) eqn:LT; inversion H; subst.
  - repeat split; try congruence; try lia.
  - apply Nat.ltb_ge in LT. lia.
Qed.

Lemma parseSliceAccessor_no st st' : parseSliceAccessor st = (st', No) -> st' = st.
Proof.
  intros H. unfold parseSliceAccessor in H.
  destruct (parseTypeName st) as [s1 r1] eqn:E1.
  destruct (parseTypeName_facts _ _ _ E1) as (_ & _ & _ & Hno).
  destruct r1 as [id| |e]; [|inversion H; subst; auto|discriminate].
  case_go H; reflexivity.
Qed.

(* parseTypeAndMember reports column - 1 (the '$' or '&' in front of the type):
   in range when the column is at least 2 *)
Lemma parseTypeAndMember_pos inp s s' r :
  wf inp s -> lstart s < pos s -> parseTypeAndMember s = (s', r) -> wf inp s' /\ err_ok inp r.
Proof.
  intros W C H. unfold parseTypeAndMember in H.
  destruct (parseTypeName s) as [s1 r1] eqn:E1.
  destruct (parseTypeName_facts _ _ _ E1) as (L1 & L2 & P & _).
  pos_go inp H.
  (* the one remaining case: EUnqualified at (line s2, colNum s - 1) *)
  unfold err_ok, errorAt. cbn [positioned eline ecol]. intros _.
  apply negb_true_iff in Heqb. subst r0.
  unfold done in E. apply skipChar_false in E. subst s'.
  apply wf_good; [assumption|]. unfold colNum. lia.
Qed.

Ltac pos_hook inp E ::=
  lazymatch type of E with
  | parseTypeAndMember ?s = (?s1, ?r) =>
      let Hs := fresh "Hs" in
      assert (Hs : wf inp s) by (eauto 3 with posdb);
      let Hc := fresh "Hc" in
      assert (Hc : lstart s < pos s) by
        (repeat match goal with
                | E' : done (parseSliceAccessor _ = (_, No)) |- _ =>
                    unfold done in E'; apply parseSliceAccessor_no in E'; subst
                end;
         match goal with
         | E' : done (skipChar ?c ?s0 = (_, true)) |- _ =>
             apply (skipChar_true_col inp c s0); [eauto 3 with posdb|exact E'|discriminate]
         end);
      let Hw := fresh "Hw" in let He := fresh "He" in
      destruct (parseTypeAndMember_pos inp s s1 r Hs Hc E) as [Hw He]; clear Hs
  end.

#[export] Instance parseTargetType_pos : PosFn parseTargetType.
Proof. intros inp s s' r W H. unfold parseTargetType in H. pos_go inp H. Qed.

#[export] Instance parseInputMemberAccessor_pos : PosFn parseInputMemberAccessor.
Proof. intros inp s s' r W H. unfold parseInputMemberAccessor in H. pos_go inp H. Qed.

(* ------------------------------------------------------------- parseList -- *)

Section ParseListPos.
  Context {T : Type} (parseFn : pstate -> pstate * res T).
  Context (parseFn_pos : PosFn parseFn).

  Lemma parseList_loop_pos fuel : forall cp first acc inp s s' r,
    wf inp cp -> wf inp s -> parseList_loop parseFn fuel cp first acc s = (s', r) ->
    wf inp s' /\ err_ok inp r.
  Proof using parseFn_pos.
    induction fuel as [|f IH]; intros cp first acc inp s s' r Wcp W H; simpl in H.
    - inversion H; subst. split; [assumption|cbn; discriminate].
    - pos_go inp H. all: try (refine (IH _ _ _ _ _ _ _ _ _ H); eauto 3 with posdb).
  Qed.

  #[export] Instance parseList_pos : PosFn (parseList parseFn).
  Proof using parseFn_pos.
    intros inp s s' r W H. unfold parseList in H. pos_go inp H.
    all: try (refine (parseList_loop_pos _ _ _ _ _ _ _ _ _ _ H); eauto 3 with posdb).
  Qed.
End ParseListPos.

(* ----------------------------------------------------------- expressions -- *)

#[export] Instance parseColumns_pos : PosFn parseColumns.
Proof. intros inp s s' r W H. unfold parseColumns, is_fuel_err in H. pos_go inp H. Qed.

#[export] Instance parseTargetTypes_pos : PosFn parseTargetTypes.
Proof. intros inp s s' r W H. unfold parseTargetTypes in H. pos_go inp H. Qed.

#[export] Instance parseOutputExpr_pos : PosFn parseOutputExpr.
Proof. intros inp s s' r W H. unfold parseOutputExpr in H. pos_go inp H. Qed.

#[export] Instance parseSliceInputExpr_pos : PosFn parseSliceInputExpr.
Proof. intros inp s s' r W H. unfold parseSliceInputExpr in H. pos_go inp H. Qed.

#[export] Instance parseMemberInputExpr_pos : PosFn parseMemberInputExpr.
Proof. intros inp s s' r W H. unfold parseMemberInputExpr in H. pos_go inp H. Qed.

#[export] Instance parseComplexInsertValues_pos : PosFn parseComplexInsertValues.
Proof. intros inp s s' r W H. unfold parseComplexInsertValues, is_fuel_err in H. pos_go inp H. Qed.

#[export] Instance parseAsteriskInsertExpr_pos : PosFn parseAsteriskInsertExpr.
Proof. intros inp s s' r W H. unfold parseAsteriskInsertExpr in H. pos_go inp H. Qed.

Lemma basicvals_loop_pos fuel : forall cp ip acc inp s s' r,
  wf inp cp -> wf inp s -> basicvals_loop fuel cp ip acc s = (s', r) -> wf inp s' /\ err_ok inp r.
Proof.
  induction fuel as [|f IH]; intros cp ip acc inp s s' r Wcp W H; simpl in H.
  - inversion H; subst. split; [assumption|cbn; discriminate].
  - pos_go inp H. all: try (refine (IH _ _ _ _ _ _ _ _ _ H); eauto 3 with posdb).
Qed.

#[export] Instance parseBasicInsertValues_pos : PosFn parseBasicInsertValues.
Proof.
  intros inp s s' r W H. unfold parseBasicInsertValues, is_fuel_err in H. pos_go inp H.
  all: try (refine (basicvals_loop_pos _ _ _ _ _ _ _ _ _ _ H); eauto 3 with posdb).
Qed.

#[export] Instance parseInsertExpr_pos : PosFn parseInsertExpr.
Proof. intros inp s s' r W H. unfold parseInsertExpr, is_fuel_err in H. pos_go inp H. Qed.

#[export] Instance parseInputExpr_pos : PosFn parseInputExpr.
Proof. intros inp s s' r W H. unfold parseInputExpr in H. pos_go inp H. Qed.

#[export] Instance advance_loop_pos fuel : PosFn (advance_loop fuel).
Proof.
  induction fuel as [|f IH]; intros inp s s' r W H; simpl in H.
  - inversion H; subst. split; [assumption|cbn; discriminate].
  - pos_go inp H. all: try (eapply IH; [|exact H]; eauto 3 with posdb).
Qed.

#[export] Instance advanceToNextExpression_pos : PosFn advanceToNextExpression.
Proof. intros inp s s' r W H. unfold advanceToNextExpression in H. pos_go inp H. Qed.

(* ------------------------------------------------------------ main loop -- *)

Lemma parse_loop_pos fuel : forall inp prev acc st,
  wf inp st -> err_ok inp (parse_loop fuel prev acc st).
Proof.
  induction fuel as [|f IH]; intros inp prev acc st W; cbn [parse_loop].
  - cbn. discriminate.
  - destruct (advanceToNextExpression st) as [st1 r1] eqn:A.
    destruct (pos_prf (f:=advanceToNextExpression) _ _ _ _ W A) as [W1 E1].
    assert (G : err_ok inp
      (if at_end st1 then Ok (add_bypass prev st1 acc)
       else match parseOutputExpr st1 with
            | (_, Err e) => Err e
            | (st2, Ok out) => parse_loop f st2 (add_bypass prev st1 acc ++ [out]) st2
            | (st2, No) =>
                match parseInputExpr st2 with
                | (_, Err e) => Err e
                | (st3, Ok inp) => parse_loop f st3 (add_bypass prev st1 acc ++ [inp]) st3
                | (st3, No) => parse_loop f prev acc (advance st3)
                end
            end)).
    { destruct (at_end st1); [exact I|].
      destruct (parseOutputExpr st1) as [st2 r2] eqn:O.
      destruct (pos_prf (f:=parseOutputExpr) _ _ _ _ W1 O) as [W2 E2].
      destruct r2 as [out| |e]; [apply IH; assumption| |exact E2].
      destruct (parseInputExpr st2) as [st3 r3] eqn:P.
      destruct (pos_prf (f:=parseInputExpr) _ _ _ _ W2 P) as [W3 E3].
      destruct r3 as [ie| |e]; [apply IH; assumption| |exact E3].
      apply IH. auto with posdb. }
    destruct r1; [exact G|exact G|exact E1].
Qed.

Theorem parse_error_in_range (inp : str) (e : perr) :
  parse inp = Err e -> positioned e = true ->
  1 <= ecol e /\ 1 <= eline e /\ eline e <= nlines inp /\
  ecol e <= length (nth (eline e - 1) (lines_of inp) []) + 1.
Proof.
  intros H P. unfold parse in H.
  pose proof (parse_loop_pos (fuel_of (init inp)) inp (init inp) [] (init inp) (wf_init inp)) as G.
  rewrite H in G. exact (G P).
Qed.
