(* C18 - no panic, crash or hang: neither Prepare (bind_types) nor Query
   (bind_inputs) can return the model's "internal error" (EInternal) or run
   out of the fuel that stands for the Go recursion (EModelFuel). *)
From SQLair.Base Require Import Bytes.
From SQLair.Model Require Import GenConsts Reflect TypeInfo Parser Bind.
From SQLair.Proofs Require Import BindFacts.

(* ------------------------------------------------------------ noint -- *)

Definition is_ok {A} (r : bres A) : bool := match r with BOk _ => true | BErr _ => false end.
Definition err_of {A} (r : bres A) : option berr := match r with BOk _ => None | BErr e => Some e end.
Definition ok_or {A} (d : A) (r : bres A) : A := match r with BOk a => a | BErr _ => d end.

Definition noint {A} (r : bres A) : Prop := r <> BErr EInternal /\ r <> BErr EModelFuel.

Lemma noint_ok {A} (a : A) : noint (BOk a).
Proof. split; discriminate. Qed.

Lemma noint_err {A} e : e <> EInternal -> e <> EModelFuel -> noint (@BErr A e).
Proof. intros H1 H2. split; intros H; inversion H; congruence. Qed.

Lemma noint_bbind {A B} (r : bres A) (k : A -> bres B) :
  noint r -> (forall a, r = BOk a -> noint (k a)) -> noint (bbind r k).
Proof.
  intros [H1 H2] K. destruct r as [a|e]; cbn [bbind].
  - apply K. reflexivity.
  - split; intros H; inversion H; subst; congruence.
Qed.

Ltac ni_step :=
  match goal with
  | |- noint (BOk _) => apply noint_ok
  | |- noint (BErr _) => apply noint_err; discriminate
  | |- noint (bbind _ _) => apply noint_bbind; [ | intros ? ? ]
  | |- noint (match ?x with _ => _ end) => destruct x eqn:?
  end.

(* ------------------------------------------------ C18 (a): no hang -- *)

Lemma parse_tag_noint tag : noint (parse_tag tag).
Proof. unfold parse_tag. repeat ni_step. Qed.

(* pigeonhole: a duplicate-free list of numbers below n has at most n elements *)
Lemma nodup_below_length (l : list nat) n :
  NoDup l -> Forall (fun i => i < n) l -> length l <= n.
Proof.
  intros ND F. rewrite <- (seq_length n 0). apply NoDup_incl_length; [exact ND|].
  intros x Hx. rewrite Forall_forall in F. apply F in Hx. apply in_seq. lia.
Qed.

Lemma existsb_eqb_false_notin x (l : list nat) : existsb (Nat.eqb x) l = false -> ~ In x l.
Proof.
  intros H HI. assert (existsb (Nat.eqb x) l = true) as T.
  { apply existsb_exists. exists x. split; [exact HI|apply Nat.eqb_refl]. }
  congruence.
Qed.

Lemma tget_struct_lt env t : t_kind (tget env t) = KStruct -> t < length env.
Proof.
  intros H. destruct (Nat.lt_ge_cases t (length env)) as [L|G]; [exact L|].
  unfold tget in H. rewrite nth_overflow in H by exact G. discriminate.
Qed.

(* the general statement: with a duplicate-free chain of valid type ids being
   expanded and more fuel than types outside the chain, the fuel is never
   exhausted, and no internal error is produced either *)
Lemma get_struct_fields_noint : forall fuel env embedding st,
  NoDup embedding -> Forall (fun i => i < length env) embedding ->
  length env < fuel + length embedding ->
  noint (get_struct_fields fuel env embedding st).
Proof.
  induction fuel as [|fuel IH]; intros env embedding st ND F L.
  - exfalso. pose proof (nodup_below_length _ _ ND F). lia.
  - cbn [get_struct_fields].
    destruct (existsb (Nat.eqb st) embedding) eqn:EX; [ni_step|].
    destruct (Nat.lt_ge_cases st (length env)) as [Lt|Ge].
    + assert (forall st', t_kind (tget env st') = KStruct ->
                noint (get_struct_fields fuel env (embedding ++ [st]) st')) as REC.
      { intros st' K. apply IH.
        - apply NoDup_app_single; [exact ND|apply existsb_eqb_false_notin; exact EX].
        - apply Forall_app. split; [exact F|constructor; [exact Lt|constructor]].
        - rewrite app_length. simpl. lia. }
      generalize 0. generalize (t_fields (tget env st)).
      induction l as [|f fs IHfs]; intros i.
      * ni_step.
      * specialize (IHfs (S i)).
        destruct (f_anon f) eqn:An; destruct (f_tag f) as [|c tg] eqn:Tg.
        -- destruct (negb (f_exported f)); [exact IHfs|].
           destruct (t_kind (tget env (match t_kind (tget env (f_type f)) with
                                       | KPtr => t_elem (tget env (f_type f))
                                       | _ => f_type f end))) eqn:K; try exact IHfs.
           apply noint_bbind; [apply REC; exact K|]. intros nested _.
           apply noint_bbind; [exact IHfs|]. intros r _. ni_step.
        -- destruct (negb (f_exported f)); [ni_step|].
           apply noint_bbind; [apply parse_tag_noint|]. intros [name omit] _.
           apply noint_bbind; [exact IHfs|]. intros r _. ni_step.
        -- exact IHfs.
        -- destruct (negb (f_exported f)); [ni_step|].
           apply noint_bbind; [apply parse_tag_noint|]. intros [name omit] _.
           apply noint_bbind; [exact IHfs|]. intros r _. ni_step.
    + assert (tget env st = dummy_tdef) as -> by (unfold tget; apply nth_overflow; exact Ge).
      cbn. ni_step.
Qed.

Lemma get_struct_fields_top_noint env t :
  noint (get_struct_fields (S (length env)) env [] t).
Proof. apply get_struct_fields_noint; [constructor|constructor|simpl; lia]. Qed.

Theorem get_struct_fields_terminates env t :
  get_struct_fields (S (length env)) env [] t <> BErr EModelFuel.
Proof. apply get_struct_fields_top_noint. Qed.

Theorem get_arg_info_no_fuel env t : get_arg_info env t <> BErr EModelFuel.
Proof.
  unfold get_arg_info. destruct (t_kind (tget env t)); try discriminate.
  - pose proof (get_struct_fields_top_noint env t) as [_ H].
    destruct (get_struct_fields (S (length env)) env [] t) as [fs|e]; cbn [bbind].
    + destruct (has_dup_tag [] fs); discriminate.
    + intros E. apply H. inversion E. reflexivity.
  - destruct (t_keystr (tget env t)); discriminate.
Qed.

Definition container_kind (k : kind) : bool :=
  match k with KStruct | KMap | KSlice => true | _ => false end.

Lemma get_arg_info_noint env t :
  container_kind (t_kind (tget env t)) = true -> noint (get_arg_info env t).
Proof.
  unfold get_arg_info. intros K.
  destruct (t_kind (tget env t)); try discriminate K.
  - apply noint_bbind; [apply get_struct_fields_top_noint|]. intros fs _. repeat ni_step.
  - repeat ni_step.
  - ni_step.
Qed.

(* ------------------------------------------- C18 (b): Prepare -- *)

Lemma generate_arg_info_noint env samples : forall acc, noint (generate_arg_info env samples acc).
Proof.
  induction samples as [|s rest IH]; intros acc; cbn [generate_arg_info].
  - ni_step.
  - destruct s as [t|]; [|ni_step].
    destruct (t_kind (tget env t)) eqn:K; [ | | |ni_step|ni_step];
      (destruct (t_name (tget env t)) as [|c nm]; [ni_step|];
       apply noint_bbind; [apply get_arg_info_noint; rewrite K; reflexivity|];
       intros info _; destruct (assoc_str (c :: nm) acc);
       [destruct (Nat.eqb (ai_type a) t); ni_step|apply IH]).
Qed.

(* inversion of a successful monadic computation *)
Ltac binv H :=
  repeat match type of H with
  | bbind ?r _ = BOk _ =>
      let E := fresh "E" in destruct r eqn:E; cbn [bbind] in H; [|discriminate H]
  | BErr _ = BOk _ => discriminate H
  | match ?x with _ => _ end = BOk _ =>
      let E := fresh "C" in destruct x eqn:E; try discriminate H
  end.

Ltac bok H := inversion H; subst; clear H.

(* what the helpers of the typed-expression builder leave alone *)
Definition frame (b b1 : teb) : Prop := b_infos b1 = b_infos b /\ b_exprs b1 = b_exprs b.

Lemma frame_refl b : frame b b.
Proof. split; reflexivity. Qed.

Lemma frame_trans b1 b2 b3 : frame b1 b2 -> frame b2 b3 -> frame b1 b3.
Proof. intros [A1 A2] [B1 B2]. split; congruence. Qed.

Definition notslice (l : locator) : Prop := match l with LSlice _ => False | _ => True end.

Lemma get_arg_inv b n b1 a :
  get_arg b n = BOk (b1, a) ->
  assoc_str n (b_infos b) = Some a /\
  b1 = {| b_infos := b_infos b; b_used := n :: b_used b; b_outused := b_outused b;
          b_exprs := b_exprs b |}.
Proof.
  unfold get_arg. intros H. destruct (assoc_str n (b_infos b)); [|discriminate].
  bok H. split; reflexivity.
Qed.

Lemma get_arg_frame b n b1 a : get_arg b n = BOk (b1, a) -> frame b b1.
Proof. intros H. apply get_arg_inv in H. destruct H as [_ ->]. split; reflexivity. Qed.

Lemma get_arg_noint b n : noint (get_arg b n).
Proof. unfold get_arg. repeat ni_step. Qed.

Lemma get_member_noint a m : noint (get_member a m).
Proof. unfold get_member. repeat ni_step. Qed.

Lemma get_member_notslice a m l : get_member a m = BOk l -> notslice l.
Proof. unfold get_member. intros H. binv H; bok H; exact I. Qed.

Lemma get_all_noint a : noint (get_all_struct_members a).
Proof. unfold get_all_struct_members. repeat ni_step. Qed.

Lemma all_members_notslice fields tags :
  Forall (fun p : str * locator => notslice (snd p))
    (flat_map (fun tag => match find_tag tag fields with
                          | Some f => [(tag, LField f)]
                          | None => []
                          end) tags).
Proof.
  apply Forall_forall. intros [tag loc] HI. apply in_flat_map in HI.
  destruct HI as [tg [_ HI]]. destruct (find_tag tg fields); [|destruct HI].
  destruct HI as [HI|[]]. inversion HI; subst. exact I.
Qed.

Lemma get_all_notslice a ms :
  get_all_struct_members a = BOk ms -> Forall (fun p => notslice (snd p)) ms.
Proof.
  unfold get_all_struct_members. intros H. destruct a as [t tags fields| |]; try discriminate.
  destruct tags as [|tg tags]; [discriminate|]. injection H as <-. exact (all_members_notslice fields (tg :: tags)).
Qed.

Lemma get_slice_noint a : noint (get_slice a).
Proof. unfold get_slice. repeat ni_step. Qed.

Lemma input_member_noint b t m : noint (input_member b t m).
Proof.
  unfold input_member. apply noint_bbind; [apply get_arg_noint|]. intros [b1 a] _.
  apply noint_bbind; [apply get_member_noint|]. intros l _. ni_step.
Qed.

Lemma input_member_inv b t m b1 l :
  input_member b t m = BOk (b1, l) -> frame b b1 /\ notslice l.
Proof.
  unfold input_member. intros H. binv H. bok H. split.
  - eapply get_arg_frame; eassumption.
  - eapply get_member_notslice; eassumption.
Qed.

Lemma mark_output_noint env b l : noint (mark_output env b l).
Proof. unfold mark_output. repeat ni_step. Qed.

Lemma mark_output_frame env b l b1 : mark_output env b l = BOk b1 -> frame b b1.
Proof. unfold mark_output. intros H. binv H. bok H. split; reflexivity. Qed.

Lemma mark_outputs_noint env ms : forall b, noint (mark_outputs env b ms).
Proof.
  induction ms as [|[tag l] ms IH]; intros b; cbn [mark_outputs]; [ni_step|].
  apply noint_bbind; [apply mark_output_noint|]. intros b' _. apply IH.
Qed.

Lemma mark_outputs_frame env ms : forall b b1, mark_outputs env b ms = BOk b1 -> frame b b1.
Proof.
  induction ms as [|[tag l] ms IH]; intros b b1 H; cbn [mark_outputs] in H.
  - bok H. apply frame_refl.
  - binv H. eapply frame_trans; [eapply mark_output_frame; eassumption|apply IH; exact H].
Qed.

Lemma output_member_noint env b t m : noint (output_member env b t m).
Proof.
  unfold output_member. apply noint_bbind; [apply get_arg_noint|]. intros [b1 a] _.
  apply noint_bbind; [apply get_member_noint|]. intros l Hl.
  apply get_member_notslice in Hl.
  destruct l; [| |destruct Hl];
    (apply noint_bbind; [apply mark_output_noint|]; intros b2 _; ni_step).
Qed.

Lemma output_member_frame env b t m b1 l : output_member env b t m = BOk (b1, l) -> frame b b1.
Proof.
  unfold output_member. intros H. binv H; bok H;
    (eapply frame_trans; [eapply get_arg_frame; eassumption|eapply mark_output_frame; eassumption]).
Qed.

Lemma all_struct_inputs_noint b t : noint (all_struct_inputs b t).
Proof.
  unfold all_struct_inputs. apply noint_bbind; [apply get_arg_noint|]. intros [b1 a] _.
  apply noint_bbind; [apply get_all_noint|]. intros ms _. ni_step.
Qed.

Lemma all_struct_inputs_inv b t b1 ms :
  all_struct_inputs b t = BOk (b1, ms) -> frame b b1 /\ Forall (fun p => notslice (snd p)) ms.
Proof.
  unfold all_struct_inputs. intros H. binv H. bok H. split.
  - eapply get_arg_frame; eassumption.
  - eapply get_all_notslice; eassumption.
Qed.

Lemma all_struct_outputs_noint env b t : noint (all_struct_outputs env b t).
Proof.
  unfold all_struct_outputs. apply noint_bbind; [apply get_arg_noint|]. intros [b1 a] _.
  apply noint_bbind; [apply get_all_noint|]. intros ms _.
  apply noint_bbind; [apply mark_outputs_noint|]. intros b2 _. ni_step.
Qed.

Lemma all_struct_outputs_frame env b t b1 ms :
  all_struct_outputs env b t = BOk (b1, ms) -> frame b b1.
Proof.
  unfold all_struct_outputs. intros H. binv H. bok H.
  eapply frame_trans; [eapply get_arg_frame; eassumption|eapply mark_outputs_frame; eassumption].
Qed.

Lemma input_slice_noint b t : noint (input_slice b t).
Proof.
  unfold input_slice. apply noint_bbind; [apply get_arg_noint|]. intros [b1 a] _.
  apply noint_bbind; [apply get_slice_noint|]. intros l _. ni_step.
Qed.

Lemma input_slice_frame b t b1 l : input_slice b t = BOk (b1, l) -> frame b b1.
Proof. unfold input_slice. intros H. binv H. bok H. eapply get_arg_frame; eassumption. Qed.

Lemma teb_kind_noint env b t : noint (teb_kind env b t).
Proof.
  unfold teb_kind. apply noint_bbind; [apply get_arg_noint|]. intros [b1 a] _. ni_step.
Qed.

Lemma teb_kind_frame env b t b1 k : teb_kind env b t = BOk (b1, k) -> frame b b1.
Proof. unfold teb_kind. intros H. binv H. bok H. eapply get_arg_frame; eassumption. Qed.

(* insert columns never carry a slice locator *)
Definition wf_tcol (c : tcol) : Prop :=
  match c with TCIns l _ _ => notslice l | TCLit _ _ => True end.

Definition wf_texpr (e : texpr) : Prop :=
  match e with TInsert cols => Forall wf_tcol cols | _ => True end.

Lemma asterisk_sources_noint sources : forall b cols, noint (asterisk_sources b sources cols).
Proof.
  induction sources as [|s rest IH]; intros b cols; cbn [asterisk_sources]; [ni_step|].
  destruct (is_star (mname s)).
  - apply noint_bbind; [apply all_struct_inputs_noint|]. intros [b1 ms] _. apply IH.
  - apply noint_bbind; [apply input_member_noint|]. intros [b1 l] _. apply IH.
Qed.

Lemma asterisk_sources_inv sources : forall b cols b1 cols1,
  asterisk_sources b sources cols = BOk (b1, cols1) ->
  Forall wf_tcol cols -> frame b b1 /\ Forall wf_tcol cols1.
Proof.
  induction sources as [|s rest IH]; intros b cols b1 cols1 H W; cbn [asterisk_sources] in H.
  - bok H. split; [apply frame_refl|exact W].
  - destruct (is_star (mname s)); binv H.
    + apply all_struct_inputs_inv in E. destruct E as [F N].
      apply IH in H.
      * destruct H as [F' W']. split; [eapply frame_trans; eassumption|exact W'].
      * apply Forall_app. split; [exact W|]. apply Forall_forall. intros c HI.
        apply in_map_iff in HI. destruct HI as [[tag l'] [<- HI]].
        rewrite Forall_forall in N. apply (N _ HI).
    + apply input_member_inv in E. destruct E as [F N].
      apply IH in H.
      * destruct H as [F' W']. split; [eapply frame_trans; eassumption|exact W'].
      * apply Forall_app. split; [exact W|]. constructor; [exact N|constructor].
Qed.

(* the colToInput map: every stored list is non-empty and slice free *)
Definition c2i_ok (m : c2i) : Prop :=
  Forall (fun kv => snd kv <> [] /\ Forall notslice (snd kv)) m.

Lemma c2i_get_ok m k v : c2i_ok m -> c2i_get m k = Some v -> v <> [] /\ Forall notslice v.
Proof.
  induction m as [|[k' v'] m IH]; intros OK H; cbn [c2i_get] in H; [discriminate|].
  inversion OK; subst. destruct (str_eqb k k').
  - bok H. assumption.
  - apply IH; assumption.
Qed.

Lemma c2i_set_ok m k v : c2i_ok m -> v <> [] -> Forall notslice v -> c2i_ok (c2i_set m k v).
Proof.
  induction m as [|[k' v'] m IH]; intros OK NE NS; cbn [c2i_set].
  - constructor; [split; assumption|constructor].
  - inversion OK; subst. destruct (str_eqb k k').
    + constructor; [split; assumption|assumption].
    + constructor; [assumption|apply IH; assumption].
Qed.

Lemma c2i_append_ok m k l : c2i_ok m -> notslice l -> c2i_ok (c2i_append m k l).
Proof.
  intros OK NS. unfold c2i_append. destruct (c2i_get m k) as [v|] eqn:G.
  - destruct (c2i_get_ok _ _ _ OK G) as [NE NSv]. apply c2i_set_ok; [exact OK| |].
    + destruct v; discriminate.
    + apply Forall_app. split; [exact NSv|constructor; [exact NS|constructor]].
  - apply c2i_set_ok; [exact OK|discriminate|constructor; [exact NS|constructor]].
Qed.

Lemma c2i_fold_ok ms : forall m,
  c2i_ok m -> Forall (fun p : str * locator => notslice (snd p)) ms ->
  c2i_ok (fold_left (fun acc '(tag, l) => c2i_append acc tag l) ms m).
Proof.
  induction ms as [|[tag l] ms IH]; intros m OK N; cbn [fold_left]; [exact OK|].
  inversion N; subst. apply IH; [apply c2i_append_ok; assumption|assumption].
Qed.

Lemma columns_sources_noint env sources : forall b m rm, noint (columns_sources env b sources m rm).
Proof.
  induction sources as [|s rest IH]; intros b m rm; cbn [columns_sources]; [ni_step|].
  destruct (is_star (mname s)).
  - apply noint_bbind; [apply teb_kind_noint|]. intros [b1 k] _.
    destruct k; try (apply noint_bbind; [apply all_struct_inputs_noint|]; intros [b2 ms] _; apply IH).
    destruct rm; [ni_step|apply IH].
  - apply noint_bbind; [apply input_member_noint|]. intros [b1 l] _. apply IH.
Qed.

Lemma columns_sources_inv env sources : forall b m rm b1 m1 rm1,
  columns_sources env b sources m rm = BOk (b1, (m1, rm1)) ->
  c2i_ok m -> frame b b1 /\ c2i_ok m1.
Proof.
  induction sources as [|s rest IH]; intros b m rm b1 m1 rm1 H OK; cbn [columns_sources] in H.
  - bok H. split; [apply frame_refl|exact OK].
  - destruct (is_star (mname s)).
    + destruct (teb_kind env b (tname s)) as [[b2 k]|e] eqn:TK; cbn [bbind] in H; [|discriminate].
      apply teb_kind_frame in TK.
      assert (forall (H : bbind (all_struct_inputs b2 (tname s)) (fun '(b3, ms) =>
                 columns_sources env b3 rest
                   (fold_left (fun acc '(tag, l) => c2i_append acc tag l) ms m) rm)
                 = BOk (b1, (m1, rm1))), frame b b1 /\ c2i_ok m1) as GEN.
      { intros H'. binv H'. apply all_struct_inputs_inv in E. destruct E as [F N].
        apply IH in H'; [|apply c2i_fold_ok; assumption].
        destruct H' as [F' OK']. split; [|exact OK'].
        eapply frame_trans; [exact TK|]. eapply frame_trans; eassumption. }
      destruct k; try (apply GEN; exact H).
      destruct rm; [discriminate|]. apply IH in H; [|exact OK].
      destruct H as [F' OK']. split; [eapply frame_trans; eassumption|exact OK'].
    + binv H. apply input_member_inv in E. destruct E as [F N].
      apply IH in H.
      * destruct H as [F' OK']. split; [eapply frame_trans; eassumption|exact OK'].
      * apply c2i_set_ok; [exact OK|discriminate|constructor; [exact N|constructor]].
Qed.

Lemma columns_match_noint columns m rm : c2i_ok m ->
  forall b cols, noint (columns_match b columns m rm cols).
Proof.
  intros OK. induction columns as [|c rest IH]; intros b cols; cbn [columns_match]; [ni_step|].
  destruct (c2i_get m (columnString c)) as [input|] eqn:G.
  - destruct (c2i_get_ok _ _ _ OK G) as [NE _].
    destruct input as [|l [|l2 input]]; [congruence|apply IH|ni_step].
  - destruct rm as [mapName|]; [|ni_step].
    apply noint_bbind; [apply input_member_noint|]. intros [b1 l] _. apply IH.
Qed.

Lemma columns_match_inv columns m rm : c2i_ok m ->
  forall b cols b1 cols1,
  columns_match b columns m rm cols = BOk (b1, cols1) ->
  Forall wf_tcol cols -> frame b b1 /\ Forall wf_tcol cols1.
Proof.
  intros OK. induction columns as [|c rest IH]; intros b cols b1 cols1 H W; cbn [columns_match] in H.
  - bok H. split; [apply frame_refl|exact W].
  - destruct (c2i_get m (columnString c)) as [input|] eqn:G.
    + destruct (c2i_get_ok _ _ _ OK G) as [_ NS].
      destruct input as [|l [|l2 input]]; try discriminate.
      apply IH in H; [exact H|]. apply Forall_app. split; [exact W|].
      inversion NS; subst. constructor; [assumption|constructor].
    + destruct rm as [mapName|]; [|discriminate]. binv H.
      apply input_member_inv in E. destruct E as [F N].
      apply IH in H.
      * destruct H as [F' W']. split; [eapply frame_trans; eassumption|exact W'].
      * apply Forall_app. split; [exact W|]. constructor; [exact N|constructor].
Qed.

Lemma basic_sources_noint columns : forall sources b cols, noint (basic_sources b columns sources cols).
Proof.
  induction columns as [|c crest IH]; intros sources b cols; cbn [basic_sources]; [ni_step|].
  destruct sources as [|[ma|lit] srest]; [ni_step| |apply IH].
  apply noint_bbind; [apply input_member_noint|]. intros [b1 l] _. apply IH.
Qed.

Lemma basic_sources_inv columns : forall sources b cols b1 cols1,
  basic_sources b columns sources cols = BOk (b1, cols1) ->
  Forall wf_tcol cols -> frame b b1 /\ Forall wf_tcol cols1.
Proof.
  induction columns as [|c crest IH]; intros sources b cols b1 cols1 H W; cbn [basic_sources] in H.
  - bok H. split; [apply frame_refl|exact W].
  - destruct sources as [|[ma|lit] srest].
    + bok H. split; [apply frame_refl|exact W].
    + binv H. apply input_member_inv in E. destruct E as [F N].
      apply IH in H.
      * destruct H as [F' W']. split; [eapply frame_trans; eassumption|exact W'].
      * apply Forall_app. split; [exact W|]. constructor; [exact N|constructor].
    + apply IH in H; [exact H|].
      apply Forall_app. split; [exact W|]. constructor; [exact I|constructor].
Qed.

Lemma output_generated_noint env pref targets : forall b ocs, noint (output_generated env b pref targets ocs).
Proof.
  induction targets as [|t rest IH]; intros b ocs; cbn [output_generated]; [ni_step|].
  destruct (is_star (mname t)).
  - apply noint_bbind; [apply all_struct_outputs_noint|]. intros [b1 ms] _. apply IH.
  - apply noint_bbind; [apply output_member_noint|]. intros [b1 l] _. apply IH.
Qed.

Lemma output_generated_frame env pref targets : forall b ocs b1 ocs1,
  output_generated env b pref targets ocs = BOk (b1, ocs1) -> frame b b1.
Proof.
  induction targets as [|t rest IH]; intros b ocs b1 ocs1 H; cbn [output_generated] in H.
  - bok H. apply frame_refl.
  - destruct (is_star (mname t)); binv H.
    + eapply frame_trans; [eapply all_struct_outputs_frame; eassumption|eapply IH; eassumption].
    + eapply frame_trans; [eapply output_member_frame; eassumption|eapply IH; eassumption].
Qed.

Lemma output_into_star_noint env tn cols : forall b ocs, noint (output_into_star env b tn cols ocs).
Proof.
  induction cols as [|c rest IH]; intros b ocs; cbn [output_into_star]; [ni_step|].
  apply noint_bbind; [apply output_member_noint|]. intros [b1 l] _. apply IH.
Qed.

Lemma output_into_star_frame env tn cols : forall b ocs b1 ocs1,
  output_into_star env b tn cols ocs = BOk (b1, ocs1) -> frame b b1.
Proof.
  induction cols as [|c rest IH]; intros b ocs b1 ocs1 H; cbn [output_into_star] in H.
  - bok H. apply frame_refl.
  - binv H. eapply frame_trans; [eapply output_member_frame; eassumption|eapply IH; eassumption].
Qed.

Lemma output_pairwise_noint env cols : forall targets b ocs, noint (output_pairwise env b cols targets ocs).
Proof.
  induction cols as [|c crest IH]; intros targets b ocs; cbn [output_pairwise]; [ni_step|].
  destruct targets as [|t trest]; [ni_step|].
  apply noint_bbind; [apply output_member_noint|]. intros [b1 l] _. apply IH.
Qed.

Lemma output_pairwise_frame env cols : forall targets b ocs b1 ocs1,
  output_pairwise env b cols targets ocs = BOk (b1, ocs1) -> frame b b1.
Proof.
  induction cols as [|c crest IH]; intros targets b ocs b1 ocs1 H; cbn [output_pairwise] in H.
  - bok H. apply frame_refl.
  - destruct targets as [|t trest]; [bok H; apply frame_refl|].
    binv H. eapply frame_trans; [eapply output_member_frame; eassumption|eapply IH; eassumption].
Qed.

Lemma c2i_ok_nil : c2i_ok [].
Proof. constructor. Qed.

Lemma bind_expr_noint env b e : noint (bind_expr env b e).
Proof.
  destruct e; cbn [bind_expr].
  - ni_step.
  - apply noint_bbind; [apply input_member_noint|]. intros [b1 l] _. ni_step.
  - apply noint_bbind; [apply input_slice_noint|]. intros [b1 l] _. ni_step.
  - apply noint_bbind; [apply asterisk_sources_noint|]. intros [b1 cs] _. ni_step.
  - apply noint_bbind; [apply columns_sources_noint|]. intros [b1 [m rm]] H.
    apply columns_sources_inv in H; [|apply c2i_ok_nil]. destruct H as [_ OK].
    apply noint_bbind; [apply columns_match_noint; exact OK|]. intros [b2 cs] _. ni_step.
  - destruct (negb (Nat.eqb (length cols) (length vals))); [ni_step|].
    apply noint_bbind; [apply basic_sources_noint|]. intros [b1 cs] _. ni_step.
  - repeat match goal with
    | |- noint (if ?c then _ else _) => destruct c
    end; try (apply noint_err; discriminate).
    + apply noint_bbind; [apply output_generated_noint|]. intros [b1 ocs] _. ni_step.
    + apply noint_bbind; [apply output_into_star_noint|]. intros [b1 ocs] _. ni_step.
    + apply noint_bbind; [apply output_pairwise_noint|]. intros [b1 ocs] _. ni_step.
Qed.

Lemma Forall_app_single {A} (P : A -> Prop) l x : Forall P l -> P x -> Forall P (l ++ [x]).
Proof. intros F H. apply Forall_app. split; [exact F|constructor; [exact H|constructor]]. Qed.

(* a successful bind_expr keeps the infos, appends exactly one typed expression
   and that expression is well formed *)
Lemma bind_expr_inv env b e b1 :
  bind_expr env b e = BOk b1 ->
  b_infos b1 = b_infos b /\ exists te, b_exprs b1 = b_exprs b ++ [te] /\ wf_texpr te.
Proof.
  destruct e; cbn [bind_expr]; intros H.
  - bok H. split; [reflexivity|]. eexists. split; [reflexivity|exact I].
  - binv H. bok H. apply input_member_inv in E. destruct E as [[F1 F2] _].
    split; [exact F1|]. eexists. cbn [add_expr b_exprs]. rewrite F2. split; [reflexivity|exact I].
  - binv H. bok H. apply input_slice_frame in E. destruct E as [F1 F2].
    split; [exact F1|]. eexists. cbn [add_expr b_exprs]. rewrite F2. split; [reflexivity|exact I].
  - binv H. bok H. apply asterisk_sources_inv in E; [|constructor]. destruct E as [[F1 F2] W].
    split; [exact F1|]. eexists. cbn [add_expr b_exprs]. rewrite F2. split; [reflexivity|exact W].
  - binv H. bok H. apply columns_sources_inv in E; [|apply c2i_ok_nil]. destruct E as [[F1 F2] OK].
    apply columns_match_inv in E0; [|exact OK|constructor]. destruct E0 as [[G1 G2] W].
    split; [cbn [add_expr b_infos]; congruence|]. eexists. cbn [add_expr b_exprs].
    rewrite G2, F2. split; [reflexivity|exact W].
  - binv H. bok H. apply basic_sources_inv in E; [|constructor]. destruct E as [[F1 F2] W].
    split; [exact F1|]. eexists. cbn [add_expr b_exprs]. rewrite F2. split; [reflexivity|exact W].
  - binv H; bok H.
    + apply output_generated_frame in E. destruct E as [F1 F2].
      split; [exact F1|]. eexists. cbn [add_expr b_exprs]. rewrite F2. split; [reflexivity|exact I].
    + apply output_into_star_frame in E. destruct E as [F1 F2].
      split; [exact F1|]. eexists. cbn [add_expr b_exprs]. rewrite F2. split; [reflexivity|exact I].
    + apply output_pairwise_frame in E. destruct E as [F1 F2].
      split; [exact F1|]. eexists. cbn [add_expr b_exprs]. rewrite F2. split; [reflexivity|exact I].
Qed.

Lemma bind_exprs_noint env es : forall b, noint (bind_exprs env b es).
Proof.
  induction es as [|e rest IH]; intros b; cbn [bind_exprs]; [ni_step|].
  apply noint_bbind; [apply bind_expr_noint|]. intros b' _. apply IH.
Qed.

Lemma bind_exprs_inv env es : forall b b1,
  bind_exprs env b es = BOk b1 ->
  Forall wf_texpr (b_exprs b) ->
  b_infos b1 = b_infos b /\ Forall wf_texpr (b_exprs b1).
Proof.
  induction es as [|e rest IH]; intros b b1 H W; cbn [bind_exprs] in H.
  - bok H. split; [reflexivity|exact W].
  - binv H. apply bind_expr_inv in E. destruct E as [I1 [te [E2 Wt]]].
    apply IH in H.
    + destruct H as [I2 W2]. split; [congruence|exact W2].
    + rewrite E2. apply Forall_app_single; assumption.
Qed.

Theorem prepare_no_internal env es samples :
  bind_types env es samples <> BErr EInternal /\ bind_types env es samples <> BErr EModelFuel.
Proof.
  change (noint (bind_types env es samples)). unfold bind_types.
  apply noint_bbind; [apply generate_arg_info_noint|]. intros infos _.
  apply noint_bbind; [apply bind_exprs_noint|]. intros b _. repeat ni_step.
Qed.

Theorem bind_types_wf env es samples tbe :
  bind_types env es samples = BOk tbe -> Forall wf_texpr tbe.
Proof.
  unfold bind_types. intros H. binv H. bok H.
  apply bind_exprs_inv in E0; [|constructor]. apply E0.
Qed.

(* --------------------------------------------- C18 (c): Query -- *)

Lemma validate_value_noint env a : noint (validate_value env a).
Proof. unfold validate_value. repeat ni_step. Qed.

Lemma validate_inputs_noint env args : forall acc, noint (validate_inputs env args acc).
Proof.
  induction args as [|a rest IH]; intros acc; cbn [validate_inputs]; [ni_step|].
  apply noint_bbind; [apply validate_value_noint|]. intros _ _.
  destruct a as [|t0 v0]; [ni_step|].
  destruct (indirect env t0 v0) as [t v].
  apply noint_bbind; [repeat ni_step|]. intros _ _.
  destruct (t2v_get acc t); [ni_step|apply IH].
Qed.

Lemma value_not_found_noint {A} env m t : noint (@BErr A (value_not_found env m t)).
Proof. unfold value_not_found. destruct (existsb _ m); ni_step. Qed.

Lemma field_of_noint f s : noint (field_of f s).
Proof. unfold field_of. repeat ni_step. Qed.

Lemma field_bulk_noint f elems : forall first omit acc, noint (field_bulk f elems first omit acc).
Proof.
  induction elems as [|e rest IH]; intros first omit acc; cbn [field_bulk]; [ni_step|].
  destruct e; try (apply noint_err; discriminate);
    (apply noint_bbind; [apply field_of_noint|]; intros v _;
     destruct (sf_omit f); [|apply IH];
     destruct (first && is_zero v); [apply IH|];
     destruct (negb (Bool.eqb (is_zero v) omit)); [ni_step|apply IH]).
Qed.

Lemma mapkey_bulk_noint key elems : forall acc, noint (mapkey_bulk key elems acc).
Proof.
  induction elems as [|e rest IH]; intros acc; cbn [mapkey_bulk]; [ni_step|].
  repeat first [apply IH | ni_step].
Qed.

Lemma locate_params_noint env l m : noint (locate_params env l m).
Proof.
  unfold locate_params.
  repeat first [apply field_bulk_noint | apply mapkey_bulk_noint | apply field_of_noint
               | apply value_not_found_noint | ni_step].
Qed.

(* a value located outside a bulk slice is exactly one value, unless the
   locator is a slice *)
Lemma locate_params_single env l m p :
  locate_params env l m = BOk p -> notslice l -> p_bulk p = false -> length (p_vals p) = 1.
Proof.
  unfold locate_params. intros H NS NB. destruct l as [f|mt key|st]; [| |destruct NS].
  - destruct (t2v_get m (sf_struct f)).
    + binv H. bok H. reflexivity.
    + binv H; bok H; discriminate NB.
  - destruct (t2v_get m mt).
    + binv H. bok H. reflexivity.
    + binv H; bok H; discriminate NB.
Qed.

Lemma bind_col_noint env m cnt c : wf_tcol c -> noint (bind_col env m cnt c).
Proof.
  intros W. destruct c as [input column explicit|column literal]; cbn [bind_col]; [|ni_step].
  apply noint_bbind; [apply locate_params_noint|]. intros p Hp.
  destruct (negb (p_bulk p) && Nat.ltb 1 (length (p_vals p))) eqn:C.
  - exfalso. apply andb_prop in C. destruct C as [C1 C2].
    apply negb_true_iff in C1. apply Nat.ltb_lt in C2.
    pose proof (locate_params_single _ _ _ _ Hp W C1). lia.
  - destruct (p_omit p && explicit); [ni_step|]. destruct (p_omit p); ni_step.
Qed.

Lemma bind_col_single env m cnt c bc cnt' :
  bind_col env m cnt c = BOk (bc, cnt') -> wf_tcol c -> bc_bulk bc = false ->
  length (bc_vals bc) <= 1.
Proof.
  destruct c as [input column explicit|column literal]; cbn [bind_col]; intros H W NB.
  - destruct (locate_params env input m) as [p|e] eqn:Hp; cbn [bbind] in H; [|discriminate].
    destruct (negb (p_bulk p) && Nat.ltb 1 (length (p_vals p))); [discriminate|].
    destruct (p_omit p && explicit); [discriminate|].
    destruct (p_omit p); bok H; cbn [bc_bulk bc_vals] in *;
      rewrite (locate_params_single _ _ _ _ Hp W NB); lia.
  - bok H. simpl. lia.
Qed.

(* every bound column has at most one value or exactly as many as there are rows *)
Definition col_ok (bulk : bool) (numRows : nat) (bc : bcol) : Prop :=
  length (bc_vals bc) <= 1 \/ (bulk = true /\ length (bc_vals bc) = numRows).

Lemma bind_cols_noint env m cols : forall cnt used bulk numRows acc,
  Forall wf_tcol cols -> noint (bind_cols env m cnt used cols bulk numRows acc).
Proof.
  induction cols as [|c rest IH]; intros cnt used bulk numRows acc W; cbn [bind_cols]; [ni_step|].
  inversion W; subst.
  apply noint_bbind; [apply bind_col_noint; assumption|]. intros [bc cnt'] _.
  destruct (bc_bulk bc); [|apply IH; assumption].
  destruct (negb bulk); [apply IH; assumption|].
  destruct (negb (Nat.eqb (length (bc_vals bc)) numRows)); [ni_step|apply IH; assumption].
Qed.

Lemma bind_cols_shape env m cols : forall cnt used bulk numRows acc bcs cnt1 used1 nr,
  bind_cols env m cnt used cols bulk numRows acc = BOk (bcs, cnt1, used1, nr) ->
  Forall wf_tcol cols -> Forall (col_ok bulk numRows) acc ->
  Forall (col_ok true nr) bcs.
Proof.
  induction cols as [|c rest IH]; intros cnt used bulk numRows acc bcs cnt1 used1 nr H W A;
    cbn [bind_cols] in H.
  - bok H. eapply Forall_impl; [|exact A]. intros bc [L|[_ L]]; [left; exact L|right; split; [reflexivity|exact L]].
  - inversion W; subst.
    destruct (bind_col env m cnt c) as [[bc cnt']|e] eqn:BC; cbn [bbind] in H; [|discriminate].
    destruct (bc_bulk bc) eqn:BB.
    + destruct bulk; cbn [negb] in H.
      * destruct (Nat.eqb (length (bc_vals bc)) numRows) eqn:EQ; cbn [negb] in H; [|discriminate].
        apply Nat.eqb_eq in EQ. eapply IH; [exact H|assumption|].
        apply Forall_app_single; [exact A|]. right. split; [reflexivity|exact EQ].
      * eapply IH; [exact H|assumption|].
        apply Forall_app_single; [|right; split; reflexivity].
        eapply Forall_impl; [|exact A]. intros bc0 [L|[D _]]; [left; exact L|discriminate D].
    + eapply IH; [exact H|assumption|].
      apply Forall_app_single; [exact A|]. left. eapply bind_col_single; eassumption.
Qed.

Lemma parameter_noint bc row nr : col_ok true nr bc -> row < nr -> noint (parameter bc row).
Proof.
  intros OK R. unfold parameter. destruct (bc_vals bc) as [|v [|v2 vs]] eqn:V; [ni_step|ni_step|].
  destruct (nth_error (v :: v2 :: vs) row) eqn:N; [ni_step|].
  exfalso. apply nth_error_None in N. destruct OK as [L|[_ L]]; rewrite V in L; simpl in *; lia.
Qed.

Lemma insert_row_noint nr row bcs : row < nr -> Forall (col_ok true nr) bcs ->
  forall sqls named, noint (insert_row bcs row sqls named).
Proof.
  intros R. induction bcs as [|bc rest IH]; intros F sqls named; cbn [insert_row]; [ni_step|].
  inversion F; subst. destruct (bc_omit bc); [apply IH; assumption|].
  apply noint_bbind; [eapply parameter_noint; eassumption|]. intros [s n] _. apply IH; assumption.
Qed.

Lemma insert_rows_noint nr bcs rows : Forall (col_ok true nr) bcs -> Forall (fun r => r < nr) rows ->
  forall rowsSQL named, noint (insert_rows bcs rows rowsSQL named).
Proof.
  intros F. induction rows as [|r rest IH]; intros R rowsSQL named; cbn [insert_rows]; [ni_step|].
  inversion R; subst.
  apply noint_bbind; [eapply insert_row_noint; eassumption|]. intros [sqls named'] _.
  apply IH; assumption.
Qed.

Lemma add_to_query_noint env m q e : wf_texpr e -> noint (add_to_query env m q e).
Proof.
  intros W. destruct e as [chunk|input|cols|ocs]; cbn [add_to_query].
  - ni_step.
  - apply noint_bbind; [apply locate_params_noint|]. intros p _. repeat ni_step.
  - apply noint_bbind; [apply bind_cols_noint; exact W|]. intros [[[bcs cnt] used] nr] H.
    apply bind_cols_shape in H; [|exact W|constructor].
    apply noint_bbind.
    + apply (insert_rows_noint nr); [exact H|].
      apply Forall_forall. intros r Hr. apply in_seq in Hr. lia.
    + intros [rowsSQL named] _. ni_step.
  - ni_step.
Qed.

Lemma add_all_noint env m es : Forall wf_texpr es -> forall q, noint (add_all env m q es).
Proof.
  induction es as [|e rest IH]; intros W q; cbn [add_all]; [ni_step|].
  inversion W; subst.
  apply noint_bbind; [apply add_to_query_noint; assumption|]. intros q' _. apply IH; assumption.
Qed.

Lemma bind_inputs_noint env tbe args : Forall wf_texpr tbe -> noint (bind_inputs env tbe args).
Proof.
  intros W. unfold bind_inputs.
  apply noint_bbind; [apply validate_inputs_noint|]. intros m _.
  apply noint_bbind; [apply add_all_noint; exact W|]. intros q _. repeat ni_step.
Qed.

Theorem query_no_internal env es samples tbe :
  bind_types env es samples = BOk tbe ->
  forall args, bind_inputs env tbe args <> BErr EInternal /\ bind_inputs env tbe args <> BErr EModelFuel.
Proof.
  intros H args. apply bind_inputs_noint. eapply bind_types_wf. exact H.
Qed.
