(* Concrete, non-trivial data for the Examples of the property files: a type
   environment with an embedded pointer-to-struct and an embedded struct, a map,
   slices, and some values.  Definitions only. *)
From SQLair.Base Require Import Bytes.
From SQLair.Model Require Import GenConsts Reflect TypeInfo Parser Bind.

Definition s_id : str := [105; 100]%N.                         (* id *)
Definition s_name : str := [110; 97; 109; 101]%N.              (* name *)
Definition s_name_omit : str :=                                (* name,omitempty *)
  [110; 97; 109; 101; 44; 111; 109; 105; 116; 101; 109; 112; 116; 121]%N.
Definition s_street : str := [115; 116]%N.                     (* st *)
Definition s_z : str := [122]%N.                               (* z *)
Definition s_k : str := [107]%N.                               (* k *)

Definition mkf n ex an tag ty :=
  {| f_name := n; f_exported := ex; f_anon := an; f_tag := tag; f_type := ty |}.
Definition mkt k n fs el ks :=
  {| t_kind := k; t_name := n; t_fields := fs; t_elem := el; t_keystr := ks; t_scanner := false |}.

(* 0 Person {ID `id`; Name `name,omitempty`; *Address; B}   1 Address {Street `st`}
   2 int   3 []Person   4 M map[string]int   5 *Address   6 S []int   7 B {Z `z`} *)
Definition ex_env : tenv := [
  mkt KStruct [80%N] [mkf [73%N] true false s_id 2; mkf [78%N] true false s_name_omit 2;
                      mkf [65%N] true true [] 5; mkf [66%N] true true [] 7] 0 false;
  mkt KStruct [65%N] [mkf [83%N] true false s_street 2] 0 false;
  mkt (KOther [105%N]) [105%N] [] 0 false;
  mkt KSlice [] [] 0 false;
  mkt KMap [77%N] [] 2 true;
  mkt KPtr [] [] 1 false;
  mkt KSlice [83%N] [] 2 false;
  mkt KStruct [66%N] [mkf [90%N] true false s_z 2] 0 false
].

Definition ex_fuel : nat := S (length ex_env).

Definition ex_fields : list sfield :=
  match get_struct_fields ex_fuel ex_env [] 0 with BOk f => f | BErr _ => [] end.

Definition dummy_sfield : sfield :=
  {| sf_name := []; sf_struct := 0; sf_index := []; sf_tag := []; sf_omit := false |}.

Definition ex_fld (tag : str) : sfield :=
  match find_tag tag ex_fields with Some f => f | None => dummy_sfield end.

Definition L (n : N) (z : bool) : val := VLeaf n z.

(* a Person: id, name (zero or not), street behind the embedded pointer, z *)
Definition person (i n s z : N) (name_zero : bool) : val :=
  VStruct [L i false; L n name_zero; VPtr (VStruct [L s false]); VStruct [L z false]].

(* a Person whose embedded *Address is nil *)
Definition person_nil : val := VStruct [L 1 false; L 2 false; VNilPtr; VStruct [L 4 false]].

Definition ex_map : val := VMap false [(s_k, L 50 false)].

(* INSERT INTO t (id, name, c, k, st) VALUES ($Person.id, $Person.name, 1, $M.k, $Person.st);
   name is not explicit (it came from a star) *)
Definition ex_insert : texpr :=
  TInsert [TCIns (LField (ex_fld s_id)) s_id true; TCIns (LField (ex_fld s_name)) s_name false;
           TCLit [99%N] [49%N]; TCIns (LMapKey 4 s_k) s_k true;
           TCIns (LField (ex_fld s_street)) s_street true].

Definition ex_people (l : list val) : arg := AVal 3 (VSlice false l).

(* SELECT &Person.id, &Person.name WHERE x = $M.k AND y IN ($S[:]) *)
Definition ex_query : list texpr :=
  [TBypass [83%N]; TOutput [(s_id, LField (ex_fld s_id)); (s_name, LField (ex_fld s_name))];
   TBypass [87%N]; TInput (LMapKey 4 s_k); TBypass [65%N]; TInput (LSlice 6)].

Definition ex_args : list arg :=
  [AVal 4 ex_map; AVal 6 (VSlice false [L 60 false; L 61 false; L 62 false])].
