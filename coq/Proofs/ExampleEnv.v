(* Concrete data used by the Examples of the property files C07, C08, C16, C18:
   a small type environment with a struct type with two tagged fields, a map
   type, a named slice type and the derived pointer/slice types. *)
From Coq Require Import String Ascii.
From SQLair.Base Require Import Bytes.
From SQLair.Model Require Import GenConsts Reflect TypeInfo Parser Bind.
From SQLair.Proofs Require Import TotalityProofs.

Definition s (x : string) : str :=
  List.map (fun a => N.of_nat (nat_of_ascii a)) (list_ascii_of_string x).

Definition mk_other (name : string) : tdef :=
  {| t_kind := KOther (s name); t_name := s name; t_fields := []; t_elem := 0;
     t_keystr := false; t_scanner := false |}.
Definition mk_fld (name tag : string) (t : tid) : field :=
  {| f_name := s name; f_exported := true; f_anon := false; f_tag := s tag; f_type := t |}.
Definition mk_cont (k : kind) (name : string) (elem : tid) : tdef :=
  {| t_kind := k; t_name := s name; t_fields := []; t_elem := elem; t_keystr := true;
     t_scanner := false |}.

(* 0 string, 1 int, 2 Person{ID `db:"id"`; Name `db:"name,omitempty"`},
   3 M = map[string]any, 4 *Person, 5 []Person, 6 Ints = []int, 7 []*Person, 8 *M,
   9 Loop{*Loop} (embeds itself), 10 *Loop, 11 another struct type named Person *)
Definition ex_env : tenv :=
  [ mk_other "string"; mk_other "int";
    {| t_kind := KStruct; t_name := s "Person";
       t_fields := [mk_fld "ID" "id" 1; mk_fld "Name" "name,omitempty" 0];
       t_elem := 0; t_keystr := false; t_scanner := false |};
    mk_cont KMap "M" 0; mk_cont KPtr "" 2; mk_cont KSlice "" 2; mk_cont KSlice "Ints" 1;
    mk_cont KSlice "" 4; mk_cont KPtr "" 3;
    {| t_kind := KStruct; t_name := s "Loop";
       t_fields := [{| f_name := s "Loop"; f_exported := true; f_anon := true; f_tag := [];
                       f_type := 10 |}];
       t_elem := 0; t_keystr := false; t_scanner := false |};
    mk_cont KPtr "" 9;
    {| t_kind := KStruct; t_name := s "Person"; t_fields := [mk_fld "ID" "id" 1];
       t_elem := 0; t_keystr := false; t_scanner := false |} ].

Definition ma (t m : string) : macc := {| tname := s t; mname := s m |}.

(* SELECT &Person.* FROM t WHERE id = $M.id AND n IN ($Ints[:]) *)
Definition ex_select : list expr :=
  [ Bypass (s "SELECT "); Output (s "&Person.*") [] [ma "Person" "*"];
    Bypass (s " FROM t WHERE id = "); MemberIn (s "$M.id") (ma "M" "id");
    Bypass (s " AND n IN ("); SliceIn (s "$Ints[:]") (s "Ints"); Bypass (s ")") ].
Definition ex_select_samples : list (option tid) := [Some 2; Some 3; Some 6].

(* INSERT INTO t (*) VALUES ($Person.*) *)
Definition ex_insert : list expr :=
  [ Bypass (s "INSERT INTO t "); AsteriskIns (s "(*) VALUES ($Person.*)") [ma "Person" "*"] ].
Definition ex_insert_samples : list (option tid) := [Some 2].

Definition person (id name : N) : val := VStruct [VLeaf id false; VLeaf name false].
Definition ex_map : val := VMap false [(s "id", VLeaf 7 false)].
Definition ex_ints : val := VSlice false [VLeaf 1 false; VLeaf 2 false].

Definition ex_select_args : list arg := [AVal 3 ex_map; AVal 6 ex_ints].
Definition ex_insert_bulk_args : list arg :=
  [AVal 5 (VSlice false [person 1 10; person 2 20; person 3 30])].

Definition ex_select_tbe : list texpr := ok_or [] (bind_types ex_env ex_select ex_select_samples).
Definition ex_insert_tbe : list texpr := ok_or [] (bind_types ex_env ex_insert ex_insert_samples).

Example ex_select_prepares : is_ok (bind_types ex_env ex_select ex_select_samples) = true.
Proof. vm_compute. reflexivity. Qed.
Example ex_insert_prepares : is_ok (bind_types ex_env ex_insert ex_insert_samples) = true.
Proof. vm_compute. reflexivity. Qed.
Example ex_select_binds : is_ok (bind_inputs ex_env ex_select_tbe ex_select_args) = true.
Proof. vm_compute. reflexivity. Qed.
Example ex_insert_binds : is_ok (bind_inputs ex_env ex_insert_tbe ex_insert_bulk_args) = true.
Proof. vm_compute. reflexivity. Qed.
