(* C19, part 2: translation invariance.  Putting k newlines in front of a
   query moves every reported line by k and changes nothing else.

   - [shift_st k st]: the state [st] seen k lines (and k bytes) further down;
   - every function f of the model commutes with the shift:
       f (shift_st k st) = sh_pair k (f st)
     (one rewrite lemma per function, proved by walking through the body);
   - the only absolute test in the model is [pos = 0] in
     advanceToNextExpression: the first iteration of the main loop is done by
     hand ([advanceToNext_init]);
   - [parse] runs its main loop on fuel [S (length input)], which is larger
     for the longer input: [parse_loop_mono]; the [EFuel] error, whose
     unreported position would also move, never comes out of [parse]
     (Proofs/ParserNoFuel.v). *)
From SQLair.Base Require Import Bytes Utf8.
From SQLair.Model Require Import GenUnicode GenConsts Parser.
From SQLair.Proofs Require Import Utf8Facts ParserExt ParserTiling ParserNoFuel.

(* ------------------------------------------------------------ the shift -- *)

Definition shift_st (k : nat) (st : pstate) : pstate :=
  {| pos := pos st + k; rest := rest st; line := line st + k; lstart := lstart st + k |}.

Definition move_line (k : nat) (e : perr) : perr :=
  {| eline := eline e + k; ecol := ecol e; ekind_of := ekind_of e;
     epayload := epayload e; positioned := positioned e |}.

(* what happens to a reported error: positioned errors move k lines down *)
Definition shift_err (k : nat) (e : perr) : perr :=
  if positioned e then move_line k e else e.

Definition is_efuel (e : perr) : bool :=
  match ekind_of e with EFuel => true | _ => false end.

(* internal variant: the (unpositioned) EFuel error also records a line *)
Definition shift_erri (k : nat) (e : perr) : perr :=
  if positioned e || is_efuel e then move_line k e else e.

Definition shift_res {A} (k : nat) (r : res A) : res A :=
  match r with
  | Err e => Err (shift_erri k e)
  | _ => r
  end.

Definition sh_pair {A} (k : nat) (x : pstate * res A) : pstate * res A :=
  match x with (s, r) => (shift_st k s, shift_res k r) end.

Definition sh_pairb {A} (k : nat) (x : pstate * A) : pstate * A :=
  match x with (s, r) => (shift_st k s, r) end.

Definition omap (k : nat) (o : option pstate) : option pstate :=
  match o with Some s => Some (shift_st k s) | None => None end.

Definition omap2 (k : nat) (o : option (option pstate)) : option (option pstate) :=
  match o with
  | Some (Some s) => Some (Some (shift_st k s))
  | Some None => Some None
  | None => None
  end.

Lemma shift_err_spec k l c kd p :
  shift_err k {| eline := l; ecol := c; ekind_of := kd; epayload := p; positioned := true |} =
    {| eline := l + k; ecol := c; ekind_of := kd; epayload := p; positioned := true |} /\
  shift_err k {| eline := l; ecol := c; ekind_of := kd; epayload := p; positioned := false |} =
    {| eline := l; ecol := c; ekind_of := kd; epayload := p; positioned := false |}.
Proof. split; reflexivity. Qed.

Lemma shift_erri_eq k e : ekind_of e <> EFuel -> shift_erri k e = shift_err k e.
Proof.
  intros H. unfold shift_erri, shift_err, is_efuel.
  destruct (ekind_of e); try congruence; rewrite orb_false_r; reflexivity.
Qed.

Lemma ekind_shift_erri k e : ekind_of (shift_erri k e) = ekind_of e.
Proof. unfold shift_erri. destruct (positioned e || is_efuel e); reflexivity. Qed.

Lemma ekind_shift_err k e : ekind_of (shift_err k e) = ekind_of e.
Proof. unfold shift_err. destruct (positioned e); reflexivity. Qed.

Lemma shift_err_0 e : shift_err 0 e = e.
Proof.
  unfold shift_err, move_line. destruct e as [l c kd p b]. cbn. destruct b; [|reflexivity].
  rewrite Nat.add_0_r. reflexivity.
Qed.

(* --------------------------------------------------- elementary rewrites -- *)

Lemma at_end_shift k s : at_end (shift_st k s) = at_end s.
Proof. reflexivity. Qed.
Lemma cur_shift k s : cur (shift_st k s) = cur s.
Proof. reflexivity. Qed.
Lemma fuel_of_shift k s : fuel_of (shift_st k s) = fuel_of s.
Proof. reflexivity. Qed.
Lemma rest_shift k s : rest (shift_st k s) = rest s.
Proof. reflexivity. Qed.
Lemma line_shift k s : line (shift_st k s) = line s + k.
Proof. reflexivity. Qed.
Lemma peekChar_shift c k s : peekChar c (shift_st k s) = peekChar c s.
Proof. reflexivity. Qed.
Lemma colNum_shift k s : colNum (shift_st k s) = colNum s.
Proof. unfold colNum, shift_st. cbn. lia. Qed.
Lemma efuel_shift k s : efuel (shift_st k s) = shift_erri k (efuel s).
Proof.
  unfold efuel, shift_erri, is_efuel, move_line. cbn [positioned ekind_of orb eline ecol epayload].
  rewrite colNum_shift. reflexivity.
Qed.
Lemma slice_shift k a b : slice (shift_st k a) (shift_st k b) = slice a b.
Proof. unfold slice, shift_st. cbn. f_equal. lia. Qed.
Lemma ltb_shift k a b : Nat.ltb (pos (shift_st k a)) (pos (shift_st k b)) = Nat.ltb (pos a) (pos b).
Proof.
  unfold shift_st. cbn [pos]. destruct (Nat.ltb (pos a) (pos b)) eqn:E.
  - apply Nat.ltb_lt in E. apply Nat.ltb_lt. lia.
  - apply Nat.ltb_ge in E. apply Nat.ltb_ge. lia.
Qed.

Lemma advance_shift k s : advance (shift_st k s) = shift_st k (advance s).
Proof.
  destruct s as [p rs l ls]. unfold advance, shift_st. cbn [rest pos line lstart].
  destruct rs as [|c0 t]; [reflexivity|].
  destruct (decode_rune (c0 :: t)) as [r size]. destruct (N.eqb r 10); cbn [rest pos line lstart]; f_equal; lia.
Qed.

Lemma shift_res_kind {A} k (r : res A) : is_fuel_err (shift_res k r) = option_map (shift_erri k) (is_fuel_err r).
Proof.
  destruct r as [a| |e]; try reflexivity. cbn. rewrite ekind_shift_erri.
  destruct (ekind_of e); reflexivity.
Qed.

Create HintDb shiftdb.
#[export] Hint Rewrite at_end_shift cur_shift fuel_of_shift rest_shift line_shift peekChar_shift
  colNum_shift efuel_shift slice_shift ltb_shift advance_shift ekind_shift_erri : shiftdb.

(* ----------------------------------------------------- proof machinery -- *)

Ltac sh_red :=
  cbv beta iota zeta delta [andThen sh_pair sh_pairb shift_res omap omap2].

Ltac sh_norm := sh_red; autorewrite with shiftdb; sh_red.

Ltac sh_close H :=
  try discriminate;
  try (match goal with H' : (_, _) = (_, _) |- _ => inversion H'; subst; clear H' end; reflexivity);
  try (rewrite H; reflexivity).

(* H : body of f at s = (s', r);  goal: body of f at shift s = (shift s', shift r) *)
Ltac sh_walk H :=
  norm_in H; sh_norm;
  repeat (destruct_scrut H; sh_norm); sh_close H.

(* goal: f (shift_st k s) = sh_pair k (f s) *)
Ltac sh_start f k s :=
  let s' := fresh "s'" in let r := fresh "r" in let H := fresh "H" in
  destruct (f s) as [s' r] eqn:H; sh_red.

(* ---------------------------------------------------- character level -- *)

Lemma skipChar_shift c k s : skipChar c (shift_st k s) = sh_pairb k (skipChar c s).
Proof.
  unfold skipChar. sh_norm. destruct (negb (at_end s) && N.eqb (cur s) c); reflexivity.
Qed.
#[export] Hint Rewrite skipChar_shift : shiftdb.

Lemma skipCharFind_loop_shift fuel : forall c k s,
  skipCharFind_loop fuel c (shift_st k s) = omap2 k (skipCharFind_loop fuel c s).
Proof.
  induction fuel as [|f IH]; intros c k s; [reflexivity|].
  cbn [skipCharFind_loop]. sh_norm. destruct (at_end s); [reflexivity|].
  destruct (N.eqb (cur s) c); [reflexivity|]. rewrite IH. reflexivity.
Qed.
#[export] Hint Rewrite skipCharFind_loop_shift : shiftdb.

Lemma skipCharFind_shift c k s : skipCharFind c (shift_st k s) = sh_pair k (skipCharFind c s).
Proof.
  unfold skipCharFind. sh_norm.
  destruct (skipCharFind_loop (fuel_of s) c s) as [[s1|]|]; reflexivity.
Qed.
#[export] Hint Rewrite skipCharFind_shift : shiftdb.

Lemma skipString_shift kw k s : skipString kw (shift_st k s) = sh_pairb k (skipString kw s).
Proof.
  unfold skipString. sh_norm. destruct (prefix_fold kw (rest s)); [|reflexivity].
  unfold shift_st. cbn [pos rest line lstart]. f_equal. f_equal. lia.
Qed.
#[export] Hint Rewrite skipString_shift : shiftdb.

Lemma strlit_loop_shift fuel : forall c m k s,
  strlit_loop fuel c m (shift_st k s) = omap2 k (strlit_loop fuel c m s).
Proof.
  induction fuel as [|f IH]; intros c m k s; [reflexivity|].
  cbn [strlit_loop]. sh_norm. destruct (skipCharFind c s) as [s1 r1]. sh_norm.
  destruct r1 as [u| |e]; sh_norm; try reflexivity.
  destruct (m && negb (peekChar c s1)); [reflexivity|]. rewrite IH. reflexivity.
Qed.
#[export] Hint Rewrite strlit_loop_shift : shiftdb.

Lemma skipStringLiteral_shift k s : skipStringLiteral (shift_st k s) = sh_pair k (skipStringLiteral s).
Proof. sh_start skipStringLiteral k s. unfold skipStringLiteral in *. sh_walk H. Qed.
#[export] Hint Rewrite skipStringLiteral_shift : shiftdb.

Lemma comment_loop_shift fuel : forall c k s,
  comment_loop fuel c (shift_st k s) = omap k (comment_loop fuel c s).
Proof.
  induction fuel as [|f IH]; intros c k s; [reflexivity|].
  cbn [comment_loop]. sh_norm. destruct (at_end s); [reflexivity|].
  destruct (N.eqb (cur s) c); [|rewrite IH; reflexivity].
  destruct (N.eqb c ch_star); [|reflexivity].
  destruct (skipChar ch_slash (advance s)) as [s2 ok]. sh_norm.
  destruct ok; [reflexivity|]. rewrite IH. reflexivity.
Qed.
#[export] Hint Rewrite comment_loop_shift : shiftdb.

Lemma skipComment_shift k s : skipComment (shift_st k s) = sh_pair k (skipComment s).
Proof. sh_start skipComment k s. unfold skipComment in *. sh_walk H. Qed.
#[export] Hint Rewrite skipComment_shift : shiftdb.

Lemma skipBlanks_loop_shift fuel : forall k s,
  skipBlanks_loop fuel (shift_st k s) = sh_pair k (skipBlanks_loop fuel s).
Proof.
  induction fuel as [|f IH]; intros k s.
  - cbn [skipBlanks_loop]. sh_norm. reflexivity.
  - sh_start (skipBlanks_loop (S f)) k s. cbn [skipBlanks_loop] in *. sh_walk H.
    all: rewrite IH, H; reflexivity.
Qed.
#[export] Hint Rewrite skipBlanks_loop_shift : shiftdb.

Lemma skipBlanks_shift k s : skipBlanks (shift_st k s) = sh_pair k (skipBlanks s).
Proof. unfold skipBlanks. sh_norm. reflexivity. Qed.
#[export] Hint Rewrite skipBlanks_shift : shiftdb.

Lemma parens_loop_shift fuel : forall n k s,
  parens_loop fuel n (shift_st k s) = sh_pair k (parens_loop fuel n s).
Proof.
  induction fuel as [|f IH]; intros n k s.
  - cbn [parens_loop]. sh_norm. reflexivity.
  - sh_start (parens_loop (S f) n) k s. cbn [parens_loop] in *. sh_walk H.
    all: rewrite IH, H; reflexivity.
Qed.
#[export] Hint Rewrite parens_loop_shift : shiftdb.

Lemma skipEnclosedParentheses_shift k s :
  skipEnclosedParentheses (shift_st k s) = sh_pair k (skipEnclosedParentheses s).
Proof. sh_start skipEnclosedParentheses k s. unfold skipEnclosedParentheses in *. sh_walk H. Qed.
#[export] Hint Rewrite skipEnclosedParentheses_shift : shiftdb.

Lemma litlist_loop_shift fuel : forall k s,
  litlist_loop fuel (shift_st k s) = sh_pair k (litlist_loop fuel s).
Proof.
  induction fuel as [|f IH]; intros k s.
  - cbn [litlist_loop]. sh_norm. reflexivity.
  - sh_start (litlist_loop (S f)) k s. cbn [litlist_loop] in *. sh_walk H.
    all: rewrite IH, H; reflexivity.
Qed.
#[export] Hint Rewrite litlist_loop_shift : shiftdb.

Lemma skipLiteralInList_shift k s : skipLiteralInList (shift_st k s) = sh_pair k (skipLiteralInList s).
Proof. unfold skipLiteralInList. sh_norm. reflexivity. Qed.
#[export] Hint Rewrite skipLiteralInList_shift : shiftdb.

(* ---------------------------------------------------------------- names -- *)

Lemma namechars_loop_shift fuel : forall k s,
  namechars_loop fuel (shift_st k s) = omap k (namechars_loop fuel s).
Proof.
  induction fuel as [|f IH]; intros k s; [reflexivity|].
  cbn [namechars_loop]. sh_norm. destruct (negb (at_end s) && isNameChar (cur s)); [|reflexivity].
  rewrite IH. reflexivity.
Qed.
#[export] Hint Rewrite namechars_loop_shift : shiftdb.

Lemma parseIdentifier_shift k s : parseIdentifier (shift_st k s) = sh_pair k (parseIdentifier s).
Proof. sh_start parseIdentifier k s. unfold parseIdentifier in *. sh_walk H. Qed.
#[export] Hint Rewrite parseIdentifier_shift : shiftdb.

Lemma parseIdentifierAsterisk_shift k s :
  parseIdentifierAsterisk (shift_st k s) = sh_pair k (parseIdentifierAsterisk s).
Proof. sh_start parseIdentifierAsterisk k s. unfold parseIdentifierAsterisk in *. sh_walk H. Qed.
#[export] Hint Rewrite parseIdentifierAsterisk_shift : shiftdb.

Lemma parseTypeName_shift k s : parseTypeName (shift_st k s) = sh_pair k (parseTypeName s).
Proof. sh_start parseTypeName k s. unfold parseTypeName in *. sh_walk H. Qed.
#[export] Hint Rewrite parseTypeName_shift : shiftdb.

Lemma parseColumnAccessor_shift k s :
  parseColumnAccessor (shift_st k s) = sh_pair k (parseColumnAccessor s).
Proof. sh_start parseColumnAccessor k s. unfold parseColumnAccessor in *. sh_walk H. Qed.
#[export] Hint Rewrite parseColumnAccessor_shift : shiftdb.

Lemma parseSliceAccessor_shift k s :
  parseSliceAccessor (shift_st k s) = sh_pair k (parseSliceAccessor s).
Proof. sh_start parseSliceAccessor k s. unfold parseSliceAccessor in *. sh_walk H. Qed.
#[export] Hint Rewrite parseSliceAccessor_shift : shiftdb.

Lemma parseTypeAndMember_shift k s :
  parseTypeAndMember (shift_st k s) = sh_pair k (parseTypeAndMember s).
Proof. sh_start parseTypeAndMember k s. unfold parseTypeAndMember in *. sh_walk H. Qed.
#[export] Hint Rewrite parseTypeAndMember_shift : shiftdb.

Lemma parseTargetType_shift k s : parseTargetType (shift_st k s) = sh_pair k (parseTargetType s).
Proof. sh_start parseTargetType k s. unfold parseTargetType in *. sh_walk H. Qed.
#[export] Hint Rewrite parseTargetType_shift : shiftdb.

Lemma parseInputMemberAccessor_shift k s :
  parseInputMemberAccessor (shift_st k s) = sh_pair k (parseInputMemberAccessor s).
Proof. sh_start parseInputMemberAccessor k s. unfold parseInputMemberAccessor in *. sh_walk H. Qed.
#[export] Hint Rewrite parseInputMemberAccessor_shift : shiftdb.

(* ------------------------------------------------------------ parseList -- *)

Section ParseListShift.
  Context {T : Type} (parseFn : pstate -> pstate * res T).
  Context (parseFn_shift : forall k s, parseFn (shift_st k s) = sh_pair k (parseFn s)).

  Lemma parseList_loop_shift fuel : forall cp first acc k s,
    parseList_loop parseFn fuel (shift_st k cp) first acc (shift_st k s) =
    sh_pair k (parseList_loop parseFn fuel cp first acc s).
  Proof using parseFn_shift.
    induction fuel as [|f IH]; intros cp first acc k s.
    - cbn [parseList_loop]. sh_norm. reflexivity.
    - sh_start (parseList_loop parseFn (S f) cp first acc) k s. cbn [parseList_loop] in *.
      norm_in H; sh_norm.
      repeat (destruct_scrut H; sh_norm; rewrite ?parseFn_shift; sh_norm); sh_close H.
      all: rewrite IH, H; reflexivity.
  Qed.

  Lemma parseList_shift k s : parseList parseFn (shift_st k s) = sh_pair k (parseList parseFn s).
  Proof using parseFn_shift.
    sh_start (parseList parseFn) k s. unfold parseList in *. sh_walk H.
    rewrite parseList_loop_shift, H. reflexivity.
  Qed.
End ParseListShift.

Lemma parseList_col_shift k s :
  parseList parseColumnAccessor (shift_st k s) = sh_pair k (parseList parseColumnAccessor s).
Proof. apply parseList_shift. exact parseColumnAccessor_shift. Qed.
Lemma parseList_target_shift k s :
  parseList parseTargetType (shift_st k s) = sh_pair k (parseList parseTargetType s).
Proof. apply parseList_shift. exact parseTargetType_shift. Qed.
Lemma parseList_input_shift k s :
  parseList parseInputMemberAccessor (shift_st k s) = sh_pair k (parseList parseInputMemberAccessor s).
Proof. apply parseList_shift. exact parseInputMemberAccessor_shift. Qed.
#[export] Hint Rewrite parseList_col_shift parseList_target_shift parseList_input_shift : shiftdb.

(* ---------------------------------------------------------- expressions -- *)

Lemma parseColumns_shift k s : parseColumns (shift_st k s) = sh_pair k (parseColumns s).
Proof. sh_start parseColumns k s. unfold parseColumns, is_fuel_err in *. sh_walk H. Qed.
#[export] Hint Rewrite parseColumns_shift : shiftdb.

Lemma parseTargetTypes_shift k s : parseTargetTypes (shift_st k s) = sh_pair k (parseTargetTypes s).
Proof. sh_start parseTargetTypes k s. unfold parseTargetTypes in *. sh_walk H. Qed.
#[export] Hint Rewrite parseTargetTypes_shift : shiftdb.

Lemma parseOutputExpr_shift k s : parseOutputExpr (shift_st k s) = sh_pair k (parseOutputExpr s).
Proof. sh_start parseOutputExpr k s. unfold parseOutputExpr in *. sh_walk H. Qed.
#[export] Hint Rewrite parseOutputExpr_shift : shiftdb.

Lemma parseSliceInputExpr_shift k s :
  parseSliceInputExpr (shift_st k s) = sh_pair k (parseSliceInputExpr s).
Proof. sh_start parseSliceInputExpr k s. unfold parseSliceInputExpr in *. sh_walk H. Qed.
#[export] Hint Rewrite parseSliceInputExpr_shift : shiftdb.

Lemma parseMemberInputExpr_shift k s :
  parseMemberInputExpr (shift_st k s) = sh_pair k (parseMemberInputExpr s).
Proof. sh_start parseMemberInputExpr k s. unfold parseMemberInputExpr in *. sh_walk H. Qed.
#[export] Hint Rewrite parseMemberInputExpr_shift : shiftdb.

Lemma parseComplexInsertValues_shift k s :
  parseComplexInsertValues (shift_st k s) = sh_pair k (parseComplexInsertValues s).
Proof.
  sh_start parseComplexInsertValues k s. unfold parseComplexInsertValues, is_fuel_err in *. sh_walk H.
Qed.
#[export] Hint Rewrite parseComplexInsertValues_shift : shiftdb.

Lemma parseAsteriskInsertExpr_shift k s :
  parseAsteriskInsertExpr (shift_st k s) = sh_pair k (parseAsteriskInsertExpr s).
Proof. sh_start parseAsteriskInsertExpr k s. unfold parseAsteriskInsertExpr in *. sh_walk H. Qed.
#[export] Hint Rewrite parseAsteriskInsertExpr_shift : shiftdb.

Lemma basicvals_loop_shift fuel : forall cp ip acc k s,
  basicvals_loop fuel (shift_st k cp) ip acc (shift_st k s) =
  sh_pair k (basicvals_loop fuel cp ip acc s).
Proof.
  induction fuel as [|f IH]; intros cp ip acc k s.
  - cbn [basicvals_loop]. sh_norm. reflexivity.
  - sh_start (basicvals_loop (S f) cp ip acc) k s. cbn [basicvals_loop] in *. sh_walk H.
    all: rewrite IH, H; reflexivity.
Qed.
#[export] Hint Rewrite basicvals_loop_shift : shiftdb.

Lemma parseBasicInsertValues_shift k s :
  parseBasicInsertValues (shift_st k s) = sh_pair k (parseBasicInsertValues s).
Proof.
  sh_start parseBasicInsertValues k s. unfold parseBasicInsertValues, is_fuel_err in *. sh_walk H.
Qed.
#[export] Hint Rewrite parseBasicInsertValues_shift : shiftdb.

Lemma parseInsertExpr_shift k s : parseInsertExpr (shift_st k s) = sh_pair k (parseInsertExpr s).
Proof. sh_start parseInsertExpr k s. unfold parseInsertExpr, is_fuel_err in *. sh_walk H. Qed.
#[export] Hint Rewrite parseInsertExpr_shift : shiftdb.

Lemma parseInputExpr_shift k s : parseInputExpr (shift_st k s) = sh_pair k (parseInputExpr s).
Proof. sh_start parseInputExpr k s. unfold parseInputExpr in *. sh_walk H. Qed.
#[export] Hint Rewrite parseInputExpr_shift : shiftdb.

Lemma advance_loop_shift fuel : forall k s,
  advance_loop fuel (shift_st k s) = sh_pair k (advance_loop fuel s).
Proof.
  induction fuel as [|f IH]; intros k s.
  - cbn [advance_loop]. sh_norm. reflexivity.
  - sh_start (advance_loop (S f)) k s. cbn [advance_loop] in *. sh_walk H.
    all: rewrite IH, H; reflexivity.
Qed.
#[export] Hint Rewrite advance_loop_shift : shiftdb.

(* ------------------------------------------- successful parses progress -- *)

(* needed because of the [pos = 0] test: after an expression has been parsed
   the main loop is not at position 0 any more *)
Class StrictOk {A} (f : pstate -> pstate * res A) : Prop :=
  strict_ok : forall s s' v, f s = (s', Ok v) -> pos s < pos s'.

Lemma skipChar_true_pos c s s1 : skipChar c s = (s1, true) -> pos s < pos s1.
Proof.
  unfold skipChar. destruct (negb (at_end s) && N.eqb (cur s) c) eqn:E; intros H; inversion H; subst.
  apply andb_prop in E. destruct E as [E _]. apply negb_true_iff in E.
  pose proof (advance_progress s E) as P.
  destruct (advance_ext s) as [c0 [Hc Hp]]. rewrite Hc, app_length in P. lia.
Qed.

Lemma skipString_true_pos kw s s1 : skipString kw s = (s1, true) -> pos s1 = pos s + length kw.
Proof.
  unfold skipString. destruct (prefix_fold kw (rest s)); intros H; inversion H; subst. reflexivity.
Qed.

Ltac pos_facts :=
  repeat match goal with
         | E : skipChar ?c ?s = (?s1, true) |- _ => apply skipChar_true_pos in E
         | E : skipString ?kw ?s = (?s1, true) |- _ =>
             apply skipString_true_pos in E; cbv [kw_output_as kw_asterisk_values kw_insert_values length] in E
         | E : ?g ?s = (?s1, Ok ?v) |- _ =>
             let inst := constr:(_ : StrictOk g) in
             apply (@strict_ok _ g inst) in E
         | E : ?g ?s = (?s1, ?r) |- _ =>
             let inst := constr:(_ : ExtFn g) in
             apply (@ext_prf _ g inst s s s1 r (ext_refl s)) in E; apply ext_pos in E
         end.

Ltac strict_go H := case_go H; skipchar_false; pos_facts; lia.

#[export] Instance parseTargetType_strict : StrictOk parseTargetType.
Proof. intros s s' v H. unfold parseTargetType in H. strict_go H. Qed.

#[export] Instance parseInputMemberAccessor_strict : StrictOk parseInputMemberAccessor.
Proof. intros s s' v H. unfold parseInputMemberAccessor in H. strict_go H. Qed.

#[export] Instance parseSliceInputExpr_strict : StrictOk parseSliceInputExpr.
Proof. intros s s' v H. unfold parseSliceInputExpr in H. strict_go H. Qed.

#[export] Instance parseMemberInputExpr_strict : StrictOk parseMemberInputExpr.
Proof. intros s s' v H. unfold parseMemberInputExpr in H. strict_go H. Qed.

#[export] Instance parseAsteriskInsertExpr_strict : StrictOk parseAsteriskInsertExpr.
Proof. intros s s' v H. unfold parseAsteriskInsertExpr in H. strict_go H. Qed.

#[export] Instance parseInsertExpr_strict : StrictOk parseInsertExpr.
Proof. intros s s' v H. unfold parseInsertExpr, is_fuel_err in H. strict_go H. Qed.

#[export] Instance parseInputExpr_strict : StrictOk parseInputExpr.
Proof. intros s s' v H. unfold parseInputExpr in H. strict_go H. Qed.

#[export] Instance parseOutputExpr_strict : StrictOk parseOutputExpr.
Proof. intros s s' v H. unfold parseOutputExpr in H. strict_go H. Qed.

(* ------------------------------------- first iteration of the main loop -- *)

Lemma advance_pos_gt st : at_end st = false -> 0 < pos (advance st).
Proof.
  intros AE. pose proof (advance_progress st AE) as P.
  destruct (advance_ext st) as [c [Hc Hp]]. rewrite Hc, app_length in P. lia.
Qed.

Lemma skipStringLiteral_other st :
  cur st <> ch_dquote -> cur st <> ch_squote -> skipStringLiteral st = (st, No).
Proof.
  intros H1 H2. apply N.eqb_neq in H1, H2. unfold skipStringLiteral, skipChar.
  rewrite H1, andb_false_r. cbv beta iota zeta. rewrite H2, andb_false_r. reflexivity.
Qed.

Lemma skipComment_other st :
  cur st <> ch_minus -> cur st <> ch_slash -> skipComment st = (st, No).
Proof.
  intros H1 H2. apply N.eqb_neq in H1, H2. unfold skipComment, skipChar.
  rewrite H1, andb_false_r. cbv beta iota zeta. rewrite H2, andb_false_r. reflexivity.
Qed.

Lemma isNameChar_not c : isNameChar c = true ->
  c <> ch_dquote /\ c <> ch_squote /\ c <> ch_minus /\ c <> ch_slash /\ is_blank c = false.
Proof.
  intros H. repeat split; try (intros ->; vm_compute in H; discriminate).
  unfold is_blank, blanks, mem_N, existsb.
  repeat match goal with
         | |- context [N.eqb c ?x] => destruct (N.eqb_spec c x); [subst c; vm_compute in H; discriminate|]
         end.
  reflexivity.
Qed.

Lemma skipBlanks_namechar st :
  at_end st = false -> isNameChar (cur st) = true -> skipBlanks st = (st, Ok tt).
Proof.
  intros AE NC. destruct (isNameChar_not _ NC) as (_ & _ & H3 & H4 & H5).
  unfold skipBlanks, fuel_of. cbn [skipBlanks_loop]. rewrite AE, skipComment_other by assumption.
  rewrite H5. reflexivity.
Qed.

(* the state after m of the j + m leading newlines *)
Definition nl_st (inp : str) (j m : nat) : pstate :=
  {| pos := m; rest := repeat 10%N j ++ inp; line := S m; lstart := m |}.

Lemma advance_nl inp j m : advance (nl_st inp (S j) m) = nl_st inp j (S m).
Proof.
  unfold advance, nl_st. cbn [rest repeat app pos line lstart].
  rewrite decode_ascii by lia. cbn [N.eqb Pos.eqb skipn]. f_equal; lia.
Qed.

Lemma cur_nl inp j m : cur (nl_st inp (S j) m) = 10%N.
Proof. unfold cur, nl_st. cbn [rest repeat app]. rewrite decode_ascii by lia. reflexivity. Qed.

Definition after_nl (F : nat) (st3 : pstate) : pstate * res bool :=
  if at_end st3 then (st3, Ok true)
  else if isNameChar (cur st3) then (st3, Ok false)
  else advance_loop F st3.

Lemma advance_loop_nl1 inp f j m :
  advance_loop (S f) (nl_st inp (S j) m) = after_nl f (nl_st inp j (S m)).
Proof.
  cbn [advance_loop].
  change (at_end (nl_st inp (S j) m)) with false. cbv iota.
  rewrite skipStringLiteral_other by (rewrite cur_nl; discriminate).
  rewrite skipComment_other by (rewrite cur_nl; discriminate).
  rewrite cur_nl.
  change (is_trigger 10) with false. change (is_separator 10) with true. cbv iota.
  rewrite advance_nl. reflexivity.
Qed.

Lemma advance_loop_nl inp : forall j m F,
  advance_loop (S j + F) (nl_st inp (S j) m) = after_nl F (nl_st inp 0 (m + S j)).
Proof.
  induction j as [|j IH]; intros m F.
  - cbn [Nat.add]. rewrite advance_loop_nl1. replace (m + 1) with (S m) by lia. reflexivity.
  - change (S (S j) + F) with (S (S j + F)). rewrite advance_loop_nl1. unfold after_nl at 1.
    change (at_end (nl_st inp (S j) (S m))) with false. cbv iota. rewrite cur_nl.
    change (isNameChar 10) with false. cbv iota.
    rewrite IH. replace (S m + S j) with (m + S (S j)) by lia. reflexivity.
Qed.

Lemma advanceToNext_init k inp :
  advanceToNextExpression (init (repeat 10%N (S k) ++ inp)) =
  sh_pair (S k) (advanceToNextExpression (init inp)).
Proof.
  change (init (repeat 10%N (S k) ++ inp)) with (nl_st inp (S k) 0).
  unfold advanceToNextExpression at 1.
  change (at_end (nl_st inp (S k) 0)) with false. rewrite cur_nl.
  change (isNameChar 10) with false. rewrite andb_false_r.
  assert (F : fuel_of (nl_st inp (S k) 0) = S k + fuel_of (init inp)).
  { unfold fuel_of, nl_st, init. cbn [rest]. rewrite app_length, repeat_length. lia. }
  rewrite F, advance_loop_nl.
  change (nl_st inp 0 (0 + S k)) with (shift_st (S k) (init inp)).
  unfold after_nl. sh_norm.
  destruct (at_end (init inp)) eqn:AE.
  - unfold advanceToNextExpression. rewrite AE. cbn [negb andb].
    unfold fuel_of. cbn [advance_loop]. rewrite AE.
    unfold skipBlanks, fuel_of. cbn [skipBlanks_loop]. rewrite AE. reflexivity.
  - destruct (isNameChar (cur (init inp))) eqn:NC.
    + unfold advanceToNextExpression. rewrite AE, NC. cbn [negb andb init pos Nat.eqb].
      rewrite skipBlanks_shift, (skipBlanks_namechar _ AE NC). reflexivity.
    + unfold advanceToNextExpression. rewrite NC, andb_false_r.
      destruct (advance_loop (fuel_of (init inp)) (init inp)) as [s1 r1]. sh_norm.
      destruct r1 as [[|]| |e]; sh_norm; reflexivity.
Qed.

Lemma advanceToNextExpression_shift k s : 0 < pos s ->
  advanceToNextExpression (shift_st k s) = sh_pair k (advanceToNextExpression s).
Proof.
  intros P. unfold advanceToNextExpression. sh_norm.
  assert (E1 : Nat.eqb (pos (shift_st k s)) 0 = false) by (apply Nat.eqb_neq; unfold shift_st; cbn [pos]; lia).
  assert (E2 : Nat.eqb (pos s) 0 = false) by (apply Nat.eqb_neq; lia).
  rewrite E1, E2, !andb_false_r. cbn [andb].
  destruct (advance_loop (fuel_of s) s) as [s1 r1]. sh_norm.
  destruct r1 as [[|]| |e]; sh_norm; reflexivity.
Qed.

(* ------------------------------------------------------------ main loop -- *)

Definition nb (s : expr) : bool := negb (is_bypass s).

Lemma filter_add_bypass prev cs acc : filter nb (add_bypass prev cs acc) = filter nb acc.
Proof.
  unfold add_bypass. destruct (Nat.eqb (pos prev) (pos cs)); [reflexivity|].
  rewrite filter_app. cbn. apply app_nil_r.
Qed.

(* relation between the result on the input and on the shifted input *)
Definition shifted (k : nat) (r r' : res (list expr)) : Prop :=
  match r with
  | Ok segs => exists segs', r' = Ok segs' /\ filter nb segs' = filter nb segs
  | No => True
  | Err e => ekind_of e <> EFuel -> r' = Err (shift_err k e)
  end.

Definition loop_tail (rec : pstate -> list expr -> pstate -> res (list expr))
  (prev : pstate) (acc : list expr) (st1 : pstate) : res (list expr) :=
  if at_end st1 then Ok (add_bypass prev st1 acc)
  else
    match parseOutputExpr st1 with
    | (_, Err e) => Err e
    | (st2, Ok out) => rec st2 (add_bypass prev st1 acc ++ [out]) st2
    | (st2, No) =>
        match parseInputExpr st2 with
        | (_, Err e) => Err e
        | (st3, Ok inp) => rec st3 (add_bypass prev st1 acc ++ [inp]) st3
        | (st3, No) => rec prev acc (advance st3)
        end
    end.

Definition loop_body (rec : pstate -> list expr -> pstate -> res (list expr))
  (prev : pstate) (acc : list expr) (a : pstate * res unit) : res (list expr) :=
  match a with
  | (_, Err e) => Err e
  | (st1, _) => loop_tail rec prev acc st1
  end.

Lemma parse_loop_unfold f prev acc st :
  parse_loop (S f) prev acc st = loop_body (parse_loop f) prev acc (advanceToNextExpression st).
Proof. reflexivity. Qed.

Section Body.
  Variable k : nat.
  Variables rec rec' : pstate -> list expr -> pstate -> res (list expr).
  Hypothesis Hrec : forall p p' a a' s, 0 < pos s -> filter nb a' = filter nb a ->
    shifted k (rec p a s) (rec' p' a' (shift_st k s)).

  Lemma shifted_err e : shifted k (Err e) (Err (shift_erri k e)).
  Proof. intros Hk. rewrite shift_erri_eq by exact Hk. reflexivity. Qed.

  Lemma tail_shift prev prev' acc acc' st1 :
    filter nb acc' = filter nb acc ->
    shifted k (loop_tail rec prev acc st1) (loop_tail rec' prev' acc' (shift_st k st1)).
  Proof using Hrec.
    intros Hacc. unfold loop_tail. sh_norm.
    destruct (at_end st1) eqn:AE.
    { eexists. split; [reflexivity|]. rewrite !filter_add_bypass. exact Hacc. }
    destruct (parseOutputExpr st1) as [st2 r2] eqn:O. sh_norm.
    destruct r2 as [out| |e]; sh_norm.
    - apply Hrec.
      + pose proof (strict_ok (f:=parseOutputExpr) _ _ _ O). lia.
      + rewrite !filter_app, !filter_add_bypass, Hacc. reflexivity.
    - pose proof (parseOutputExpr_spec _ _ _ O) as SP. cbn in SP. subst st2. sh_norm.
      destruct (parseInputExpr st1) as [st3 r3] eqn:P. sh_norm.
      destruct r3 as [ie| |e]; sh_norm.
      + apply Hrec.
        * pose proof (strict_ok (f:=parseInputExpr) _ _ _ P). lia.
        * rewrite !filter_app, !filter_add_bypass, Hacc. reflexivity.
      + pose proof (parseInputExpr_spec _ _ _ P) as SP. cbn in SP. subst st3. sh_norm.
        apply Hrec; [apply advance_pos_gt; exact AE|exact Hacc].
      + apply shifted_err.
    - apply shifted_err.
  Qed.

  Lemma body_shift prev prev' acc acc' a :
    filter nb acc' = filter nb acc ->
    shifted k (loop_body rec prev acc a) (loop_body rec' prev' acc' (sh_pair k a)).
  Proof using Hrec.
    intros Hacc. destruct a as [st1 r1]. unfold loop_body. sh_red.
    destruct r1 as [u| |e]; try (apply tail_shift; exact Hacc). apply shifted_err.
  Qed.
End Body.

Lemma parse_loop_shift f : forall k prev prev' acc acc' st,
  0 < pos st -> filter nb acc' = filter nb acc ->
  shifted k (parse_loop f prev acc st) (parse_loop f prev' acc' (shift_st k st)).
Proof.
  induction f as [|f IH]; intros k prev prev' acc acc' st P Hacc.
  - cbn. intros Hk. exfalso. apply Hk. reflexivity.
  - rewrite !parse_loop_unfold, advanceToNextExpression_shift by exact P.
    apply body_shift; [|exact Hacc]. intros p p' a a' s Ps Ha. apply IH; assumption.
Qed.

(* more fuel does not change a result that is not "out of fuel" *)
Definition not_fuel (r : res (list expr)) : Prop :=
  match r with Err e => ekind_of e <> EFuel | _ => True end.

Lemma parse_loop_mono f : forall d prev acc st,
  not_fuel (parse_loop f prev acc st) ->
  parse_loop (f + d) prev acc st = parse_loop f prev acc st.
Proof.
  induction f as [|f IH]; intros d prev acc st H.
  - cbn in H. exfalso. apply H. reflexivity.
  - cbn [Nat.add]. rewrite !parse_loop_unfold in *.
    destruct (advanceToNextExpression st) as [st1 r1]. unfold loop_body in *.
    assert (T : not_fuel (loop_tail (parse_loop f) prev acc st1) ->
                loop_tail (parse_loop (f + d)) prev acc st1 = loop_tail (parse_loop f) prev acc st1).
    { unfold loop_tail. destruct (at_end st1); [reflexivity|].
      destruct (parseOutputExpr st1) as [st2 [out| |e]]; [apply IH| |reflexivity].
      destruct (parseInputExpr st2) as [st3 [ie| |e]]; [apply IH|apply IH|reflexivity]. }
    destruct r1; auto.
Qed.

Theorem parse_shift k inp : shifted k (parse inp) (parse (repeat 10%N k ++ inp)).
Proof.
  destruct k as [|k].
  - cbn [repeat app]. destruct (parse inp) as [segs| |e]; cbn.
    + exists segs. auto.
    + exact I.
    + intros _. rewrite shift_err_0. reflexivity.
  - unfold parse.
    change (fuel_of (init inp)) with (S (length inp)).
    change (fuel_of (init (repeat 10%N (S k) ++ inp))) with (S (length (repeat 10%N (S k) ++ inp))).
    rewrite app_length, repeat_length, !parse_loop_unfold, advanceToNext_init.
    apply body_shift; [|reflexivity].
    intros p p' a a' s Ps Ha.
    pose proof (parse_loop_shift (length inp) (S k) p p' a a' s Ps Ha) as RR.
    rewrite (Nat.add_comm (S k) (length inp)).
    destruct (parse_loop (length inp) p a s) as [segs| |e]; cbn [shifted] in *.
    + destruct RR as [segs' [E F]]. exists segs'. split; [|exact F].
      rewrite parse_loop_mono; [exact E|]. rewrite E. exact I.
    + exact I.
    + intros Hk. specialize (RR Hk).
      rewrite parse_loop_mono; [exact RR|]. rewrite RR. cbn. rewrite ekind_shift_err. exact Hk.
Qed.

Theorem parse_shift_err inp k e :
  parse inp = Err e -> parse (repeat 10%N k ++ inp) = Err (shift_err k e).
Proof.
  intros H. pose proof (parse_shift k inp) as S. rewrite H in S.
  exact (S (parse_no_fuel _ _ H)).
Qed.

Theorem parse_shift_ok inp k segs :
  parse inp = Ok segs ->
  exists segs', parse (repeat 10%N k ++ inp) = Ok segs' /\
    filter (fun s => negb (is_bypass s)) segs' = filter (fun s => negb (is_bypass s)) segs.
Proof. intros H. pose proof (parse_shift k inp) as S. rewrite H in S. exact S. Qed.
