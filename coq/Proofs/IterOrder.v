(* C14, rows in driver order: for ANY sequence of Next / Get / Close calls and
   cancellations on an iterator over a plain result, the k-th Next that returns
   true makes the k-th row of the driver current, and a Get with valid
   destinations that succeeds delivers the row of the most recent successful
   Next.  History / trace definitions are in Model/Pool.v. *)
From SQLair.Base Require Import Bytes.
From SQLair.Model Require Import Iter Pool.
From SQLair.Proofs Require Import IterProofs.
Require Import Lia Arith.

(* ------------------------------------------------------ list facts -- *)

Lemma skipn_nth_cons {A} (l : list A) : forall k x,
  nth_error l k = Some x -> skipn k l = x :: skipn (S k) l.
Proof.
  induction l as [|y l IH]; intros [|k] x H; simpl in H; try discriminate.
  - inversion H; subst. reflexivity.
  - rewrite (skipn_cons k y l). rewrite (IH k x H). reflexivity.
Qed.

Lemma skipn_cons_nth {A} (l : list A) : forall k x rest,
  skipn k l = x :: rest -> nth_error l k = Some x /\ skipn (S k) l = rest /\ k < length l.
Proof.
  induction l as [|y l IH]; intros [|k] x rest H; simpl in H; try discriminate.
  - inversion H; subst. simpl. repeat split. lia.
  - destruct (IH k x rest H) as [A1 [A2 A3]]. simpl. repeat split; auto. lia.
Qed.

Lemma skipn_nil_length {A} (l : list A) : forall k, k <= length l -> skipn k l = [] -> k = length l.
Proof.
  induction l as [|y l IH]; intros [|k] Le H; simpl in *; try lia; try discriminate.
  f_equal. apply IH; [lia|exact H].
Qed.

Lemma forallb_nth {A} (f : A -> bool) (l : list A) j x :
  forallb f l = true -> nth_error l j = Some x -> f x = true.
Proof.
  intros F N. rewrite forallb_forall in F. apply F. eapply nth_error_In. exact N.
Qed.

(* ------------------------------------------------- unfolding a run -- *)

Lemma history_cons i o ops :
  history i (o :: ops) = (o, snd (iter_step i o)) :: history (fst (iter_step i o)) ops.
Proof.
  unfold history. cbn [iter_run]. destruct (iter_step i o) as [i1 out]. cbn [fst snd].
  destruct (iter_run i1 ops) as [i2 outs]. cbn [snd combine]. reflexivity.
Qed.

Definition current_of (o : iop) (out : iout) (i1 : iter) : list nat :=
  match o, out with
  | OpNext, OutBool true =>
      match it_rows i1 with
      | Some r => match r_current r with Some x => [row_id x] | None => [] end
      | None => []
      end
  | _, _ => []
  end.

Lemma made_current_cons i o ops :
  made_current i (o :: ops) =
  current_of o (snd (iter_step i o)) (fst (iter_step i o)) ++ made_current (fst (iter_step i o)) ops.
Proof.
  cbn [made_current]. destruct (iter_step i o) as [i1 out]. cbn [fst snd]. reflexivity.
Qed.

Lemma step_next i : iter_step i OpNext = (fst (iter_next i), OutBool (snd (iter_next i))).
Proof. cbn [iter_step]. destruct (iter_next i) as [i' b]. reflexivity. Qed.

Lemma step_get i a :
  iter_step i (OpGet a) = (i, OutErr (snd (fst (iter_get i a))) (snd (iter_get i a))).
Proof.
  cbn [iter_step]. pose proof (iter_get_state i a) as G.
  destruct (iter_get i a) as [[i' e] st]. cbn [fst snd] in *. subst. reflexivity.
Qed.

(* --------------------------------------------- the two kinds of state -- *)

Definition no_more (i : iter) : Prop := forall r, it_rows i = Some r -> r_more r = false.

(* the iterator is reading the script rs without incident and has fetched its
   first k rows *)
Definition live_at (rs : list row) (k : nat) (i : iter) : Prop :=
  exists r,
    it_rows i = Some r /\ it_err i = None /\ it_dead i = None /\
    reading r /\ r_pending r = skipn k rs /\ k <= length rs /\
    (k = 0 -> it_started i = false) /\
    (forall j, k = S j ->
       it_started i = true /\ exists x, nth_error rs j = Some x /\ r_current r = Some x).

(* the iteration is over: Next returns false and Get fails from now on *)
Definition dead (i : iter) : Prop := wf_iter i /\ ended i /\ no_more i.

Lemma reading_wf r : reading r -> wf_rows r.
Proof.
  intros [C [L [Fl [Ce [D [Ok [Mo [Xd He]]]]]]]]. unfold wf_rows. rewrite C, D, L, Xd, He.
  repeat split; intros; congruence.
Qed.

Lemma live_wf rs k i : live_at rs k i -> wf_iter i.
Proof.
  intros [r [R [E [D [Rd _]]]]]. unfold wf_iter. rewrite R. auto using reading_wf.
Qed.

Lemma live_no_more rs k i : live_at rs k i -> no_more i.
Proof.
  intros [r [R [E [D [Rd _]]]]] r0 R0. rewrite R in R0. inversion R0; subst. apply Rd.
Qed.

Lemma rows_cancel_more r : r_more (rows_cancel r) = r_more r.
Proof.
  unfold rows_cancel. destruct (r_closed r); [reflexivity|].
  unfold rows_close_with. cbn [r_closed fst rows_with r_more]. reflexivity.
Qed.

(* --------------------------------------------------- steps when dead -- *)

Lemma no_more_step i o : wf_iter i -> no_more i -> no_more (fst (iter_step i o)).
Proof.
  intros W Nm. destruct o.
  - rewrite step_next. cbn [fst]. unfold iter_next.
    destruct (it_err i); [intros r R; cbn [fst it_rows it_with] in R; apply Nm; exact R|].
    destruct (it_rows i) as [r|] eqn:R; [|intros r R'; cbn [fst it_rows it_with] in R'; try rewrite R in R'; discriminate].
    destruct (rows_next r) as [r' b] eqn:N. intros r0 R0. cbn [fst it_rows it_with] in R0.
    inversion R0; subst r0. unfold wf_iter in W. rewrite R in W. destruct W as [W _].
    destruct (rows_next_spec _ _ _ W N) as [_ [_ [_ [_ M]]]]. rewrite M. apply Nm. exact R.
  - rewrite step_get. exact Nm.
  - cbn [iter_step]. destruct (iter_close i) as [i' e] eqn:C. cbn [fst].
    destruct (iter_close_spec _ _ _ W C) as [_ [[R _] _]]. intros r R'. congruence.
  - cbn [iter_step fst]. destruct (it_rows i) as [r|] eqn:R.
    + intros r0 R0. cbn [it_rows it_with] in R0. inversion R0; subst r0.
      rewrite rows_cancel_more. apply Nm. exact R.
    + destruct (it_dead i); intros r0 R0; cbn [it_rows it_with] in R0; congruence.
Qed.

Lemma dead_step i o : dead i -> dead (fst (iter_step i o)).
Proof.
  intros [W [En Nm]]. split; [apply iter_step_wf; exact W|].
  split; [apply ended_step; assumption|apply no_more_step; assumption].
Qed.

Lemma dead_next i : dead i -> snd (iter_next i) = false.
Proof. intros [W [En _]]. apply (ended_next_false i W En). Qed.

Lemma dead_get i : dead i -> snd (fst (iter_get i GValid)) <> None.
Proof.
  intros [W [En Nm]]. destruct (get_guards i GValid) as [G1 G2].
  destruct (it_started i) eqn:S.
  - apply G2; auto.
  - apply G1; [reflexivity|discriminate].
Qed.

(* nothing more is fetched or delivered once the iteration is over *)
Lemma dead_history ops : forall i k,
  dead i ->
  nexts_true (history i ops) = 0 /\ trace_from k (history i ops) = [] /\ made_current i ops = [].
Proof.
  induction ops as [|o ops IH]; intros i k Dd; [repeat split|].
  rewrite history_cons, made_current_cons.
  pose proof (dead_step i o Dd) as Dd1.
  destruct (IH (fst (iter_step i o)) k Dd1) as [A [B C]].
  destruct o.
  - rewrite step_next in *. cbn [fst snd] in *. rewrite (dead_next i Dd).
    cbn [nexts_true trace_from current_of app]. auto.
  - rewrite step_get in *. cbn [fst snd] in *.
    pose proof (dead_get i Dd) as G.
    destruct a; cbn [nexts_true trace_from current_of app]; auto.
    destruct (snd (fst (iter_get i GValid))) as [e|]; [|congruence].
    cbn [nexts_true trace_from current_of app]. auto.
  - cbn [iter_step] in *. destruct (iter_close i) as [i' e]. cbn [fst snd] in *.
    cbn [nexts_true trace_from current_of app]. auto.
  - cbn [iter_step fst snd] in *. cbn [nexts_true trace_from current_of app]. auto.
Qed.

(* ------------------------------------------------ steps when reading -- *)

Lemma live_next_some rs k i :
  live_at rs k i -> k < length rs ->
  exists x, nth_error rs k = Some x /\
            snd (iter_next i) = true /\ live_at rs (S k) (fst (iter_next i)) /\
            current_of OpNext (OutBool true) (fst (iter_next i)) = [row_id x].
Proof.
  intros [r [R [E [D [Rd [P [Le [S0 Sk]]]]]]]] Lt.
  destruct (skipn k rs) as [|x rest] eqn:Sk'.
  { apply skipn_nil_length in Sk'; lia. }
  destruct (skipn_cons_nth rs k x rest Sk') as [Nx [Sr _]].
  destruct (reading_next_some r x rest Rd P) as [r' [N [Rd' [P' [Cu Okx]]]]].
  exists x. split; [exact Nx|]. unfold iter_next. rewrite E, R, N. cbn [fst snd].
  split; [reflexivity|]. split.
  - exists r'. cbn [it_rows it_err it_dead it_started it_with].
    split; [reflexivity|]. split; [reflexivity|]. split; [exact D|]. split; [exact Rd'|].
    split; [congruence|]. split; [lia|]. split; [intros H0; discriminate|].
    intros j Hj. inversion Hj; subst j. split; [reflexivity|]. exists x. auto.
  - cbn [current_of it_rows it_with]. rewrite Cu. reflexivity.
Qed.

Lemma live_next_none rs k i :
  live_at rs k i -> k = length rs ->
  snd (iter_next i) = false /\ dead (fst (iter_next i)).
Proof.
  intros Lv Ek. pose proof (live_wf _ _ _ Lv) as W. pose proof (live_no_more _ _ _ Lv) as Nm.
  destruct Lv as [r [R [E [D [Rd [P [Le [S0 Sk]]]]]]]].
  assert (P0 : r_pending r = []).
  { rewrite P, Ek. apply skipn_all. }
  destruct (reading_next_none r Rd P0) as [r' [N _]].
  assert (Nx : iter_next i = (it_with i (Some r') None true (it_dead i), false)).
  { unfold iter_next. rewrite E, R, N. reflexivity. }
  rewrite Nx. cbn [fst snd]. split; [reflexivity|].
  split; [eapply iter_next_wf; eauto|]. split; [eapply next_false_ended; eauto|].
  pose proof (no_more_step i OpNext W Nm) as K. rewrite step_next, Nx in K. exact K.
Qed.

(* Get with valid destinations: an error before the first Next, then the row
   of the most recent Next *)
Lemma live_get rs k i :
  forallb row_ok rs = true -> live_at rs k i ->
  match k with
  | 0 => snd (fst (iter_get i GValid)) <> None
  | S j => exists x, nth_error rs j = Some x /\
                     snd (fst (iter_get i GValid)) = None /\ snd (iter_get i GValid) = StRow (row_id x)
  end.
Proof.
  intros Ok [r [R [E [D [Rd [P [Le [S0 Sk]]]]]]]]. destruct k as [|j].
  - unfold iter_get. rewrite E, (S0 eq_refl). cbn [negb fst snd]. discriminate.
  - destruct (Sk j eq_refl) as [St [x [Nx Cu]]]. exists x. split; [exact Nx|].
    pose proof (forallb_nth _ _ _ _ Ok Nx) as Okx.
    unfold iter_get. rewrite E, St, R. cbn [negb]. unfold rows_scan.
    destruct Rd as [C [L _]]. rewrite L, C, Cu, Okx. cbn [fst snd]. auto.
Qed.

Lemma live_close_dead rs k i : live_at rs k i -> dead (fst (iter_step i OpClose)).
Proof.
  intros Lv. pose proof (live_wf _ _ _ Lv) as W. pose proof (live_no_more _ _ _ Lv) as Nm.
  split; [apply iter_step_wf; exact W|]. split; [|apply no_more_step; assumption].
  cbn [iter_step]. destruct (iter_close i) as [i' e] eqn:C. cbn [fst].
  destruct (iter_close_spec _ _ _ W C) as [_ [[R _] _]]. right. left. exact R.
Qed.

Lemma live_cancel_dead rs k i : live_at rs k i -> dead (fst (iter_step i OpCancel)).
Proof.
  intros Lv. pose proof (live_wf _ _ _ Lv) as W. pose proof (live_no_more _ _ _ Lv) as Nm.
  split; [apply iter_step_wf; exact W|]. split; [|apply no_more_step; assumption].
  destruct Lv as [r [R [E [D [Rd _]]]]]. cbn [iter_step fst]. rewrite R.
  right. right. exists (rows_cancel r). cbn [it_rows it_with]. split; [reflexivity|].
  left. apply (rows_cancel_spec r (reading_wf r Rd)).
Qed.

(* ------------------------------------------------------ main lemma -- *)

(* an entry (k, id) of the trace is right when k >= 1 and id is the k-th row
   of the driver *)
Definition entry_ok (ids : list nat) (p : nat * nat) : Prop :=
  exists j, fst p = S j /\ nth_error ids j = Some (snd p).

Lemma live_history rs ops : forallb row_ok rs = true -> forall i k,
  live_at rs k i ->
  k + nexts_true (history i ops) <= length rs /\
  Forall (entry_ok (map row_id rs)) (trace_from k (history i ops)) /\
  made_current i ops = firstn (nexts_true (history i ops)) (skipn k (map row_id rs)).
Proof.
  intros Ok. induction ops as [|o ops IH]; intros i k Lv.
  { cbn [history combine nexts_true trace_from made_current firstn].
    assert (Le : k <= length rs) by (destruct Lv as [r [_ [_ [_ [_ [_ [Le _]]]]]]]; exact Le).
    split; [lia|]. split; [constructor|reflexivity]. }
  assert (Le : k <= length rs) by (destruct Lv as [r [_ [_ [_ [_ [_ [Le _]]]]]]]; exact Le).
  rewrite history_cons, made_current_cons. destruct o.
  - (* Next *)
    rewrite step_next. cbn [fst snd].
    destruct (Nat.eq_dec k (length rs)) as [Ek|Nk].
    + destruct (live_next_none rs k i Lv Ek) as [B Dd]. rewrite B.
      destruct (dead_history ops _ k Dd) as [A1 [A2 A3]].
      cbn [nexts_true trace_from current_of app]. rewrite A1, A2, A3.
      split; [lia|]. split; [constructor|reflexivity].
    + destruct (live_next_some rs k i Lv ltac:(lia)) as [x [Nx [B [Lv1 Cu]]]]. rewrite B, Cu.
      destruct (IH _ _ Lv1) as [A1 [A2 A3]].
      cbn [nexts_true trace_from]. split; [lia|]. split; [exact A2|].
      rewrite A3. rewrite (skipn_nth_cons (map row_id rs) k (row_id x)).
      * reflexivity.
      * rewrite nth_error_map, Nx. reflexivity.
  - (* Get *)
    rewrite step_get. cbn [fst snd].
    destruct (IH _ _ Lv) as [A1 [A2 A3]].
    destruct a; cbn [nexts_true trace_from current_of app]; auto.
    pose proof (live_get rs k i Ok Lv) as G. destruct k as [|j].
    + destruct (snd (fst (iter_get i GValid))) as [e|]; [|congruence].
      cbn [nexts_true trace_from]. auto.
    + destruct G as [x [Nx [Ge Gs]]]. rewrite Ge, Gs. cbn [nexts_true trace_from].
      split; [exact A1|]. split; [|exact A3].
      constructor; [|exact A2]. exists j. cbn [fst snd]. split; [reflexivity|].
      rewrite nth_error_map, Nx. reflexivity.
  - (* Close *)
    pose proof (live_close_dead rs k i Lv) as Dd.
    destruct (dead_history ops _ k Dd) as [A1 [A2 A3]].
    cbn [iter_step] in *. destruct (iter_close i) as [i' e]. cbn [fst snd] in *.
    cbn [nexts_true trace_from current_of app]. rewrite A1, A2, A3.
    split; [lia|]. split; [constructor|reflexivity].
  - (* the context is cancelled *)
    pose proof (live_cancel_dead rs k i Lv) as Dd.
    destruct (dead_history ops _ k Dd) as [A1 [A2 A3]].
    cbn [iter_step fst snd] in *.
    cbn [nexts_true trace_from current_of app]. rewrite A1, A2, A3.
    split; [lia|]. split; [constructor|reflexivity].
Qed.

Lemma query_iter_live hasout r :
  reading r -> live_at (r_pending r) 0 (query_iter None hasout (RunRows r)).
Proof.
  intros Rd.
  assert (Q : query_iter None hasout (RunRows r) =
              {| it_hasout := hasout; it_rows := Some r; it_err := None; it_started := false;
                 it_result := None; it_dead := None |}).
  { unfold query_iter, rows_columns. destruct Rd as [C _]. rewrite C. destruct hasout; reflexivity. }
  rewrite Q. exists r. cbn [it_rows it_err it_dead it_started skipn].
  split; [reflexivity|]. split; [reflexivity|]. split; [reflexivity|]. split; [exact Rd|].
  split; [reflexivity|]. split; [lia|]. split; [reflexivity|].
  intros j Hj. discriminate.
Qed.

(* C14: rows in driver order, each made current once, for every sequence of
   calls (Next, Get with any arguments, Close, cancellation of the context, in
   any order and number) on the iterator of a query whose result is read
   without incident.
   (i)  The rows made current by the Next calls that return true are a prefix
        of the driver's rows: made_current = firstn n ids, n <= length ids.
   (ii) Every Get with valid destinations that succeeds delivers the row made
        current by the most recent successful Next: entry (k, id) of the trace
        has k >= 1 and id = the k-th row of the driver. *)
Theorem rows_in_order hasout r ops :
  reading r ->
  let ids := map row_id (r_pending r) in
  let i0 := query_iter None hasout (RunRows r) in
  let h := history i0 ops in
  nexts_true h <= length ids /\
  made_current i0 ops = firstn (nexts_true h) ids /\
  Forall (fun '(k, id) => exists j, k = S j /\ nth_error ids j = Some id) (trace h).
Proof.
  intros Rd ids i0 h.
  assert (Ok : forallb row_ok (r_pending r) = true) by apply Rd.
  destruct (live_history (r_pending r) ops Ok i0 0 (query_iter_live hasout r Rd)) as [A1 [A2 A3]].
  fold h in A1, A2, A3. unfold ids. rewrite map_length.
  split; [lia|]. split; [exact A3|].
  unfold trace. eapply Forall_impl; [|exact A2].
  intros [k id] [j [H1 H2]]. exists j. auto.
Qed.

(* the rows delivered are rows of the driver, at positions that never go back:
   the application cannot see the rows out of order *)
Fixpoint nondecreasing (l : list nat) : Prop :=
  match l with
  | [] => True
  | x :: t => (match t with [] => True | y :: _ => x <= y end) /\ nondecreasing t
  end.

Lemma trace_from_ge h : forall k, Forall (fun p => k <= fst p) (trace_from k h).
Proof.
  induction h as [|[o out] h IH]; intros k; [constructor|].
  assert (D : Forall (fun p => k <= fst p) (trace_from k h)) by apply IH.
  assert (D1 : Forall (fun p => k <= fst p) (trace_from (S k) h)).
  { eapply Forall_impl; [|apply (IH (S k))]. intros p Hp. simpl in Hp. lia. }
  destruct o as [|a| |]; cbn [trace_from]; try exact D.
  - destruct out as [[|]|e st|]; assumption.
  - destruct a; try exact D. destruct out as [b|[e|] [|id|res]|]; try exact D.
    constructor; [simpl; lia|exact D].
Qed.

Lemma trace_positions_nondecreasing h : forall k, nondecreasing (map fst (trace_from k h)).
Proof.
  induction h as [|[o out] h IH]; intros k; [exact I|].
  destruct o as [|a| |]; cbn [trace_from]; try apply IH.
  - destruct out as [[|]|e st|]; apply IH.
  - destruct a; try apply IH. destruct out as [b|[e|] [|id|res]|]; try apply IH.
    cbn [map nondecreasing]. split; [|apply IH].
    pose proof (trace_from_ge h k) as G.
    destruct (trace_from k h) as [|p t]; [exact I|]. inversion G; subst. cbn [map]. assumption.
Qed.

(* complete reading: Next; Get until Next returns false delivers every row of
   the driver, in order, each once *)
Fixpoint read_all (n : nat) : list iop :=
  match n with O => [OpNext] | S m => OpNext :: OpGet GValid :: read_all m end.

Lemma read_all_delivers rs : forallb row_ok rs = true -> forall n i k,
  live_at rs k i -> k + n = length rs ->
  map snd (trace_from k (history i (read_all n))) = skipn k (map row_id rs) /\
  nexts_true (history i (read_all n)) = n.
Proof.
  intros Ok. induction n as [|n IH]; intros i k Lv Len.
  - cbn [read_all]. rewrite history_cons, step_next. cbn [fst snd].
    destruct (live_next_none rs k i Lv ltac:(lia)) as [B Dd]. rewrite B.
    cbn [history iter_run snd combine trace_from nexts_true map].
    rewrite skipn_all2; [auto|rewrite map_length; lia].
  - cbn [read_all]. rewrite history_cons, step_next. cbn [fst snd].
    destruct (live_next_some rs k i Lv ltac:(lia)) as [x [Nx [B [Lv1 Cu]]]]. rewrite B.
    rewrite history_cons, step_get. cbn [fst snd].
    destruct (live_get rs (S k) _ Ok Lv1) as [y [Ny [Ge Gs]]]. rewrite Ge, Gs.
    rewrite Nx in Ny. inversion Ny; subst y.
    cbn [trace_from nexts_true map snd].
    destruct (IH _ (S k) Lv1 ltac:(lia)) as [A1 A2]. rewrite A1, A2.
    split; [|reflexivity]. symmetry. apply skipn_nth_cons. rewrite nth_error_map, Nx. reflexivity.
Qed.

Theorem read_all_complete hasout r :
  reading r ->
  delivered (history (query_iter None hasout (RunRows r)) (read_all (length (r_pending r)))) =
  map row_id (r_pending r).
Proof.
  intros Rd. assert (Ok : forallb row_ok (r_pending r) = true) by apply Rd.
  unfold delivered, trace.
  destruct (read_all_delivers (r_pending r) Ok (length (r_pending r)) _ 0 (query_iter_live hasout r Rd) eq_refl)
    as [A _].
  exact A.
Qed.
