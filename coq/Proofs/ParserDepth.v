(* C02, parentheses: skipEnclosedParentheses returns at the matching
   parenthesis, and a literal value of an INSERT is a run of whole string
   literals, whole comments, balanced parenthesised groups and other bytes that
   stops at the first top-level ',' or ')'.

   Specification, independent of the parser: the automaton of ParserLex.v
   extended with a parenthesis depth ([dstep]/[drun]).  A byte '(' or ')' counts
   only where the automaton is outside literals and comments; a ')' at depth 0
   makes the run fail (None), and so does, in "literal mode" (sc = true), a ','
   at depth 0.

   [at_d a s st]: the run over the text between the states a and s is st. *)
From SQLair.Base Require Import Bytes Utf8.
From SQLair.Model Require Import GenUnicode GenConsts Parser.
From SQLair.Proofs Require Import Utf8Facts ParserExt ParserTiling ParserFuel ParserLex ParserLexMain
  ParserSigil ParserNames.
Local Open Scope N_scope.

(* ------------------------------------------------------- the automaton -- *)

Definition dst := option (lexstate * nat).

Definition dstep (sc : bool) (st : dst) (b : N) : dst :=
  match st with
  | None => None
  | Some (q, d) =>
      if normal_like q then
        if b =? 40 then Some (lex_step q b, S d)
        else if b =? 41 then match d with O => None | S d' => Some (lex_step q b, d') end
        else if (b =? 44) && sc && Nat.eqb d 0 then None
        else Some (lex_step q b, d)
      else Some (lex_step q b, d)
  end.

Definition drun (sc : bool) (st : dst) (bs : str) : dst := fold_left (dstep sc) bs st.

Lemma drun_app sc st a b : drun sc st (a ++ b) = drun sc (drun sc st a) b.
Proof. unfold drun. apply fold_left_app. Qed.

Lemma drun_none sc bs : drun sc None bs = None.
Proof. induction bs as [|b t IH]; [reflexivity|exact IH]. Qed.

(* the automaton state of a run is the state of the plain automaton *)
Lemma drun_q sc : forall bs q d q' d', drun sc (Some (q, d)) bs = Some (q', d') -> q' = lexq q bs.
Proof.
  induction bs as [|b t IH]; intros q d q' d' H.
  - inversion H; subst. reflexivity.
  - change (drun sc (Some (q, d)) (b :: t)) with (drun sc (dstep sc (Some (q, d)) b) t) in H.
    change (lexq q (b :: t)) with (lexq (lex_step q b) t).
    destruct (dstep sc (Some (q, d)) b) as [[q1 d1]|] eqn:S; [|rewrite drun_none in H; discriminate].
    assert (Q : q1 = lex_step q b).
    { unfold dstep in S. destruct (normal_like q); [|inversion S; reflexivity].
      destruct (b =? 40); [inversion S; reflexivity|].
      destruct (b =? 41); [destruct d; [discriminate|inversion S; reflexivity]|].
      destruct ((b =? 44) && sc && Nat.eqb d 0)%bool; [discriminate|inversion S; reflexivity]. }
    subst q1. eapply IH. exact H.
Qed.

(* a byte that does not count *)
Definition skips (sc : bool) (q : lexstate) (d : nat) (b : N) : Prop :=
  normal_like q = false \/ (b <> 40 /\ b <> 41 /\ (b <> 44 \/ sc = false \/ d <> O)).

Lemma dstep_skip sc q d b : skips sc q d b -> dstep sc (Some (q, d)) b = Some (lex_step q b, d).
Proof.
  intros [H|[H1 [H2 H3]]]; unfold dstep; [rewrite H; reflexivity|].
  destruct (normal_like q); [|reflexivity].
  apply N.eqb_neq in H1. apply N.eqb_neq in H2. rewrite H1, H2.
  destruct H3 as [H3|[H3|H3]].
  - apply N.eqb_neq in H3. rewrite H3. reflexivity.
  - subst sc. rewrite andb_false_r. reflexivity.
  - apply Nat.eqb_neq in H3. rewrite H3, andb_false_r. reflexivity.
Qed.

Lemma drun_high sc : forall bs q d,
  (forall b, In b bs -> 128 <= b) -> drun sc (Some (q, d)) bs = Some (lexq q bs, d).
Proof.
  induction bs as [|b t IH]; intros q d H; [reflexivity|].
  change (drun sc (Some (q, d)) (b :: t)) with (drun sc (dstep sc (Some (q, d)) b) t).
  assert (Hb : 128 <= b) by (apply H; left; reflexivity).
  rewrite dstep_skip by (right; repeat split; try lia; left; lia).
  rewrite IH by (intros x Hx; apply H; right; exact Hx). reflexivity.
Qed.

(* ------------------------------------------------ runs between states -- *)

Section Depth.
  Variable sc : bool.
  Variable st0 : dst.

  Definition at_d (a s : pstate) (st : dst) : Prop := ext a s /\ drun sc st0 (slice a s) = st.

  Lemma at_d_init a : at_d a a st0.
  Proof. split; [apply ext_refl|]. rewrite slice_same. reflexivity. Qed.

  Lemma at_d_consume a s s' st : at_d a s st -> ext s s' -> at_d a s' (drun sc st (slice s s')).
  Proof.
    intros [E R] X. split; [eapply ext_trans; eassumption|].
    rewrite (slice_app _ _ _ E X), drun_app, R. reflexivity.
  Qed.

  (* stepping over a rune that does not count *)
  Lemma at_d_advance a s q d :
    at_d a s (Some (q, d)) -> at_end s = false -> skips sc q d (cur s) ->
    at_d a (advance s) (Some (step_rune q (cur s), d)).
  Proof.
    intros A AE K. pose proof (at_d_consume _ _ _ _ A (advance_ext s)) as A'.
    replace (Some (step_rune q (cur s), d)) with (drun sc (Some (q, d)) (slice s (advance s))); [exact A'|].
    unfold step_rune. destruct (slice_advance s AE) as [[L E]|[L [NE Hb]]].
    - rewrite E. apply N.ltb_lt in L. rewrite L. cbn [drun fold_left]. apply dstep_skip. exact K.
    - rewrite (drun_high sc _ _ _ Hb). apply N.ltb_ge in L. rewrite L.
      rewrite lexq_plain; [reflexivity|exact NE|]. intros b Hin. apply high_plain. apply Hb. exact Hin.
  Qed.

  Lemma ascii_slice s c : at_end s = false -> cur s = c -> c < 128 -> slice s (advance s) = [c].
  Proof.
    intros AE C L. destruct (slice_advance s AE) as [[_ E]|[G _]]; [rewrite E, C; reflexivity|].
    rewrite C in G. lia.
  Qed.

  Lemma at_d_open a s q d :
    at_d a s (Some (q, d)) -> at_end s = false -> cur s = 40 -> normal_like q = true ->
    at_d a (advance s) (Some (Normal, S d)).
  Proof.
    intros A AE C NL. pose proof (at_d_consume _ _ _ _ A (advance_ext s)) as A'.
    rewrite (ascii_slice s 40 AE C) in A' by reflexivity. cbn [drun fold_left dstep] in A'.
    rewrite NL in A'. cbn in A'. destruct q; try discriminate NL; exact A'.
  Qed.

  Lemma at_d_close a s q d :
    at_d a s (Some (q, S d)) -> at_end s = false -> cur s = 41 -> normal_like q = true ->
    at_d a (advance s) (Some (Normal, d)).
  Proof.
    intros A AE C NL. pose proof (at_d_consume _ _ _ _ A (advance_ext s)) as A'.
    rewrite (ascii_slice s 41 AE C) in A' by reflexivity. cbn [drun fold_left dstep] in A'.
    rewrite NL in A'. cbn in A'. destruct q; try discriminate NL; exact A'.
  Qed.

  (* the plain automaton agrees: the run started where the plain automaton was
     in the state of st0 *)
  Variable inp : str.
  Variable a0 : pstate.
  Variable q0 : lexstate.
  Variable d0 : nat.
  Hypothesis Hst0 : st0 = Some (q0, d0).
  Hypothesis Ha0 : at_q inp a0 q0.

  Lemma at_d_at_q s q d : at_d a0 s (Some (q, d)) -> at_q inp s q.
  Proof using Hst0 Ha0.
    intros [E R]. rewrite Hst0 in R. apply drun_q in R. subst q.
    eapply at_q_consume; [exact Ha0|apply slice_ext; exact E].
  Qed.

  Lemma at_d_good s q d : at_d a0 s (Some (q, d)) -> synced inp s -> good q s.
  Proof using Hst0 Ha0.
    intros A [q' [A' G]]. pose proof (at_d_at_q _ _ _ A) as A2.
    rewrite (at_q_fun _ _ _ _ A2 A'). exact G.
  Qed.

  Notation atd := (at_d a0).

  (* ----------------------------------------------------- string literal -- *)

  Lemma inq_not_normal c : (c = 34 \/ c = 39) -> normal_like (inq c) = false.
  Proof. intros [C|C]; subst c; reflexivity. Qed.

  Lemma quote_skips c q d : (c = 34 \/ c = 39) -> skips sc q d c.
  Proof. intros [C|C]; subst c; right; repeat split; try discriminate; left; discriminate. Qed.

  Lemma skipCharFind_loop_d c (Hc : c = 34 \/ c = 39) fuel : forall s s' d,
    skipCharFind_loop fuel c s = Some (Some s') ->
    (atd s (Some (inq c, d)) -> atd s' (Some (Normal, d))) /\
    (atd s (Some (Normal, d)) -> peekChar c s = true -> atd s' (Some (inq c, d))).
  Proof.
    induction fuel as [|f IH]; intros s s' d H; simpl in H; [discriminate|].
    destruct (at_end s) eqn:AE; [discriminate|].
    destruct (cur s =? c) eqn:C.
    - inversion H; subst. apply N.eqb_eq in C. split.
      + intros A. pose proof (at_d_advance _ _ _ _ A AE (or_introl (inq_not_normal _ Hc))) as A'.
        rewrite C, step_rune_inq_close in A'; assumption.
      + intros A _. assert (K : skips sc Normal d (cur s)) by (rewrite C; apply quote_skips; exact Hc).
        pose proof (at_d_advance _ _ _ _ A AE K) as A'. rewrite C, step_rune_open in A'; assumption.
    - apply N.eqb_neq in C. destruct (IH _ _ d H) as [IH1 _]. split.
      + intros A. apply IH1.
        pose proof (at_d_advance _ _ _ _ A AE (or_introl (inq_not_normal _ Hc))) as A'.
        rewrite step_rune_inq in A'; assumption.
      + intros _ P. unfold peekChar in P. rewrite AE in P. simpl in P. apply N.eqb_eq in P. congruence.
  Qed.

  Lemma skipCharFind_d c (Hc : c = 34 \/ c = 39) s s' u d :
    skipCharFind c s = (s', Ok u) ->
    (atd s (Some (inq c, d)) -> atd s' (Some (Normal, d))) /\
    (atd s (Some (Normal, d)) -> peekChar c s = true -> atd s' (Some (inq c, d))).
  Proof.
    unfold skipCharFind. destruct (skipCharFind_loop (fuel_of s) c s) as [[s1|]|] eqn:E; intros H; inversion H; subst.
    eapply skipCharFind_loop_d; eassumption.
  Qed.

  Lemma strlit_loop_d c (Hc : c = 34 \/ c = 39) fuel : forall m s s' d,
    strlit_loop fuel c m s = Some (Some s') ->
    (if m then atd s (Some (inq c, d)) else atd s (Some (Normal, d)) /\ peekChar c s = true) ->
    atd s' (Some (Normal, d)).
  Proof.
    induction fuel as [|f IH]; intros m s s' d H I; simpl in H; [discriminate|].
    destruct (skipCharFind c s) as [s1 [u| |e]] eqn:E; try discriminate.
    destruct (skipCharFind_d c Hc _ _ _ d E) as [F1 F2].
    destruct m.
    - specialize (F1 I). simpl in H. destruct (peekChar c s1) eqn:P; simpl in H.
      + eapply IH; [exact H|]. simpl. auto.
      + inversion H; subst. exact F1.
    - destruct I as [I P]. specialize (F2 I P). simpl in H. eapply IH; [exact H|]. exact F2.
  Qed.

  Lemma good_open_quote q s c :
    (c = 34 \/ c = 39) -> good q s -> at_end s = false -> cur s = c -> step_rune q c = inq c.
  Proof.
    intros Hc G AE C. assert (C10 : c <> 10) by (destruct Hc; lia).
    good_cases q G; try (destruct Hc as [Hc|Hc]; rewrite Hc; reflexivity).
    destruct G as [G|G]; [discriminate|]. congruence.
  Qed.

  (* a string literal does not change the depth *)
  Lemma skipStringLiteral_d s s' v q d :
    synced inp s -> atd s (Some (q, d)) -> skipStringLiteral s = (s', Ok v) -> atd s' (Some (Normal, d)).
  Proof using Hst0 Ha0.
    intros S A H. pose proof (at_d_good _ _ _ A S) as G. unfold skipStringLiteral in H.
    assert (Fin : forall c, (c = 34 \/ c = 39) -> at_end s = false -> cur s = c ->
              match strlit_loop (fuel_of (advance s)) (cur s) true (advance s) with
              | None => (advance s, Err (efuel (advance s)))
              | Some (Some st3) => (st3, Ok tt)
              | Some None => (s, Err (errorAt EMissingQuote [] (line s) (colNum s)))
              end = (s', Ok v) -> atd s' (Some (Normal, d))).
    { intros c Hc AE C HL.
      destruct (strlit_loop (fuel_of (advance s)) (cur s) true (advance s)) as [[s3|]|] eqn:L;
        inversion HL; subst.
      eapply (strlit_loop_d (cur s)); [exact Hc|exact L|]. cbn.
      pose proof (at_d_advance _ _ _ _ A AE (quote_skips _ q d Hc)) as A'.
      rewrite (good_open_quote _ _ _ Hc G AE eq_refl) in A'. exact A'. }
    destruct (skipChar ch_dquote s) as [s1 ok1] eqn:E1. destruct ok1.
    - apply skipChar_true in E1. destruct E1 as [AE [C E1]]. subst s1.
      eapply (Fin 34); [left; reflexivity|exact AE|exact C|exact H].
    - apply skipChar_false in E1. subst s1.
      destruct (skipChar ch_squote s) as [s2 ok2] eqn:E2. destruct ok2; [|discriminate].
      apply skipChar_true in E2. destruct E2 as [AE [C E2]]. subst s2.
      eapply (Fin 39); [right; reflexivity|exact AE|exact C|exact H].
  Qed.

  (* --------------------------------------------------------------- comment -- *)

  Lemma comment_loop_line_d fuel : forall s s' d,
    comment_loop fuel ch_nl s = Some s' -> atd s (Some (InLine, d)) -> atd s' (Some (InLine, d)).
  Proof.
    induction fuel as [|f IH]; intros s s' d H A; simpl in H; [discriminate|].
    destruct (at_end s) eqn:AE; [inversion H; subst; auto|].
    destruct (cur s =? ch_nl) eqn:C.
    - change (ch_nl =? ch_star) with false in H. cbv iota in H. inversion H; subst. exact A.
    - apply N.eqb_neq in C. apply (IH _ _ _ H).
      pose proof (at_d_advance _ _ _ _ A AE (or_introl eq_refl)) as A'.
      replace (step_rune InLine (cur s)) with InLine in A'; [exact A'|].
      unfold step_rune. destruct (cur s <? 128); [|reflexivity]. unfold lex_step, ch_nl in *. eqb_cases; reflexivity.
  Qed.

  Lemma comment_loop_block_d fuel : forall s s' d,
    comment_loop fuel ch_star s = Some s' ->
    (atd s (Some (InBlock, d)) \/ (atd s (Some (InBlockStar, d)) /\ peekChar 47 s = false)) ->
    exists q', atd s' (Some (q', d)).
  Proof.
    induction fuel as [|f IH]; intros s s' d H A; simpl in H; [discriminate|].
    destruct (at_end s) eqn:AE.
    { inversion H; subst. destruct A as [A|[A _]]; eauto. }
    assert (A1 : forall q, normal_like q = false -> atd s (Some (q, d)) ->
                 atd (advance s) (Some (step_rune q (cur s), d)))
      by (intros q NQ Aq; apply at_d_advance; [exact Aq|exact AE|left; exact NQ]).
    destruct (cur s =? ch_star) eqn:C.
    - change (ch_star =? ch_star) with true in H. cbv iota in H. apply N.eqb_eq in C.
      assert (AS : atd (advance s) (Some (InBlockStar, d))).
      { destruct A as [A|[A _]]; apply A1 in A; try reflexivity; rewrite C in A; exact A. }
      destruct (skipChar ch_slash (advance s)) as [s2 ok] eqn:E. destruct ok.
      + inversion H; subst. apply skipChar_true in E. destruct E as [AE2 [C2 E]]. subst s'.
        eexists. apply (at_d_advance _ _ _ _ AS AE2). left. reflexivity.
      + apply skipChar_false' in E. destruct E as [E P]. subst s2.
        apply (IH _ _ _ H). right. auto.
    - apply N.eqb_neq in C. apply (IH _ _ _ H). left.
      destruct A as [A|[A P]]; apply A1 in A; try reflexivity.
      + replace (step_rune InBlock (cur s)) with InBlock in A; [exact A|].
        unfold step_rune. destruct (cur s <? 128); [|reflexivity]. unfold lex_step, ch_star in *. eqb_cases; reflexivity.
      + unfold peekChar in P. rewrite AE in P. simpl in P. apply N.eqb_neq in P.
        replace (step_rune InBlockStar (cur s)) with InBlock in A; [exact A|].
        unfold step_rune. destruct (cur s <? 128); [|reflexivity]. unfold lex_step, ch_star in *. eqb_cases; reflexivity.
  Qed.

  Lemma minus_skips q d : skips sc q d 45.
  Proof. right. repeat split; try discriminate. left. discriminate. Qed.
  Lemma slash_skips q d : skips sc q d 47.
  Proof. right. repeat split; try discriminate. left. discriminate. Qed.
  Lemma star_skips q d : skips sc q d 42.
  Proof. right. repeat split; try discriminate. left. discriminate. Qed.

  (* a comment does not change the depth (whatever skipComment returns) *)
  Lemma skipComment_d s s' r q d :
    synced inp s -> atd s (Some (q, d)) -> skipComment s = (s', r) -> exists q', atd s' (Some (q', d)).
  Proof using Hst0 Ha0.
    intros S A H. pose proof (at_d_good _ _ _ A S) as G. apply skipComment_cases in H.
    destruct H as [[_ [H _]]|[[_ [P1 [P2 L]]]|[_ [P1 [P2 L]]]]].
    - subst s'. eauto.
    - apply peekChar_true in P1. destruct P1 as [AE1 C1].
      apply peekChar_true in P2. destruct P2 as [AE2 C2].
      assert (K1 : skips sc q d (cur s)) by (rewrite C1; apply minus_skips).
      pose proof (at_d_advance _ _ _ _ A AE1 K1) as A1. rewrite C1 in A1.
      assert (K2 : skips sc (step_rune q 45) d (cur (advance s))) by (rewrite C2; apply minus_skips).
      pose proof (at_d_advance _ _ _ _ A1 AE2 K2) as A2. rewrite C2 in A2.
      assert (Q : step_rune (step_rune q 45) 45 = InLine).
      { good_cases q G; reflexivity. }
      rewrite Q in A2. eexists. eapply comment_loop_line_d; eassumption.
    - apply peekChar_true in P1. destruct P1 as [AE1 C1].
      apply peekChar_true in P2. destruct P2 as [AE2 C2].
      assert (K1 : skips sc q d (cur s)) by (rewrite C1; apply slash_skips).
      pose proof (at_d_advance _ _ _ _ A AE1 K1) as A1. rewrite C1 in A1.
      assert (K2 : skips sc (step_rune q 47) d (cur (advance s))) by (rewrite C2; apply star_skips).
      pose proof (at_d_advance _ _ _ _ A1 AE2 K2) as A2. rewrite C2 in A2.
      assert (Q : step_rune (step_rune q 47) 42 = InBlock).
      { good_cases q G; try reflexivity.
        destruct G as [G|G]; [discriminate|]. rewrite C1 in G. discriminate. }
      rewrite Q in A2. eapply comment_loop_block_d; [exact L|left; exact A2].
  Qed.

  (* ----------------------------------------------------------- parentheses -- *)

  Lemma good_normal_like q s : good q s -> at_end s = false -> cur s <> 10 -> normal_like q = true.
  Proof.
    intros G AE C. good_cases q G; try reflexivity.
    destruct G as [G|G]; [discriminate|]. congruence.
  Qed.

  Lemma peek_false_cur c s : peekChar c s = false -> at_end s = false -> cur s <> c.
  Proof. unfold peekChar. intros P AE. rewrite AE in P. simpl in P. apply N.eqb_neq. exact P. Qed.

  (* The loop of skipEnclosedParentheses, entered with parenCount = n at depth
     D + (n - 1) (D: the depth just inside the group being skipped), leaves at
     the first ')' read at depth D outside literals and comments: the run never
     fails before, i.e. never goes below D. *)
  Lemma parens_loop_d fuel : forall n s s' q D,
    parens_loop fuel n s = (s', Ok O) -> (1 <= n)%nat -> (sc = false \/ (1 <= D)%nat) ->
    synced inp s -> atd s (Some (q, (D + (n - 1))%nat)) ->
    exists sb q2, ext s sb /\ atd sb (Some (q2, D)) /\ normal_like q2 = true /\
      at_end sb = false /\ cur sb = 41 /\ s' = advance sb.
  Proof using Hst0 Ha0.
    induction fuel as [|f IH]; intros n s s' q D H N K Sy A; [simpl in H; discriminate|].
    destruct n as [|n']; [lia|]. cbn [parens_loop] in H. replace (S n' - 1)%nat with n' in A by lia.
    destruct (at_end s) eqn:AE; [discriminate|].
    assert (Next : forall n2 s2 q2', ext s s2 -> synced inp s2 -> (1 <= n2)%nat ->
              atd s2 (Some (q2', (D + (n2 - 1))%nat)) -> parens_loop f n2 s2 = (s', Ok O) ->
              exists sb q2, ext s sb /\ atd sb (Some (q2, D)) /\ normal_like q2 = true /\
                at_end sb = false /\ cur sb = 41 /\ s' = advance sb).
    { intros n2 s2 q2' X2 S2 N2 A2 H2. destruct (IH _ _ _ _ _ H2 N2 K S2 A2) as [sb [q2 [X R]]].
      exists sb, q2. split; [eapply ext_trans; eassumption|exact R]. }
    destruct (skipStringLiteral s) as [s1 [u| |e]] eqn:E1; [| |discriminate].
    - eapply (Next (S n') s1 Normal); [| |lia| |exact H].
      + exact (ext_prf (f:=skipStringLiteral) _ _ _ _ (ext_refl _) E1).
      + exact (sync_prf (f:=skipStringLiteral) _ _ _ _ Sy E1).
      + replace (S n' - 1)%nat with n' by lia. eapply skipStringLiteral_d; eassumption.
    - pose proof (skipStringLiteral_no _ _ E1) as [R1 _]. subst s1.
      destruct (skipComment s) as [s2 [u| |e]] eqn:E2; [| |discriminate].
      + destruct (skipComment_d _ _ _ _ _ Sy A E2) as [q' A2].
        eapply (Next (S n') s2 q'); [| |lia| |exact H].
        * exact (ext_prf (f:=skipComment) _ _ _ _ (ext_refl _) E2).
        * exact (sync_prf (f:=skipComment) _ _ _ _ Sy E2).
        * replace (S n' - 1)%nat with n' by lia. exact A2.
      + pose proof (restore_prf (f:=skipComment) _ _ E2) as R2. subst s2.
        pose proof (at_d_good _ _ _ A Sy) as G.
        destruct (skipChar ch_lparen s) as [s3 ok3] eqn:E3. destruct ok3.
        * pose proof (skipChar_norm ch_lparen inp _ _ eq_refl Sy E3) as N3.
          apply skipChar_true in E3. destruct E3 as [_ [C3 E3]]. subst s3.
          assert (NL : normal_like q = true)
            by (eapply good_normal_like; [exact G|exact AE|rewrite C3; discriminate]).
          eapply (Next (S (S n')) (advance s) Normal); [apply advance_ext|apply snorm_synced; exact N3|lia| |exact H].
          replace (D + (S (S n') - 1))%nat with (S (D + n')) by lia.
          eapply at_d_open; eassumption.
        * apply skipChar_false' in E3. destruct E3 as [E3 P3]. subst s3.
          destruct (skipChar ch_rparen s) as [s4 ok4] eqn:E4. destruct ok4.
          -- pose proof (skipChar_norm ch_rparen inp _ _ eq_refl Sy E4) as N4.
             apply skipChar_true in E4. destruct E4 as [_ [C4 E4]]. subst s4.
             assert (NL : normal_like q = true)
               by (eapply good_normal_like; [exact G|exact AE|rewrite C4; discriminate]).
             cbn [pred] in H. destruct n' as [|n''].
             ++ destruct f as [|f']; cbn [parens_loop] in H; [discriminate|]. inversion H; subst s'.
                exists s, q. rewrite Nat.add_0_r in A. split; [apply ext_refl|]. auto 6.
             ++ eapply (Next (S n'') (advance s) Normal); [apply advance_ext|apply snorm_synced; exact N4|lia| |exact H].
                replace (D + (S n'' - 1))%nat with (D + n'')%nat by lia.
                replace (D + S n'')%nat with (S (D + n'')) in A by lia.
                eapply at_d_close; eassumption.
          -- apply skipChar_false' in E4. destruct E4 as [E4 P4]. subst s4.
             assert (S5 : synced inp (advance s)) by (eapply advance_other; [exact Sy|exact E1|exact E2]).
             eapply (Next (S n') (advance s)); [apply advance_ext|exact S5|lia| |exact H].
             replace (S n' - 1)%nat with n' by lia.
             apply at_d_advance; [exact A|exact AE|]. right.
             split; [apply peek_false_cur; assumption|]. split; [apply peek_false_cur; assumption|].
             destruct K as [K|K]; [right; left; exact K|right; right; lia].
  Qed.

  (* a parenthesised group does not change the depth *)
  Lemma skipEnclosedParentheses_d s s' v q D :
    synced inp s -> atd s (Some (q, D)) -> skipEnclosedParentheses s = (s', Ok v) ->
    atd s' (Some (Normal, D)).
  Proof using Hst0 Ha0.
    intros Sy A H. pose proof (at_d_good _ _ _ A Sy) as G. unfold skipEnclosedParentheses in H.
    destruct (skipChar ch_lparen s) as [s1 ok] eqn:E1. destruct ok; cbn [negb] in H; [|discriminate].
    pose proof (skipChar_norm ch_lparen inp _ _ eq_refl Sy E1) as N1.
    apply skipChar_true in E1. destruct E1 as [AE [C1 E1]]. subst s1.
    assert (NL : normal_like q = true)
      by (eapply good_normal_like; [exact G|exact AE|rewrite C1; discriminate]).
    pose proof (at_d_open _ _ _ _ A AE C1 NL) as A1.
    destruct (parens_loop (fuel_of (advance s)) 1 (advance s)) as [s2 [[|k]| |e]] eqn:L; try discriminate.
    inversion H; subst s'.
    destruct (parens_loop_d _ 1 _ _ Normal (S D) L (le_n _) (or_intror (le_n_S _ _ (Nat.le_0_l _)))
                (snorm_synced _ _ N1)) as [sb [q2 [X [Ab [NL2 [AEb [Cb Es]]]]]]].
    { replace (S D + (1 - 1))%nat with (S D) by lia. exact A1. }
    subst s2. eapply at_d_close; eassumption.
  Qed.

  (* -------------------------------------------------------------- names -- *)

  Lemma namechar_skips q d c : isNameChar c = true -> skips sc q d c.
  Proof.
    intros NC. right. repeat split; try (intros E; rewrite E in NC; vm_compute in NC; discriminate).
    left. intros E; rewrite E in NC; vm_compute in NC; discriminate.
  Qed.

  Lemma namechars_loop_d fuel : forall s s' q d,
    namechars_loop fuel s = Some s' -> atd s (Some (q, d)) -> exists q', atd s' (Some (q', d)).
  Proof.
    induction fuel as [|f IH]; intros s s' q d H A; simpl in H; [discriminate|].
    destruct (negb (at_end s) && isNameChar (cur s))%bool eqn:B.
    - apply andb_prop in B. destruct B as [B1 B2]. apply negb_true_iff in B1.
      eapply IH; [exact H|]. apply at_d_advance; [exact A|exact B1|apply namechar_skips; exact B2].
    - inversion H; subst. eauto.
  Qed.

  (* an identifier (quoted or not) does not change the depth *)
  Lemma parseIdentifier_d s s' id q d :
    synced inp s -> atd s (Some (q, d)) -> parseIdentifier s = (s', Ok id) ->
    exists q', atd s' (Some (q', d)).
  Proof using Hst0 Ha0.
    intros Sy A H. unfold parseIdentifier in H.
    destruct (skipStringLiteral s) as [s1 [u| |e]] eqn:E; [| |discriminate].
    - inversion H; subst. eexists. eapply skipStringLiteral_d; eassumption.
    - apply skipStringLiteral_no in E. destruct E as [E _]. subst s1.
      destruct (namechars_loop (fuel_of s) s) as [s2|] eqn:NL; [|discriminate].
      destruct (Nat.ltb (pos s) (pos s2)); [|discriminate]. inversion H; subst.
      eapply namechars_loop_d; eassumption.
  Qed.

  (* ------------------------------------------------------ literal values -- *)

  Lemma parens_loop_no fuel : forall n s s', parens_loop fuel n s = (s', No) -> False.
  Proof.
    induction fuel as [|f IH]; intros n s s' H; simpl in H; [discriminate|].
    walk H; eapply IH; exact H.
  Qed.

  Lemma skipEnclosedParentheses_no s s' :
    skipEnclosedParentheses s = (s', No) -> s' = s /\ peekChar 40 s = false.
  Proof.
    intros H. unfold skipEnclosedParentheses in H.
    destruct (skipChar ch_lparen s) as [s1 ok] eqn:E1. destruct ok; cbn [negb] in H.
    - exfalso. destruct (parens_loop (fuel_of s1) 1 s1) as [s2 [[|k]| |e]] eqn:L; try discriminate.
      eapply parens_loop_no. exact L.
    - apply skipChar_false' in E1. destruct E1 as [E1 P]. inversion H; subst. auto.
  Qed.

  (* skipLiteralInList does not change the depth: it skips whole literals,
     whole groups, whole comments and bytes that are not '(' ')' ',' *)
  Lemma litlist_loop_d fuel : forall s s' u q d,
    litlist_loop fuel s = (s', Ok u) -> synced inp s -> atd s (Some (q, d)) ->
    exists q', atd s' (Some (q', d)).
  Proof using Hst0 Ha0.
    induction fuel as [|f IH]; intros s s' u q d H Sy A; simpl in H; [discriminate|].
    destruct (at_end s) eqn:AE; [discriminate|].
    destruct (skipStringLiteral s) as [s1 [u1| |e]] eqn:E1; [| |discriminate].
    - eapply IH; [exact H|exact (sync_prf (f:=skipStringLiteral) _ _ _ _ Sy E1)|].
      eapply skipStringLiteral_d; eassumption.
    - pose proof (skipStringLiteral_no _ _ E1) as [R1 _]. subst s1.
      destruct (skipEnclosedParentheses s) as [s2 [u2| |e]] eqn:E2; [| |discriminate].
      + eapply IH; [exact H|exact (sync_prf (f:=skipEnclosedParentheses) _ _ _ _ Sy E2)|].
        eapply skipEnclosedParentheses_d; eassumption.
      + apply skipEnclosedParentheses_no in E2. destruct E2 as [R2 P40]. subst s2.
        destruct (skipComment s) as [s3 [u3| |e]] eqn:E3; [| |discriminate].
        * destruct (skipComment_d _ _ _ _ _ Sy A E3) as [q' A3].
          eapply IH; [exact H|exact (sync_prf (f:=skipComment) _ _ _ _ Sy E3)|exact A3].
        * pose proof (restore_prf (f:=skipComment) _ _ E3) as R3. subst s3.
          destruct ((cur s =? ch_comma) || (cur s =? ch_rparen))%bool eqn:B.
          -- inversion H; subst. eauto.
          -- apply orb_false_elim in B. destruct B as [B1 B2].
             apply N.eqb_neq in B1. apply N.eqb_neq in B2.
             eapply IH; [exact H|eapply advance_other; eassumption|].
             apply at_d_advance; [exact A|exact AE|]. right.
             split; [apply peek_false_cur; assumption|]. split; [exact B2|]. left. exact B1.
  Qed.
End Depth.

(* ------------------------------------------------- restarting a run -- *)

(* at a top-level point outside literals and comments the next byte steps the
   automaton as from Normal *)
Lemma restart_step inp s q b tl :
  at_q inp s q -> good q s -> rest s = b :: tl -> lex_step q b = lex_step Normal b.
Proof.
  intros A G R.
  assert (AE : at_end s = false) by (unfold at_end; rewrite R; reflexivity).
  destruct (b <? 128) eqn:L.
  - assert (Cb : cur s = b).
    { unfold cur. rewrite R. apply N.ltb_lt in L. rewrite (decode_ascii b _ L). reflexivity. }
    good_cases q G; try reflexivity.
    + rewrite Cb in G. apply N.eqb_neq in G. unfold lex_step. eqb_cases; reflexivity.
    + rewrite Cb in G. apply N.eqb_neq in G. unfold lex_step. eqb_cases; reflexivity.
    + destruct G as [G|G]; [discriminate|]. rewrite Cb in G. subst b. reflexivity.
  - assert (P : plainb b = true) by (apply high_plain; apply N.ltb_ge; exact L).
    rewrite !(lex_step_plain _ b P).
    good_cases q G; try reflexivity.
    destruct G as [G|G]; [discriminate|]. exfalso.
    destruct (advance_split s AE) as [bs' [R' [[L' E']|[L' _]]]].
    + rewrite G in E'. subst bs'. rewrite R in R'. cbn [app] in R'. inversion R'; subst. discriminate L.
    + rewrite G in L'. discriminate L'.
Qed.

(* The automaton may be restarted at a top-level point: over the text that
   follows, it runs as from Normal. *)
Lemma restart inp s q bs tl :
  at_q inp s q -> good q s -> rest s = bs ++ tl -> bs <> [] -> lexq q bs = lexq Normal bs.
Proof.
  intros A G R NE. destruct bs as [|b t]; [congruence|].
  change (lexq q (b :: t)) with (lexq (lex_step q b) t).
  change (lexq Normal (b :: t)) with (lexq (lex_step Normal b) t). f_equal.
  eapply restart_step; [exact A|exact G|exact R].
Qed.

Lemma drun_restart sc inp s q d bs tl :
  at_q inp s q -> good q s -> normal_like q = true -> rest s = bs ++ tl -> bs <> [] ->
  drun sc (Some (q, d)) bs = drun sc (Some (Normal, d)) bs.
Proof.
  intros A G NL R NE. destruct bs as [|b t]; [congruence|].
  change (drun sc (Some (q, d)) (b :: t)) with (drun sc (dstep sc (Some (q, d)) b) t).
  change (drun sc (Some (Normal, d)) (b :: t)) with (drun sc (dstep sc (Some (Normal, d)) b) t).
  f_equal. unfold dstep. rewrite NL. cbn [normal_like].
  rewrite (restart_step _ _ _ _ _ A G R). reflexivity.
Qed.

(* ------------------------------------------------- what the parser skips -- *)

(* skipEnclosedParentheses returns at the matching parenthesis: the text it
   consumes is '(' body ')' where the run over body from depth 0 never fails
   (no unmatched ')') and ends at depth 0 outside literals and comments *)
Lemma skipEnclosedParentheses_match inp s s' v :
  synced inp s -> skipEnclosedParentheses s = (s', Ok v) ->
  exists body q2, slice s s' = [40] ++ body ++ [41] /\
    drun false (Some (Normal, O)) body = Some (q2, O) /\ normal_like q2 = true.
Proof.
  intros Sy H. unfold skipEnclosedParentheses in H.
  destruct (skipChar ch_lparen s) as [s1 ok] eqn:E1. destruct ok; cbn [negb] in H; [|discriminate].
  pose proof (skipChar_norm ch_lparen inp _ _ eq_refl Sy E1) as N1.
  apply skipChar_true in E1. destruct E1 as [AE [C1 E1]]. subst s1.
  destruct (parens_loop (fuel_of (advance s)) 1 (advance s)) as [s2 [[|k]| |e]] eqn:L; try discriminate.
  inversion H; subst s'.
  destruct (parens_loop_d false (Some (Normal, O)) inp (advance s) Normal O eq_refl N1
              _ 1 _ _ Normal O L (le_n _) (or_introl eq_refl) (snorm_synced _ _ N1))
    as [sb [q2 [X [[_ Ab] [NL2 [AEb [Cb Es]]]]]]].
  { cbn. apply at_d_init. }
  subst s2. exists (slice (advance s) sb), q2. split; [|split; assumption].
  pose proof (advance_ext s) as X1. pose proof (advance_ext sb) as X3.
  rewrite (slice_app s (advance s) (advance sb) X1 (ext_trans _ _ _ X X3)).
  rewrite (slice_app (advance s) sb (advance sb) X X3).
  rewrite (ascii_slice s 40 AE C1) by reflexivity. rewrite (ascii_slice sb 41 AEb Cb) by reflexivity.
  reflexivity.
Qed.

Lemma parseIdentifier_slice s s' id : parseIdentifier s = (s', Ok id) -> id = slice s s'.
Proof.
  intros H. unfold parseIdentifier in H.
  destruct (skipStringLiteral s) as [s1 [u| |e]] eqn:E; [| |discriminate].
  - inversion H; subst. reflexivity.
  - destruct (namechars_loop (fuel_of s1) s1) as [s2|]; [|discriminate].
    destruct (Nat.ltb (pos s) (pos s2)); [|discriminate]. inversion H; subst. reflexivity.
Qed.

(* a function call: an identifier without top-level parenthesis, then a
   parenthesised group that ends at the matching parenthesis *)
Definition func_balanced (qa : lexstate) (f : str) : Prop :=
  exists id body q1 q2, f = id ++ [40] ++ body ++ [41] /\
    drun false (Some (qa, O)) id = Some (q1, O) /\ normal_like q1 = true /\
    drun false (Some (Normal, O)) body = Some (q2, O) /\ normal_like q2 = true.

Lemma parseColumnAccessor_balanced inp s s' f qa :
  synced inp s -> at_q inp s qa -> parseColumnAccessor s = (s', Ok (FuncCol f)) ->
  func_balanced qa f.
Proof.
  intros Sy Aq H. unfold parseColumnAccessor in H.
  destruct (skipChar ch_star s) as [s1 ok1] eqn:E1. destruct ok1; [discriminate|].
  apply skipChar_false in E1. subst s1.
  destruct (parseIdentifier s) as [s2 [id| |e]] eqn:E2; try discriminate.
  destruct (skipChar ch_dot s2) as [s3 ok3] eqn:E3. destruct ok3.
  { destruct (parseIdentifierAsterisk s3) as [s4 [x| |e]]; discriminate. }
  apply skipChar_false in E3. subst s3.
  destruct (skipEnclosedParentheses s2) as [s4 [u| |e]] eqn:E4; try discriminate.
  inversion H; subst s' f.
  pose proof (sync_prf (f:=parseIdentifier) _ _ _ _ Sy E2) as S2.
  pose proof (ext_prf (f:=parseIdentifier) _ _ _ _ (ext_refl _) E2) as X2.
  pose proof (ext_prf (f:=skipEnclosedParentheses) _ _ _ _ (ext_refl _) E4) as X4.
  destruct (parseIdentifier_d false (Some (qa, O)) inp s qa O eq_refl Aq _ _ _ _ _ Sy (at_d_init _ _ _) E2)
    as [q1 A1].
  pose proof (at_d_good false (Some (qa, O)) inp s qa O eq_refl Aq _ _ _ A1 S2) as G1.
  destruct (skipEnclosedParentheses_match _ _ _ _ S2 E4) as [body [q2 [Sl [R2 NL2]]]].
  exists (slice s s2), body, q1, q2. rewrite (slice_app _ _ _ X2 X4), Sl.
  split; [reflexivity|]. split; [exact (proj2 A1)|]. split; [|split; assumption].
  unfold skipEnclosedParentheses in E4.
  destruct (skipChar ch_lparen s2) as [s5 ok5] eqn:E5. destruct ok5; cbn [negb] in E4; [|discriminate].
  apply skipChar_true in E5. destruct E5 as [AE [C5 _]].
  eapply good_normal_like; [exact G1|exact AE|rewrite C5; discriminate].
Qed.

(* a failed $Type.member consumes nothing or just the '$' *)
Lemma parseInputMemberAccessor_no s s' :
  parseInputMemberAccessor s = (s', No) ->
  s' = s \/ (at_end s = false /\ cur s = 36 /\ s' = advance s).
Proof.
  intros H. unfold parseInputMemberAccessor in H.
  destruct (skipChar ch_dollar s) as [s1 ok] eqn:E1. destruct ok.
  - right. apply skipChar_true in E1. destruct E1 as [AE [C E1]]. subst s1.
    split; [exact AE|]. split; [exact C|].
    unfold parseTypeAndMember in H. walk H; inv_pair; reflexivity.
  - left. apply skipChar_false in E1. inversion H; subst. reflexivity.
Qed.

(* a literal value: the run in literal mode never fails - no unmatched ')' and
   no ',' at depth 0 - and ends at depth 0 *)
Lemma literal_balanced inp s1 s2 s3 u qa :
  synced inp s1 -> at_q inp s1 qa -> synced inp s2 ->
  parseInputMemberAccessor s1 = (s2, No) -> skipLiteralInList s2 = (s3, Ok u) ->
  exists q', drun true (Some (qa, O)) (slice s1 s3) = Some (q', O).
Proof.
  intros S1 Aq S2 H1 H3.
  assert (A2 : exists q2, at_d true (Some (qa, O)) s1 s2 (Some (q2, O))).
  { destruct (parseInputMemberAccessor_no _ _ H1) as [->|[AE [C ->]]].
    - eexists. apply at_d_init.
    - eexists. apply at_d_advance; [apply at_d_init|exact AE|].
      right. rewrite C. repeat split; try discriminate. left. discriminate. }
  destruct A2 as [q2 A2]. unfold skipLiteralInList in H3.
  destruct (litlist_loop_d true (Some (qa, O)) inp s1 qa O eq_refl Aq _ _ _ _ _ _ H3 S2 A2) as [q' [_ A3]].
  exists q'. exact A3.
Qed.
