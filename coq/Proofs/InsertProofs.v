(* INSERT expansion (C04, and the INSERT part of C03/C05): a functional
   characterisation of parameter / insert_row / insert_rows, what bind_col and
   bind_cols guarantee about the bound columns, and the bulk loops of
   LocateParams. *)
From Coq Require Import Permutation.
From SQLair.Base Require Import Bytes.
From SQLair.Model Require Import GenConsts Reflect TypeInfo Parser Bind.
From SQLair.Proofs Require Import ItoaFacts BindFacts.

(* ------------------------------------------------------- list helpers -- *)

Lemma flat_map_map {A B C} (g : B -> list C) (h : A -> B) l :
  flat_map g (map h l) = flat_map (fun x => g (h x)) l.
Proof. induction l as [|x l IH]; simpl; [reflexivity|]. rewrite IH. reflexivity. Qed.

Lemma flat_map_nil {A B} (l : list A) : flat_map (fun _ => @nil B) l = [].
Proof. induction l; simpl; auto. Qed.

Lemma flat_map_single {A B} (f : A -> B) l : flat_map (fun x => [f x]) l = map f l.
Proof. induction l as [|x l IH]; simpl; [reflexivity|]. rewrite IH. reflexivity. Qed.

Lemma map_flat_map {A B C} (g : B -> C) (f : A -> list B) l :
  map g (flat_map f l) = flat_map (fun x => map g (f x)) l.
Proof. induction l as [|x l IH]; simpl; [reflexivity|]. rewrite map_app, IH. reflexivity. Qed.

Lemma flat_map_app_perm {A B} (f g : A -> list B) l :
  Permutation (flat_map (fun x => f x ++ g x) l) (flat_map f l ++ flat_map g l).
Proof.
  induction l as [|x l IH]; simpl; [constructor|].
  rewrite <- !app_assoc. apply Permutation_app_head.
  eapply Permutation_trans; [apply Permutation_app_head; exact IH|].
  rewrite !app_assoc. apply Permutation_app_tail. apply Permutation_app_comm.
Qed.

(* row-major and column-major enumeration are permutations of each other *)
Lemma flat_map_swap {A B C} (f : A -> B -> list C) la lb :
  Permutation (flat_map (fun a => flat_map (fun b => f a b) lb) la)
              (flat_map (fun b => flat_map (fun a => f a b) la) lb).
Proof.
  induction la as [|a la IH]; simpl.
  - rewrite flat_map_nil. constructor.
  - eapply Permutation_trans; [apply Permutation_app_head; exact IH|].
    apply Permutation_sym. apply (flat_map_app_perm (fun b => f a b)).
Qed.

Lemma perm_in_iff {A} (x : A) l l' : Permutation l l' -> (In x l <-> In x l').
Proof.
  intros P. split; [apply Permutation_in; exact P|apply Permutation_in; apply Permutation_sym; exact P].
Qed.

Lemma NoDup_map_inj {A B} (f : A -> B) l :
  (forall a b, f a = f b -> a = b) -> NoDup l -> NoDup (map f l).
Proof.
  intros Inj ND. induction ND as [|x l NI ND IH]; simpl; constructor; [|exact IH].
  intros H. apply in_map_iff in H. destruct H as [y [E I]]. apply Inj in E. subst. tauto.
Qed.

(* ---------------------------------------- tokens that are not free text -- *)

Definition textfree {B} (g : sqltok -> list B) : Prop := forall s, g (TText s) = [].

Lemma tok_sep_flat {B} (g : sqltok -> list B) sep items :
  textfree g -> flat_map g (tok_sep sep items) = flat_map (flat_map g) items.
Proof.
  intros TF. induction items as [|x rest IH]; [reflexivity|].
  destruct rest as [|y rest'].
  - simpl. rewrite app_nil_r. reflexivity.
  - change (tok_sep sep (x :: y :: rest')) with (x ++ [TText sep] ++ tok_sep sep (y :: rest')).
    rewrite !flat_map_app, IH. cbn [flat_map]. rewrite TF. reflexivity.
Qed.

Lemma comma_list_singletons {B} (g : sqltok -> list B) (l : list sqltok) :
  textfree g -> flat_map g (comma_list (map (fun t => [t]) l)) = flat_map g l.
Proof.
  intros TF. unfold comma_list. rewrite tok_sep_flat by exact TF. rewrite flat_map_map.
  apply flat_map_ext. intros t. simpl. apply app_nil_r.
Qed.

Lemma comma_list_texts {B} (g : sqltok -> list B) (l : list str) :
  textfree g -> flat_map g (comma_list (map (fun c => [TText c]) l)) = [].
Proof.
  intros TF. unfold comma_list. rewrite tok_sep_flat by exact TF. rewrite flat_map_map.
  rewrite (flat_map_ext _ (fun _ => [])); [apply flat_map_nil|].
  intros c. cbn [flat_map]. rewrite TF. reflexivity.
Qed.

(* whatever is collected from the non-text tokens of a written INSERT is
   collected from its tuples, row by row *)
Lemma write_insert_flat {B} (g : sqltok -> list B) cols rows :
  textfree g -> flat_map g (write_insert cols rows) = flat_map (flat_map g) rows.
Proof.
  intros TF. unfold write_insert. rewrite !flat_map_app. cbn [flat_map].
  rewrite !TF, comma_list_texts by exact TF. cbn [app].
  rewrite tok_sep_flat by exact TF. rewrite flat_map_map. apply flat_map_ext. intros row. cbv beta.
  cbn [flat_map]. rewrite TF. cbn [app]. rewrite flat_map_app, comma_list_singletons by exact TF.
  cbn [flat_map]. rewrite TF. rewrite !app_nil_r. reflexivity.
Qed.

Definition tnum (t : sqltok) : list nat :=
  match tok_num t with Some n => [n] | None => [] end.

Lemma nums_is ts : nums ts = flat_map tnum ts.
Proof. reflexivity. Qed.

Lemma tnum_textfree : textfree tnum.
Proof. intros s. reflexivity. Qed.

(* ------------------------------------------------------------- cells -- *)

(* what parameter writes for column [bc] in row [row] *)
Definition cell (bc : bcol) (row : nat) : sqltok :=
  match bc_vals bc with
  | [] => TText (bc_literal bc)
  | [_] => TParam (bc_first bc)
  | _ :: _ :: _ => TParamBulk (bc_first bc + row)
  end.

(* the named argument parameter creates for column [bc] in row [row] *)
Definition cell_arg (bc : bcol) (row : nat) : list (str * val) :=
  match bc_vals bc with
  | [] => []
  | [v] => if Nat.eqb row 0 then [(arg_name (bc_first bc), v)] else []
  | vs => match nth_error vs row with
          | Some v => [(arg_name (bc_first bc + row), v)]
          | None => []
          end
  end.

Definition opt_list {A} (o : option A) : list A :=
  match o with Some x => [x] | None => [] end.

Lemma parameter_ok bc row s n :
  parameter bc row = BOk (s, n) -> s = cell bc row /\ opt_list n = cell_arg bc row.
Proof.
  unfold parameter, cell, cell_arg, arg_name.
  change sql_param_prefix with sql_arg_prefix. change sql_param_prefix_bulk with sql_arg_prefix.
  destruct (bc_vals bc) as [|v [|v2 vs]].
  - intros H. inversion H; subst. split; reflexivity.
  - intros H. inversion H; subst. split; [reflexivity|]. destruct (Nat.eqb row 0); reflexivity.
  - destruct (nth_error (v :: v2 :: vs) row) as [x|]; intros H; inversion H; subst.
    split; reflexivity.
Qed.

Lemma insert_row_spec bcs : forall row sqls named sqls' named',
  insert_row bcs row sqls named = BOk (sqls', named') ->
  sqls' = sqls ++ map (fun bc => cell bc row) (live bcs) /\
  named' = named ++ flat_map (fun bc => cell_arg bc row) (live bcs).
Proof.
  induction bcs as [|bc rest IH]; intros row sqls named sqls' named' H; cbn [insert_row] in H.
  - inversion H; subst. unfold live. simpl. rewrite !app_nil_r. split; reflexivity.
  - unfold live. cbn [filter]. destruct (bc_omit bc) eqn:O; cbn [negb].
    + apply IH in H. exact H.
    + destruct (parameter bc row) as [[s n]|e] eqn:P; cbn [bbind] in H; [|discriminate].
      apply parameter_ok in P. destruct P as [Ps Pn].
      apply IH in H. destruct H as [H1 H2]. subst sqls' named' s.
      cbn [map flat_map]. rewrite <- Pn. unfold live.
      split; [rewrite <- app_assoc; reflexivity|].
      destruct n; cbn [opt_list]; [rewrite <- app_assoc; reflexivity|reflexivity].
Qed.

(* The tuples of an INSERT as a function of (row, column), and the named
   arguments in the order they are created (row-major). *)
Lemma insert_rows_spec bcs : forall rows acc named acc' named',
  insert_rows bcs rows acc named = BOk (acc', named') ->
  acc' = acc ++ map (fun r => map (fun bc => cell bc r) (live bcs)) rows /\
  named' = named ++ flat_map (fun r => flat_map (fun bc => cell_arg bc r) (live bcs)) rows.
Proof.
  induction rows as [|r rows IH]; intros acc named acc' named' H; cbn [insert_rows] in H.
  - inversion H; subst. simpl. rewrite !app_nil_r. split; reflexivity.
  - destruct (insert_row bcs r [] named) as [[sqls nm]|e] eqn:R; cbn [bbind] in H; [|discriminate].
    apply insert_row_spec in R. destruct R as [R1 R2]. cbn [app] in R1.
    apply IH in H. destruct H as [H1 H2]. subst.
    cbn [map flat_map]. rewrite <- !app_assoc. split; reflexivity.
Qed.

(* ------------------------------------------------------- well shaped -- *)

(* what bind_cols guarantees about a column when the INSERT has [n] rows *)
Definition well_shaped (n : nat) (bc : bcol) : Prop :=
  if bc_bulk bc then length (bc_vals bc) = n else length (bc_vals bc) <= 1.

Lemma parameter_total n bc row :
  well_shaped n bc -> row < n -> exists x, parameter bc row = BOk x.
Proof.
  unfold well_shaped, parameter. intros W R.
  destruct (bc_vals bc) as [|v [|v2 vs]] eqn:V; [eexists; reflexivity..|].
  destruct (bc_bulk bc); [|simpl in W; lia].
  destruct (nth_error (v :: v2 :: vs) row) as [x|] eqn:N; [eexists; reflexivity|].
  apply nth_error_None in N. lia.
Qed.

Lemma insert_row_total n bcs : forall row sqls named,
  (forall bc, In bc (live bcs) -> well_shaped n bc) -> row < n ->
  exists x, insert_row bcs row sqls named = BOk x.
Proof.
  induction bcs as [|bc rest IH]; intros row sqls named W R; cbn [insert_row].
  - eexists; reflexivity.
  - unfold live in W. cbn [filter] in W. destruct (bc_omit bc) eqn:O; cbn [negb] in W.
    + apply IH; assumption.
    + destruct (parameter_total n bc row (W bc (or_introl eq_refl)) R) as [[s nn] P].
      rewrite P. cbn [bbind]. apply IH; [|exact R]. intros bc' I. apply W. right. exact I.
Qed.

Lemma insert_rows_total n bcs : forall rows acc named,
  (forall bc, In bc (live bcs) -> well_shaped n bc) -> Forall (fun r => r < n) rows ->
  exists x, insert_rows bcs rows acc named = BOk x.
Proof.
  induction rows as [|r rows IH]; intros acc named W F; cbn [insert_rows].
  - eexists; reflexivity.
  - inversion F as [|r' rows' Hr Hrows]; subst.
    destruct (insert_row_total n bcs r [] named W Hr) as [[sqls nm] P]. rewrite P. cbn [bbind].
    apply IH; assumption.
Qed.

Lemma seq_lt_all s n : Forall (fun r => r < s + n) (seq s n).
Proof. apply Forall_forall. intros r H. apply in_seq in H. lia. Qed.

(* ------------------------------------------- the bulk loops (C04 c) -- *)

(* the struct (or map) an element of a bulk slice stands for *)
Definition elem_struct (e : val) : val := match e with VPtr s => s | _ => e end.

Definition elem_field (f : sfield) (e : val) : option val :=
  match e with
  | VNilPtr => None
  | _ => field_by_index (elem_struct e) (sf_index f)
  end.

Lemma field_bulk_step f e rest first omit acc v :
  elem_field f e = Some v ->
  field_bulk f (e :: rest) first omit acc =
    if sf_omit f then
      if first && is_zero v then field_bulk f rest false true (acc ++ [v])
      else if negb (Bool.eqb (is_zero v) omit) then BErr EMixZero
      else field_bulk f rest false omit (acc ++ [v])
    else field_bulk f rest false omit (acc ++ [v]).
Proof.
  unfold elem_field, elem_struct. intros E. cbn [field_bulk]. unfold field_of.
  destruct e; try discriminate; rewrite E; reflexivity.
Qed.

Lemma field_bulk_fields f : forall elems first omit acc r,
  field_bulk f elems first omit acc = BOk r ->
  exists vs, map (elem_field f) elems = map Some vs.
Proof.
  induction elems as [|e rest IH]; intros first omit acc r H.
  - exists []. reflexivity.
  - destruct (elem_field f e) as [v|] eqn:E.
    + rewrite (field_bulk_step f e rest first omit acc v E) in H.
      assert (X : exists vs, map (elem_field f) rest = map Some vs).
      { destruct (sf_omit f); [|eapply IH; exact H].
        destruct (first && is_zero v); [eapply IH; exact H|].
        destruct (negb (Bool.eqb (is_zero v) omit)); [discriminate|eapply IH; exact H]. }
      destruct X as [vs Hvs]. exists (v :: vs). cbn [map]. rewrite E, Hvs. reflexivity.
    + exfalso. unfold elem_field, elem_struct in E. cbn [field_bulk] in H. unfold field_of in H.
      destruct e; try discriminate; rewrite E in H; discriminate.
Qed.

(* after the first element: every field must agree with [omit] on zero-ness *)
Lemma field_bulk_rest f : forall elems vs omit acc,
  map (elem_field f) elems = map Some vs ->
  field_bulk f elems false omit acc =
    if sf_omit f && negb (forallb (fun v => Bool.eqb (is_zero v) omit) vs) then BErr EMixZero
    else BOk (acc ++ vs, omit).
Proof.
  induction elems as [|e rest IH]; intros vs omit acc M; destruct vs as [|v vs]; try discriminate.
  - cbn [field_bulk forallb negb]. rewrite andb_false_r, app_nil_r. reflexivity.
  - cbn [map] in M. injection M as E M.
    rewrite (field_bulk_step f e rest false omit acc v E). cbn [andb forallb].
    rewrite (IH vs omit (acc ++ [v]) M), <- app_assoc. cbn [app].
    destruct (sf_omit f); cbn [andb]; [|reflexivity].
    destruct (Bool.eqb (is_zero v) omit); cbn [negb andb]; reflexivity.
Qed.

(* the whole loop, as LocateParams calls it *)
Lemma field_bulk_first f e elems v vs acc :
  elem_field f e = Some v -> map (elem_field f) elems = map Some vs ->
  field_bulk f (e :: elems) true false acc =
    if sf_omit f && negb (forallb (fun x => Bool.eqb (is_zero x) (is_zero v)) vs) then BErr EMixZero
    else BOk (acc ++ v :: vs, sf_omit f && is_zero v).
Proof.
  intros E M. rewrite (field_bulk_step f e elems true false acc v E).
  rewrite !(field_bulk_rest f elems vs _ _ M), <- !app_assoc. cbn [app andb].
  destruct (sf_omit f); cbn [andb]; [|reflexivity].
  destruct (is_zero v); cbn [negb Bool.eqb]; reflexivity.
Qed.

Definition elem_key (key : str) (e : val) : option val :=
  match e with
  | VNilPtr => None
  | _ => match elem_struct e with
         | VMap true _ => None
         | mv => map_index mv key
         end
  end.

Lemma mapkey_bulk_spec key : forall elems acc vals,
  mapkey_bulk key elems acc = BOk vals ->
  exists vs, map (elem_key key) elems = map Some vs /\ vals = acc ++ vs.
Proof.
  induction elems as [|e rest IH]; intros acc vals H.
  - cbn [mapkey_bulk] in H. inversion H; subst. exists []. rewrite app_nil_r. split; reflexivity.
  - cbn [mapkey_bulk] in H.
    assert (X : exists v, elem_key key e = Some v /\ mapkey_bulk key rest (acc ++ [v]) = BOk vals).
    { unfold elem_key, elem_struct.
      destruct e as [id z| |p|fs|nl en|nl el|]; try discriminate.
      - destruct p as [id z| |p|fs|nl en|nl el|]; try discriminate.
        destruct nl; [discriminate|]. cbn [map_index] in *.
        destruct (assoc_str key en) as [v|]; [|discriminate]. exists v. split; [reflexivity|exact H].
      - destruct nl; [discriminate|]. cbn [map_index] in *.
        destruct (assoc_str key en) as [v|]; [|discriminate]. exists v. split; [reflexivity|exact H]. }
    destruct X as [v [E R]]. apply IH in R. destruct R as [vs [M V]].
    exists (v :: vs). cbn [map]. rewrite E, M, V, <- app_assoc. split; reflexivity.
Qed.

Lemma map_Some_length {A B} (g : A -> option B) l vs : map g l = map Some vs -> length vs = length l.
Proof. intros H. apply (f_equal (@length _)) in H. rewrite !map_length in H. auto. Qed.

(* a bulk result has one value per element of a non-empty slice *)
Lemma locate_params_shape env l m p :
  locate_params env l m = BOk p ->
  (p_bulk p = true -> 1 <= length (p_vals p)) /\
  (p_bulk p = false -> p_omit p = true -> length (p_vals p) = 1).
Proof.
  destruct l as [f|mt key|st]; cbn [locate_params].
  - destruct (t2v_get m (sf_struct f)) as [s|].
    + destruct (field_of f s) as [v|e]; cbn [bbind]; intros H; inversion H; subst; simpl.
      split; [discriminate|reflexivity].
    + destruct (locate_bulk env m (sf_struct f)) as [[st ss]|]; [|discriminate].
      destruct (slice_elems ss) as [|e elems]; [discriminate|].
      destruct (field_bulk f (e :: elems) true false []) as [[vals omit]|err] eqn:FB;
        cbn [bbind]; intros H; inversion H; subst; cbn [p_bulk p_vals p_omit].
      split; [intros _|discriminate].
      destruct (field_bulk_fields _ _ _ _ _ _ FB) as [vs M]. destruct vs as [|v vs]; [discriminate|].
      cbn [map] in M. injection M as E M.
      rewrite (field_bulk_first f e elems v vs [] E M) in FB.
      destruct (sf_omit f && negb _); [discriminate|]. inversion FB; subst. simpl. lia.
  - destruct (t2v_get m mt) as [mv|].
    + destruct (map_index mv key); intros H; inversion H; subst; simpl. split; discriminate.
    + destruct (locate_bulk env m mt) as [[st ms]|]; [|discriminate].
      destruct (slice_elems ms) as [|e elems]; [discriminate|].
      destruct (mapkey_bulk key (e :: elems) []) as [vals|err] eqn:MB;
        cbn [bbind]; intros H; inversion H; subst; cbn [p_bulk p_vals p_omit].
      split; [intros _|discriminate].
      destruct (mapkey_bulk_spec _ _ _ _ MB) as [vs [M V]]. subst vals. cbn [app].
      apply map_Some_length in M. rewrite M. simpl. lia.
  - destruct (t2v_get m st); intros H; inversion H; subst; simpl. split; discriminate.
Qed.

(* ---------------------------------------------------- bind_col (C04 c) -- *)

Definition literal_bcol (column literal : str) : bcol :=
  {| bc_vals := []; bc_first := 0; bc_omit := false; bc_bulk := false;
     bc_argtype := None; bc_literal := literal; bc_column := column |}.

Definition input_bcol (p : params) (cnt : nat) (column : str) : bcol :=
  {| bc_vals := p_vals p; bc_first := if p_omit p then 0 else cnt; bc_omit := p_omit p;
     bc_bulk := p_bulk p; bc_argtype := Some (p_argtype p); bc_literal := [];
     bc_column := column |}.

Definition tcol_column (c : tcol) : str :=
  match c with TCIns _ column _ => column | TCLit column _ => column end.

(* a bound column is the literal, or carries exactly what LocateParams found *)
Definition bound_from (env : tenv) (m : t2v) (cnt : nat) (c : tcol) (bc : bcol) : Prop :=
  match c with
  | TCLit column literal => bc = literal_bcol column literal
  | TCIns input column explicit =>
      exists p, locate_params env input m = BOk p /\ bc = input_bcol p cnt column /\
                (p_omit p = true -> explicit = false)
  end.

Definition width (bc : bcol) : nat := if bc_omit bc then 0 else length (bc_vals bc).

Lemma bind_col_spec env m cnt c bc cnt' :
  bind_col env m cnt c = BOk (bc, cnt') ->
  bound_from env m cnt c bc /\ cnt' = cnt + width bc /\ bc_column bc = tcol_column c /\
  (width bc = 0 \/ bc_first bc = cnt) /\
  (bc_bulk bc = true -> 1 <= length (bc_vals bc)) /\
  (bc_bulk bc = false -> length (bc_vals bc) <= 1).
Proof.
  destruct c as [input column explicit|column literal]; cbn [bind_col bound_from].
  - destruct (locate_params env input m) as [p|e] eqn:LP; cbn [bbind]; [|discriminate].
    destruct (negb (p_bulk p) && Nat.ltb 1 (length (p_vals p))) eqn:G; [discriminate|].
    destruct (p_omit p && explicit) eqn:OE; [discriminate|].
    pose proof (locate_params_shape _ _ _ _ LP) as [Sh _].
    destruct (p_omit p) eqn:O; intros H; inversion H; subst; unfold width; cbn.
    + cbn [andb] in OE. subst explicit.
      assert (Gn : p_bulk p = false -> length (p_vals p) <= 1).
      { intros B. rewrite B in G. cbn [negb andb] in G. apply Nat.ltb_ge in G. exact G. }
      split; [exists p; split; [reflexivity|]; unfold input_bcol; rewrite O; split; auto|].
      split; [lia|]. split; [reflexivity|]. split; [left; reflexivity|]. split; [exact Sh|exact Gn].
    + assert (Gn : p_bulk p = false -> length (p_vals p) <= 1).
      { intros B. rewrite B in G. cbn [negb andb] in G. apply Nat.ltb_ge in G. exact G. }
      split; [exists p; split; [reflexivity|]; unfold input_bcol; rewrite O; split; [reflexivity|discriminate]|].
      split; [lia|]. split; [reflexivity|]. split; [right; reflexivity|]. split; [exact Sh|exact Gn].
  - intros H. inversion H; subst. unfold width, literal_bcol. cbn.
    repeat split; try lia; try discriminate.
Qed.

(* --------------------------------------------------- bind_cols (C04 b) -- *)

(* consecutive layout of the placeholder ranges of the non-omitted columns *)
Fixpoint laid (c : nat) (bcs : list bcol) : Prop :=
  match bcs with
  | [] => True
  | bc :: r => (width bc = 0 \/ bc_first bc = c) /\ laid (c + width bc) r
  end.

Definition sumw (bcs : list bcol) : nat := list_sum (map width bcs).

(* each column is bound from its typed column, with the count threaded *)
Fixpoint bound_all (env : tenv) (m : t2v) (cnt : nat) (cols : list tcol) (bcs : list bcol) : Prop :=
  match cols, bcs with
  | [], [] => True
  | c :: cols', bc :: bcs' => bound_from env m cnt c bc /\ bound_all env m (cnt + width bc) cols' bcs'
  | _, _ => False
  end.

Definition shape_inv (bulk : bool) (nr : nat) (acc : list bcol) : Prop :=
  Forall (well_shaped nr) acc /\ 1 <= nr /\
  (bulk = false -> nr = 1 /\ Forall (fun bc => bc_bulk bc = false) acc) /\
  (bulk = true -> Exists (fun bc => bc_bulk bc = true) acc).

Lemma bind_cols_spec env m : forall cols cnt used bulk nr acc bcs cnt' used' nr',
  bind_cols env m cnt used cols bulk nr acc = BOk (bcs, cnt', used', nr') ->
  shape_inv bulk nr acc ->
  exists new bulk',
    bcs = acc ++ new /\ bound_all env m cnt cols new /\ laid cnt new /\ cnt' = cnt + sumw new /\
    map bc_column new = map tcol_column cols /\ shape_inv bulk' nr' bcs.
Proof.
  induction cols as [|c rest IH]; intros cnt used bulk nr acc bcs cnt' used' nr' H Inv;
    cbn [bind_cols] in H.
  - inversion H; subst. exists [], bulk. rewrite app_nil_r. unfold sumw. simpl.
    split; [reflexivity|]. split; [exact I|]. split; [exact I|]. split; [lia|].
    split; [reflexivity|exact Inv].
  - destruct (bind_col env m cnt c) as [[bc cnt1]|e] eqn:BC; cbn [bbind] in H; [|discriminate].
    apply bind_col_spec in BC. destruct BC as [BF [C1 [Col [Ld [Sb Sn]]]]].
    destruct Inv as [IW [I1 [If It]]].
    assert (Fin : forall bulk2 nr2 (H2 : bind_cols env m cnt1
                    (match bc_argtype bc with Some t => t :: used | None => used end)
                    rest bulk2 nr2 (acc ++ [bc]) = BOk (bcs, cnt', used', nr')),
               shape_inv bulk2 nr2 (acc ++ [bc]) ->
               exists new bulk',
                 bcs = acc ++ new /\ bound_all env m cnt (c :: rest) new /\ laid cnt new /\
                 cnt' = cnt + sumw new /\ map bc_column new = map tcol_column (c :: rest) /\
                 shape_inv bulk' nr' bcs).
    { intros bulk2 nr2 H2 Inv2. destruct (IH _ _ _ _ _ _ _ _ _ H2 Inv2) as [new [b' [E [BA [L [C2 [Cs S]]]]]]].
      exists (bc :: new), b'. subst cnt1. rewrite <- app_assoc in E. cbn [app] in E.
      split; [exact E|]. cbn [bound_all laid map]. unfold sumw in *. cbn [map list_sum].
      split; [split; [exact BF|exact BA]|]. split; [split; [exact Ld|exact L]|].
      split; [change (list_sum (width bc :: map width new)) with (width bc + list_sum (map width new)); lia|]. split; [rewrite Col, Cs; reflexivity|exact S]. }
    destruct (bc_bulk bc) eqn:B.
    + destruct bulk; cbn [negb] in H.
      * destruct (negb (Nat.eqb (length (bc_vals bc)) nr)) eqn:EQ; [discriminate|].
        apply negb_false_iff, Nat.eqb_eq in EQ.
        apply (Fin true nr H). split; [|split; [exact I1|split; [discriminate|]]].
        -- apply Forall_app. split; [exact IW|]. constructor; [|constructor].
           unfold well_shaped. rewrite B. exact EQ.
        -- intros _. apply Exists_app. left. apply It. reflexivity.
      * apply (Fin true (length (bc_vals bc)) H). destruct (If eq_refl) as [N1 NB].
        split; [|split; [apply Sb; reflexivity|split; [discriminate|]]].
        -- apply Forall_app. split.
           ++ rewrite Forall_forall in *. intros x Hx. specialize (IW x Hx). specialize (NB x Hx).
              unfold well_shaped in *. rewrite NB in *. exact IW.
           ++ constructor; [|constructor]. unfold well_shaped. rewrite B. reflexivity.
        -- intros _. apply Exists_app. right. constructor. exact B.
    + apply (Fin bulk nr H). split; [|split; [exact I1|split]].
      * apply Forall_app. split; [exact IW|]. constructor; [|constructor].
        unfold well_shaped. rewrite B. apply Sn. reflexivity.
      * intros Eb. destruct (If Eb) as [N1 NB]. split; [exact N1|].
        apply Forall_app. split; [exact NB|]. constructor; [exact B|constructor].
      * intros Eb. apply Exists_app. left. apply It. exact Eb.
Qed.

Lemma shape_inv_init : shape_inv false 1 [].
Proof. split; [constructor|]. split; [lia|]. split; [intros _; split; [reflexivity|constructor]|discriminate]. Qed.

(* what the loop of typedInsertExpr.addToQuery establishes *)
Lemma bind_cols_top env m cols cnt used bcs cnt' used' numRows :
  bind_cols env m cnt used cols false 1 [] = BOk (bcs, cnt', used', numRows) ->
  bound_all env m cnt cols bcs /\ laid cnt bcs /\ cnt' = cnt + sumw bcs /\
  map bc_column bcs = map tcol_column cols /\
  Forall (well_shaped numRows) bcs /\ 1 <= numRows /\
  (forall bc, In bc bcs -> bc_bulk bc = true -> length (bc_vals bc) = numRows) /\
  ((exists bc, In bc bcs /\ bc_bulk bc = true) \/ numRows = 1).
Proof.
  intros H. destruct (bind_cols_spec _ _ _ _ _ _ _ _ _ _ _ _ H shape_inv_init)
    as [new [b' [E [BA [L [C [Cs [SW [S1 [Sf St]]]]]]]]]].
  cbn [app] in E. subst new. repeat split; auto.
  - intros bc I B. rewrite Forall_forall in SW. specialize (SW bc I). unfold well_shaped in SW.
    rewrite B in SW. exact SW.
  - destruct b'.
    + left. apply Exists_exists. apply St. reflexivity.
    + right. apply Sf. reflexivity.
Qed.

(* ----------------------------------- the placeholders of a column -- *)

Lemma nth_args (vs : list val) : forall first,
  flat_map (fun r => match nth_error vs r with
                     | Some v => [(arg_name (first + r), v)]
                     | None => []
                     end) (seq 0 (length vs)) =
  map (fun '(i, v) => (arg_name i, v)) (combine (seq first (length vs)) vs).
Proof.
  induction vs as [|v vs IH]; intros first; [reflexivity|].
  cbn [length seq flat_map nth_error combine map app]. rewrite Nat.add_0_r. f_equal.
  rewrite <- seq_shift, flat_map_map. rewrite <- IH. apply flat_map_ext. intros r.
  cbn [nth_error]. rewrite Nat.add_succ_r. reflexivity.
Qed.

(* the named arguments of one well shaped column, over all rows: its values,
   once each, under consecutive names from bc_first *)
Lemma col_args n bc :
  well_shaped n bc -> 1 <= n ->
  flat_map (fun r => cell_arg bc r) (seq 0 n) =
  map (fun '(i, v) => (arg_name i, v)) (combine (seq (bc_first bc) (length (bc_vals bc))) (bc_vals bc)).
Proof.
  unfold well_shaped, cell_arg. intros W N.
  destruct (bc_vals bc) as [|v [|v2 vs]] eqn:V.
  - rewrite flat_map_nil. reflexivity.
  - destruct n as [|n]; [lia|]. cbn [seq flat_map Nat.eqb length combine map].
    rewrite <- seq_shift, flat_map_map. cbn [Nat.eqb]. rewrite flat_map_nil. reflexivity.
  - destruct (bc_bulk bc); [|simpl in W; lia]. rewrite <- W. apply nth_args.
Qed.

Lemma col_nums n bc :
  well_shaped n bc -> 1 <= n ->
  forall x, In x (flat_map (fun r => tnum (cell bc r)) (seq 0 n)) <->
            In x (seq (bc_first bc) (length (bc_vals bc))).
Proof.
  unfold well_shaped, cell. intros W N x. rewrite in_flat_map, in_seq.
  destruct (bc_vals bc) as [|v [|v2 vs]] eqn:V; cbn [tnum tok_num length].
  - split; [intros [r [_ []]]|lia].
  - split.
    + intros [r [_ [E|[]]]]. lia.
    + intros H. exists 0. split; [apply in_seq; lia|left; lia].
  - destruct (bc_bulk bc); [|simpl in W; lia]. simpl in W. split.
    + intros [r [I [E|[]]]]. apply in_seq in I. lia.
    + intros H. exists (x - bc_first bc). split; [apply in_seq; lia|left; lia].
Qed.

Lemma laid_seq : forall bcs c,
  laid c bcs -> flat_map (fun bc => seq (bc_first bc) (width bc)) bcs = seq c (sumw bcs).
Proof.
  induction bcs as [|bc r IH]; intros c L; [reflexivity|].
  destruct L as [L1 L2]. cbn [flat_map].
  change (sumw (bc :: r)) with (width bc + sumw r). rewrite seq_app.
  rewrite (IH _ L2). f_equal.
  destruct L1 as [L1|L1]; [rewrite L1; reflexivity|rewrite L1; reflexivity].
Qed.

Lemma live_width {B} (g : bcol -> list B) bcs :
  (forall bc, bc_omit bc = true -> g bc = []) ->
  flat_map g (live bcs) = flat_map g bcs.
Proof.
  intros Z. induction bcs as [|bc r IH]; [reflexivity|]. unfold live. cbn [filter flat_map].
  destruct (bc_omit bc) eqn:O; cbn [negb flat_map]; fold (live r); rewrite IH; [|reflexivity].
  rewrite (Z bc O). reflexivity.
Qed.

Lemma live_seq bcs :
  flat_map (fun bc => seq (bc_first bc) (length (bc_vals bc))) (live bcs) =
  flat_map (fun bc => seq (bc_first bc) (width bc)) bcs.
Proof.
  induction bcs as [|bc r IH]; [reflexivity|]. unfold live, width. cbn [filter flat_map].
  destruct (bc_omit bc) eqn:O; cbn [negb flat_map]; rewrite ?O; fold (live r); rewrite IH; reflexivity.
Qed.

Lemma in_flat_map_iff {A B} (f g : A -> list B) l :
  (forall a, In a l -> forall x, In x (f a) <-> In x (g a)) ->
  forall x, In x (flat_map f l) <-> In x (flat_map g l).
Proof.
  intros H x. rewrite !in_flat_map. split; intros [a [I X]]; exists a; (split; [exact I|]);
    apply (H a I); exact X.
Qed.

(* The placeholders written by an INSERT with [n] rows over well shaped
   columns laid out from [c] are exactly c .. c + sumw - 1 ... *)
Lemma insert_nums n bcs c :
  Forall (well_shaped n) bcs -> 1 <= n -> laid c bcs ->
  forall x, In x (flat_map (fun r => flat_map (fun bc => tnum (cell bc r)) (live bcs)) (seq 0 n)) <->
            In x (seq c (sumw bcs)).
Proof.
  intros W N L x. rewrite <- (laid_seq bcs c L), <- live_seq.
  rewrite (perm_in_iff x _ _ (flat_map_swap (fun r bc => tnum (cell bc r)) (seq 0 n) (live bcs))).
  apply in_flat_map_iff. intros bc I. apply col_nums; [|exact N].
  rewrite Forall_forall in W. apply W. unfold live in I. apply filter_In in I. tauto.
Qed.

(* ... and the names of the arguments it creates are those numbers, once each *)
Lemma insert_names n bcs c :
  Forall (well_shaped n) bcs -> 1 <= n -> laid c bcs ->
  Permutation
    (map fst (flat_map (fun r => flat_map (fun bc => cell_arg bc r) (live bcs)) (seq 0 n)))
    (map arg_name (seq c (sumw bcs))).
Proof.
  intros W N L. rewrite <- (laid_seq bcs c L), <- live_seq.
  eapply Permutation_trans.
  { apply Permutation_map. apply (flat_map_swap (fun r bc => cell_arg bc r)). }
  rewrite !map_flat_map.
  assert (E : forall bc, In bc (live bcs) ->
              map fst (flat_map (fun r => cell_arg bc r) (seq 0 n)) =
              map arg_name (seq (bc_first bc) (length (bc_vals bc)))).
  { intros bc I. rewrite col_args; [|rewrite Forall_forall in W; apply W; unfold live in I;
                                      apply filter_In in I; tauto|exact N].
    generalize (bc_first bc). generalize (bc_vals bc). induction l as [|v l IHl]; intros s; [reflexivity|].
    cbn [length seq combine map fst]. rewrite IHl. reflexivity. }
  induction (live bcs) as [|bc r IH]; [constructor|]. cbn [flat_map].
  rewrite E by (left; reflexivity). apply Permutation_app_head. apply IH.
  intros bc' I. apply E. right. exact I.
Qed.

(* -------------------------------- LocateParams of a bulk struct field -- *)

(* the struct itself is absent, a slice of it (or of pointers to it) is
   supplied: the values are the field of each element, in element order;
   omitempty omits the column iff every element's field is zero, a mix is an
   error, and so is an empty slice *)
Lemma locate_field_bulk env f m st ss :
  t2v_get m (sf_struct f) = None -> locate_bulk env m (sf_struct f) = Some (st, ss) ->
  match slice_elems ss with
  | [] => locate_params env (LField f) m = BErr ESliceLen0
  | e :: elems =>
      forall v vs, map (elem_field f) (e :: elems) = map Some (v :: vs) ->
        locate_params env (LField f) m =
          if sf_omit f && negb (forallb (fun x => Bool.eqb (is_zero x) (is_zero v)) vs)
          then BErr EMixZero
          else BOk {| p_vals := v :: vs; p_omit := sf_omit f && is_zero v; p_bulk := true;
                      p_argtype := st |}
  end.
Proof.
  intros G LB. cbn [locate_params]. rewrite G, LB.
  destruct (slice_elems ss) as [|e elems]; [reflexivity|].
  intros v vs M. cbn [map] in M. injection M as E M.
  rewrite (field_bulk_first f e elems v vs [] E M). cbn [app].
  destruct (sf_omit f && negb _); reflexivity.
Qed.

(* conversely a successful bulk LocateParams found the field in every element *)
Lemma locate_field_bulk_ok env f m p :
  t2v_get m (sf_struct f) = None -> locate_params env (LField f) m = BOk p ->
  exists st ss, locate_bulk env m (sf_struct f) = Some (st, ss) /\
    map (elem_field f) (slice_elems ss) = map Some (p_vals p) /\
    p_vals p <> [] /\ p_bulk p = true /\ p_argtype p = st /\
    (p_omit p = true <-> sf_omit f = true /\ forall x, In x (p_vals p) -> is_zero x = true) /\
    (sf_omit f = true -> p_omit p = false -> forall x, In x (p_vals p) -> is_zero x = false).
Proof.
  intros G H. cbn [locate_params] in H. rewrite G in H.
  destruct (locate_bulk env m (sf_struct f)) as [[st ss]|] eqn:LB; [|discriminate].
  exists st, ss. split; [reflexivity|].
  destruct (slice_elems ss) as [|e elems]; [discriminate|].
  destruct (field_bulk f (e :: elems) true false []) as [[vals omit]|err] eqn:FB;
    cbn [bbind] in H; [|discriminate].
  inversion H; subst p; clear H. cbn [p_vals p_omit p_bulk p_argtype].
  destruct (field_bulk_fields _ _ _ _ _ _ FB) as [vs M]. destruct vs as [|v vs]; [discriminate|].
  pose proof M as M'. cbn [map] in M'. injection M' as E M'.
  rewrite (field_bulk_first f e elems v vs [] E M') in FB. cbn [app] in FB.
  destruct (sf_omit f) eqn:SO; cbn [andb] in FB.
  - destruct (forallb (fun x => Bool.eqb (is_zero x) (is_zero v)) vs) eqn:FA; cbn [negb] in FB; [|discriminate].
    inversion FB; subst vals omit; clear FB.
    assert (All : forall x, In x (v :: vs) -> is_zero x = is_zero v).
    { intros x [I|I]; [subst; reflexivity|]. rewrite forallb_forall in FA. specialize (FA x I).
      apply Bool.eqb_prop in FA. exact FA. }
    split; [exact M|]. split; [discriminate|]. split; [reflexivity|]. split; [reflexivity|]. split.
    + split.
      * intros Z. split; [reflexivity|]. intros x I. rewrite (All x I). exact Z.
      * intros [_ Z]. apply Z. left. reflexivity.
    + intros _ Z x I. rewrite (All x I). exact Z.
  - inversion FB; subst vals omit; clear FB.
    split; [exact M|]. split; [discriminate|]. split; [reflexivity|]. split; [reflexivity|]. split.
    + split; [discriminate|]. intros [X _]. discriminate.
    + discriminate.
Qed.

(* an explicitly named column whose value is omitted (omitempty and zero) *)
Lemma bind_col_omit_explicit env m cnt input column p :
  locate_params env input m = BOk p -> p_omit p = true ->
  bind_col env m cnt (TCIns input column true) = BErr EOmitExplicit.
Proof.
  intros LP O. cbn [bind_col]. rewrite LP. cbn [bbind].
  destruct (locate_params_shape _ _ _ _ LP) as [Sb So].
  destruct (p_bulk p) eqn:B; cbn [negb andb].
  - rewrite O. reflexivity.
  - rewrite (So eq_refl O). cbn. rewrite O. reflexivity.
Qed.

(* two bulk columns over slices of different lengths *)
Lemma bind_cols_mismatch env m cnt used c rest numRows acc bc cnt' :
  bind_col env m cnt c = BOk (bc, cnt') -> bc_bulk bc = true ->
  length (bc_vals bc) <> numRows ->
  bind_cols env m cnt used (c :: rest) true numRows acc = BErr EMismatchBulk.
Proof.
  intros BC B NE. cbn [bind_cols]. rewrite BC. cbn [bbind]. rewrite B. cbn [negb].
  apply Nat.eqb_neq in NE. rewrite NE. reflexivity.
Qed.

(* the first bulk column fixes the number of rows *)
Lemma bind_cols_first_bulk env m cnt used c rest nr acc bc cnt' :
  bind_col env m cnt c = BOk (bc, cnt') -> bc_bulk bc = true ->
  bind_cols env m cnt used (c :: rest) false nr acc =
  bind_cols env m cnt' (match bc_argtype bc with Some t => t :: used | None => used end)
            rest true (length (bc_vals bc)) (acc ++ [bc]).
Proof. intros BC B. cbn [bind_cols]. rewrite BC. cbn [bbind]. rewrite B. reflexivity. Qed.
