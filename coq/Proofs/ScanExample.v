(* A tiny concrete instance for C06: a struct with an int field "a", a *int
   field "p", a sql.Scanner field "n" and an embedded struct with a field "e";
   a map[string]any.  Definitions only (used by the Examples of
   Properties/C06.v and by the sanity checks of the proof files). *)
From Coq Require Import String.
From SQLair.Base Require Import Bytes Sexp.
From SQLair.Model Require Import GenConsts Reflect TypeInfo Bind Scan.

Definition mk_other (n : string) : tdef :=
  {| t_kind := KOther (lit n); t_name := lit n; t_fields := []; t_elem := 0; t_keystr := false; t_scanner := false |}.
Definition mk_field (n tag : string) (anon : bool) (t : tid) : field :=
  {| f_name := lit n; f_exported := true; f_anon := anon; f_tag := lit tag; f_type := t |}.

(* 0 int; 1 *int; 2 Emb{E int `e`}; 3 S{A int `a`; P *int `p`; Emb; N NullInt `n`};
   4 *S; 5 any; 6 M map[string]any; 7 NullInt (implements sql.Scanner); 8 *M; 9 *Emb *)
Definition ex_env : tenv :=
  [ mk_other "int";
    {| t_kind := KPtr; t_name := []; t_fields := []; t_elem := 0; t_keystr := false; t_scanner := false |};
    {| t_kind := KStruct; t_name := lit "Emb"; t_fields := [mk_field "E" "e" false 0];
       t_elem := 0; t_keystr := false; t_scanner := false |};
    {| t_kind := KStruct; t_name := lit "S";
       t_fields := [mk_field "A" "a" false 0; mk_field "P" "p" false 1; mk_field "Emb" "" true 2;
                    mk_field "N" "n" false 7];
       t_elem := 0; t_keystr := false; t_scanner := false |};
    {| t_kind := KPtr; t_name := []; t_fields := []; t_elem := 3; t_keystr := false; t_scanner := false |};
    mk_other "interface";
    {| t_kind := KMap; t_name := lit "M"; t_fields := []; t_elem := 5; t_keystr := true; t_scanner := false |};
    {| t_kind := KStruct; t_name := lit "NullInt"; t_fields := []; t_elem := 0; t_keystr := false; t_scanner := true |};
    {| t_kind := KPtr; t_name := []; t_fields := []; t_elem := 6; t_keystr := false; t_scanner := false |};
    {| t_kind := KPtr; t_name := []; t_fields := []; t_elem := 2; t_keystr := false; t_scanner := false |} ].

Definition ex_fields : list sfield :=
  match get_struct_fields 20 ex_env [] 3 with BOk l => l | BErr _ => [] end.

Definition ex_field (tag : string) : locator :=
  match find_tag (lit tag) ex_fields with
  | Some f => LField f
  | None => LSlice 0
  end.

(* SELECT &S.a, &S.p, &S.e, &S.n, &M.k, &M.j *)
Definition ex_outputs : list locator :=
  [ex_field "a"; ex_field "p"; ex_field "e"; ex_field "n"; LMapKey 6 (lit "k"); LMapKey 6 (lit "j")].

Definition leaf (n : N) : val := VLeaf n false.

(* &S{A: 100, P: &101, Emb{E: 102}, N: 103}, M{"j": 104, "x": 105} *)
Definition ex_s : val := VStruct [leaf 100; VPtr (leaf 101); VStruct [leaf 102]; leaf 103].
Definition ex_m : val := VMap false [(lit "j", leaf 104); (lit "x", leaf 105)].
Definition ex_args : list arg := [AVal 4 (VPtr ex_s); AVal 6 ex_m].

(* the columns arrive permuted, with a foreign column in between *)
Definition ex_cols : list str :=
  [marker_name 4; marker_name 2; lit "foreign"; marker_name 0; marker_name 5; marker_name 1; marker_name 3].
Definition ex_cells : list cell :=
  [CInt 14; CInt 12; CInt 99; CNull; CNull; CNull; CNull].
