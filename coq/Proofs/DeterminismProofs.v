(* C16 - statements are immutable: deterministic, independent of map iteration
   order and of what ran before. *)
From Coq Require Import Permutation.
From SQLair.Base Require Import Bytes.
From SQLair.Model Require Import GenConsts Reflect TypeInfo Parser Bind ArgCache.
From SQLair.Proofs Require Import BindFacts TotalityProofs ValidateProofs.

(* ------------------------------------ (a) map iteration order -- *)

Lemma forallb_perm {A} (f : A -> bool) m m' : Permutation m m' -> forallb f m = forallb f m'.
Proof.
  induction 1 as [|x l l' P IH|x y l|l l' l'' P1 IH1 P2 IH2]; cbn [forallb].
  - reflexivity.
  - rewrite IH. reflexivity.
  - destruct (f x), (f y); reflexivity.
  - congruence.
Qed.

Lemma existsb_perm {A} (f : A -> bool) m m' : Permutation m m' -> existsb f m = existsb f m'.
Proof.
  induction 1 as [|x l l' P IH|x y l|l l' l'' P1 IH1 P2 IH2]; cbn [existsb].
  - reflexivity.
  - rewrite IH. reflexivity.
  - destruct (f x), (f y); reflexivity.
  - congruence.
Qed.

Lemma forallb_ext' {A} (f g : A -> bool) l : (forall x, f x = g x) -> forallb f l = forallb g l.
Proof. intros E. induction l as [|x l IH]; cbn [forallb]; [reflexivity|]. rewrite E, IH. reflexivity. Qed.

(* checkAllArgsUsed of BindInputs ranges over the TypeToValue map, and looks
   the types up in the argUsed set *)
Lemma args_used_check_perm (m m' : t2v) (used used' : list tid) :
  Permutation m m' -> Permutation used used' ->
  forallb (fun '(t, _) => existsb (Nat.eqb t) used) m =
  forallb (fun '(t, _) => existsb (Nat.eqb t) used') m'.
Proof.
  intros P U. rewrite (forallb_perm _ _ _ P). apply forallb_ext'.
  intros [t v]. apply existsb_perm. exact U.
Qed.

(* checkAllArgsUsed of BindTypes ranges over the argInfo map *)
Lemma samples_used_check_perm (infos infos' : arginfos) (used used' : list str) :
  Permutation infos infos' -> Permutation used used' ->
  forallb (fun '(name, _) => existsb (str_eqb name) used) infos =
  forallb (fun '(name, _) => existsb (str_eqb name) used') infos'.
Proof.
  intros P U. rewrite (forallb_perm _ _ _ P). apply forallb_ext'.
  intros [n a]. apply existsb_perm. exact U.
Qed.

(* valueNotFoundError ranges over the TypeToValue map *)
Lemma value_not_found_perm env m m' t :
  Permutation m m' -> value_not_found env m t = value_not_found env m' t.
Proof. intros P. unfold value_not_found. rewrite (existsb_perm _ _ _ P). reflexivity. Qed.

Lemma t2v_get_perm m m' t :
  NoDup (map fst m) -> Permutation m m' -> t2v_get m t = t2v_get m' t.
Proof.
  intros ND P.
  assert (NoDup (map fst m')) as ND'.
  { eapply Permutation_NoDup; [apply Permutation_map; exact P|exact ND]. }
  destruct (t2v_get m t) as [v|] eqn:G.
  - symmetry. apply t2v_get_in; [exact ND'|]. eapply Permutation_in; [exact P|].
    apply t2v_get_some_in. exact G.
  - symmetry. apply t2v_get_notin_none. intros HI. apply t2v_get_none_notin in G. apply G.
    eapply Permutation_in; [apply Permutation_sym, Permutation_map; exact P|exact HI].
Qed.

(* two stores that answer every lookup alike locate every parameter alike *)
Definition same_store (env : tenv) (m m' : t2v) : Prop :=
  (forall t, t2v_get m t = t2v_get m' t) /\
  (forall t, value_not_found env m t = value_not_found env m' t).

Lemma perm_same_store env m m' : NoDup (map fst m) -> Permutation m m' -> same_store env m m'.
Proof.
  intros ND P. split; intros t; [apply t2v_get_perm; assumption|apply value_not_found_perm; exact P].
Qed.

Lemma locate_bulk_same env m m' t : same_store env m m' -> locate_bulk env m t = locate_bulk env m' t.
Proof.
  intros [G _]. unfold locate_bulk.
  destruct (slice_of env t) as [st|]; [rewrite (G st)|];
    (destruct (ptr_to env t) as [p|]; [|reflexivity];
     destruct (slice_of env p) as [spt|]; [rewrite (G spt)|]; reflexivity).
Qed.

Lemma locate_params_same env l m m' :
  same_store env m m' -> locate_params env l m = locate_params env l m'.
Proof.
  intros S. pose proof S as [G V]. unfold locate_params.
  destruct l as [f|mt key|st].
  - rewrite (G (sf_struct f)), (locate_bulk_same _ _ _ _ S), (V (sf_struct f)). reflexivity.
  - rewrite (G mt), (locate_bulk_same _ _ _ _ S), (V mt). reflexivity.
  - rewrite (G st), (V st). reflexivity.
Qed.

Lemma bind_col_same env m m' cnt c :
  same_store env m m' -> bind_col env m cnt c = bind_col env m' cnt c.
Proof.
  intros S. destruct c as [input column explicit|column literal]; cbn [bind_col]; [|reflexivity].
  rewrite (locate_params_same _ _ _ _ S). reflexivity.
Qed.

Lemma bind_cols_same env m m' cols : same_store env m m' ->
  forall cnt used bulk nr acc,
  bind_cols env m cnt used cols bulk nr acc = bind_cols env m' cnt used cols bulk nr acc.
Proof.
  intros S. induction cols as [|c rest IH]; intros cnt used bulk nr acc; cbn [bind_cols]; [reflexivity|].
  rewrite (bind_col_same _ _ _ _ _ S). destruct (bind_col env m' cnt c) as [[bc cnt']|e]; cbn [bbind]; [|reflexivity].
  rewrite !IH. reflexivity.
Qed.

Lemma add_to_query_same env m m' q e :
  same_store env m m' -> add_to_query env m q e = add_to_query env m' q e.
Proof.
  intros S. destruct e as [chunk|input|cols|ocs]; cbn [add_to_query]; try reflexivity.
  - rewrite (locate_params_same _ _ _ _ S). reflexivity.
  - rewrite (bind_cols_same _ _ _ _ S). reflexivity.
Qed.

Lemma add_all_same env m m' es : same_store env m m' ->
  forall q, add_all env m q es = add_all env m' q es.
Proof.
  intros S. induction es as [|e rest IH]; intros q; cbn [add_all]; [reflexivity|].
  rewrite (add_to_query_same _ _ _ _ _ S). destruct (add_to_query env m' q e); cbn [bbind]; [apply IH|reflexivity].
Qed.

(* BindInputs after validation, as a function of the store *)
Definition bind_validated (env : tenv) (tbe : list texpr) (m : t2v) : bres primed :=
  bbind (add_all env m qb_init tbe) (fun q =>
  if forallb (fun '(t, _) => existsb (Nat.eqb t) (q_argUsed q)) m
  then BOk {| pq_toks := q_sql q; pq_params := q_named q; pq_outputs := q_outputs q |}
  else BErr ENotUsed).

Lemma bind_inputs_unfold env tbe args :
  bind_inputs env tbe args = bbind (validate_inputs env args []) (bind_validated env tbe).
Proof. reflexivity. Qed.

(* the result does not depend on the order in which the validated arguments
   are stored (the iteration order of the TypeToValue map) *)
Theorem store_order_irrelevant env tbe m m' :
  NoDup (map fst m) -> Permutation m m' -> bind_validated env tbe m = bind_validated env tbe m'.
Proof.
  intros ND P. unfold bind_validated. rewrite (add_all_same _ _ _ _ (perm_same_store env _ _ ND P)).
  destruct (add_all env m' qb_init tbe) as [q|e]; cbn [bbind]; [|reflexivity].
  rewrite (args_used_check_perm m m' _ _ P (Permutation_refl _)). reflexivity.
Qed.

(* hence not on the order of the arguments either, as long as both orders
   pass validation *)
Definition entry (env : tenv) (a : arg) : tid * val :=
  match a with AVal t v => indirect env t v | ANil => (0, VNilIface) end.

Lemma entries_map env args m : Forall2 (entry_of env) args m -> m = map (entry env) args.
Proof.
  induction 1 as [|a e args m [t [v [-> [-> _]]]] F IH]; [reflexivity|].
  cbn [map entry]. rewrite IH. reflexivity.
Qed.

Theorem argument_order_irrelevant env tbe args args' m m' :
  Permutation args args' ->
  validate_inputs env args [] = BOk m -> validate_inputs env args' [] = BOk m' ->
  bind_inputs env tbe args = bind_inputs env tbe args'.
Proof.
  intros P V V'. rewrite !bind_inputs_unfold, V, V'. cbn [bbind].
  apply validate_inputs_accepts in V. destruct V as [ND [_ [F _]]].
  apply validate_inputs_accepts in V'. destruct V' as [_ [_ [F' _]]].
  apply store_order_irrelevant; [exact ND|].
  rewrite (entries_map _ _ _ F), (entries_map _ _ _ F'). apply Permutation_map. exact P.
Qed.

(* ----------------------------------------- (b) the type cache -- *)

Definition cache_ok (env : tenv) (c : cache) : Prop :=
  forall t i, cache_get c t = Some i -> get_arg_info env t = BOk i.

Lemma cache_ok_nil env : cache_ok env [].
Proof. intros t i H. discriminate H. Qed.

Lemma cache_ok_cons env c t i : cache_ok env c -> get_arg_info env t = BOk i -> cache_ok env ((t, i) :: c).
Proof.
  intros OK G t' i' H. cbn [cache_get] in H. destruct (Nat.eqb t' t) eqn:E.
  - apply Nat.eqb_eq in E. subst. bok H. exact G.
  - apply OK. exact H.
Qed.

Lemma get_arg_info_c_spec env c t :
  cache_ok env c ->
  snd (get_arg_info_c env c t) = get_arg_info env t /\ cache_ok env (fst (get_arg_info_c env c t)).
Proof.
  intros OK. unfold get_arg_info_c. destruct (cache_get c t) as [i|] eqn:G.
  - cbn [fst snd]. split; [symmetry; apply OK; exact G|exact OK].
  - destruct (get_arg_info env t) as [i|e] eqn:GA; cbn [fst snd]; [|split; [reflexivity|exact OK]].
    split; [reflexivity|]. destruct i; try exact OK; apply cache_ok_cons; assumption.
Qed.

Lemma get_arg_infos_c_spec env ts : forall c,
  cache_ok env c ->
  snd (get_arg_infos_c env c ts) = map (get_arg_info env) ts /\
  cache_ok env (fst (get_arg_infos_c env c ts)).
Proof.
  induction ts as [|t rest IH]; intros c OK; cbn [get_arg_infos_c map].
  - split; [reflexivity|exact OK].
  - destruct (get_arg_info_c_spec env c t OK) as [R OK1].
    destruct (get_arg_info_c env c t) as [c1 r]. cbn [fst snd] in *.
    destruct (IH c1 OK1) as [Rs OK2]. destruct (get_arg_infos_c env c1 rest) as [c2 rs].
    cbn [fst snd] in *. split; [congruence|exact OK2].
Qed.

(* every call, in any sequence of calls starting from the empty cache,
   returns what the computation without cache returns *)
Theorem cache_transparent env ts :
  snd (get_arg_infos_c env [] ts) = map (get_arg_info env) ts.
Proof. apply get_arg_infos_c_spec. apply cache_ok_nil. Qed.

Lemma generate_arg_info_c_spec env samples : forall c acc,
  cache_ok env c ->
  snd (generate_arg_info_c env c samples acc) = generate_arg_info env samples acc /\
  cache_ok env (fst (generate_arg_info_c env c samples acc)).
Proof.
  induction samples as [|smp rest IH]; intros c acc OK; cbn [generate_arg_info_c generate_arg_info].
  - split; [reflexivity|exact OK].
  - destruct smp as [t|]; [|split; [reflexivity|exact OK]].
    assert (forall c0 nm,
      snd (let '(c1, r) := get_arg_info_c env c t in
           match r with
           | BErr e => (c1, BErr e)
           | BOk info =>
               match assoc_str (c0 :: nm) acc with
               | Some dupe => (c1, if Nat.eqb (ai_type dupe) t then BErr EDupSample else BErr ESameNameSample)
               | None => generate_arg_info_c env c1 rest (acc ++ [(c0 :: nm, info)])
               end
           end) =
      bbind (get_arg_info env t) (fun info =>
        match assoc_str (c0 :: nm) acc with
        | Some dupe => if Nat.eqb (ai_type dupe) t then BErr EDupSample else BErr ESameNameSample
        | None => generate_arg_info env rest (acc ++ [(c0 :: nm, info)])
        end) /\
      cache_ok env (fst (let '(c1, r) := get_arg_info_c env c t in
           match r with
           | BErr e => (c1, BErr e)
           | BOk info =>
               match assoc_str (c0 :: nm) acc with
               | Some dupe => (c1, if Nat.eqb (ai_type dupe) t then BErr EDupSample else BErr ESameNameSample)
               | None => generate_arg_info_c env c1 rest (acc ++ [(c0 :: nm, info)])
               end
           end))) as GEN.
    { intros c0 nm. destruct (get_arg_info_c_spec env c t OK) as [R OK1].
      destruct (get_arg_info_c env c t) as [c1 r]. cbn [fst snd] in *. rewrite <- R.
      destruct r as [info|e]; cbn [bbind fst snd]; [|split; [reflexivity|exact OK1]].
      destruct (assoc_str (c0 :: nm) acc); cbn [fst snd]; [split; [reflexivity|exact OK1]|].
      apply IH. exact OK1. }
    destruct (t_kind (tget env t)); try (split; [reflexivity|exact OK]);
      (destruct (t_name (tget env t)) as [|c0 nm]; [split; [reflexivity|exact OK]|apply GEN]).
Qed.

Lemma bind_types_c_spec env c es samples :
  cache_ok env c ->
  snd (bind_types_c env c es samples) = bind_types env es samples /\
  cache_ok env (fst (bind_types_c env c es samples)).
Proof.
  intros OK. unfold bind_types_c, bind_types.
  destruct (generate_arg_info_c_spec env samples c [] OK) as [R OK1].
  destruct (generate_arg_info_c env c samples []) as [c1 r]. cbn [fst snd] in *.
  rewrite R. split; [reflexivity|exact OK1].
Qed.

Lemma prepares_c_spec env calls : forall c,
  cache_ok env c ->
  snd (prepares_c env c calls) = map (fun '(es, samples) => bind_types env es samples) calls /\
  cache_ok env (fst (prepares_c env c calls)).
Proof.
  induction calls as [|[es samples] rest IH]; intros c OK; cbn [prepares_c map].
  - split; [reflexivity|exact OK].
  - destruct (bind_types_c_spec env c es samples OK) as [R OK1].
    destruct (bind_types_c env c es samples) as [c1 r]. cbn [fst snd] in *.
    destruct (IH c1 OK1) as [Rs OK2]. destruct (prepares_c env c1 rest) as [c2 rs].
    cbn [fst snd] in *. split; [congruence|exact OK2].
Qed.

(* the result of a Prepare does not depend on what was prepared before *)
Theorem prepare_history_irrelevant env before es samples after :
  nth (length before) (snd (prepares_c env [] (before ++ (es, samples) :: after))) (BErr EInternal)
  = bind_types env es samples.
Proof.
  destruct (prepares_c_spec env (before ++ (es, samples) :: after) [] (cache_ok_nil env)) as [R _].
  rewrite R, map_app, app_nth2; rewrite map_length; [|lia].
  rewrite Nat.sub_diag. reflexivity.
Qed.

(* ----------------------------- (c) the statement is a value -- *)

(* BindInputs takes the typed statement as an immutable value and returns a
   fresh PrimedQuery: running it on other arguments before does not change
   what it gives for these arguments.  Trivial by construction in the model;
   the non-trivial content is that the model, which has this shape, agrees
   with the implementation under the differential run (where statements are
   reused across calls). *)
Theorem query_history_irrelevant env tbe before args after :
  nth (length before) (map (bind_inputs env tbe) (before ++ args :: after)) (BErr EInternal)
  = bind_inputs env tbe args.
Proof.
  rewrite map_app, app_nth2; rewrite map_length; [|lia]. rewrite Nat.sub_diag. reflexivity.
Qed.
