(* Hand-written glue around the extracted model: reads request lines from
   stdin, converts bytes to the extracted N, calls Modelrun.run_line and prints
   the result bytes. *)

let rec pos_of_int (n : int) : Modelrun.positive =
  if n = 1 then Modelrun.XH
  else if n land 1 = 0 then Modelrun.XO (pos_of_int (n lsr 1))
  else Modelrun.XI (pos_of_int (n lsr 1))

let n_of_int (n : int) : Modelrun.n = if n = 0 then Modelrun.N0 else Modelrun.Npos (pos_of_int n)

let rec int_of_pos (p : Modelrun.positive) : int =
  match p with Modelrun.XH -> 1 | Modelrun.XO q -> 2 * int_of_pos q | Modelrun.XI q -> 2 * int_of_pos q + 1

let int_of_n (x : Modelrun.n) : int = match x with Modelrun.N0 -> 0 | Modelrun.Npos p -> int_of_pos p

let table = Array.init 256 n_of_int

let () =
  let buf = Buffer.create 4096 in
  (try
     while true do
       let line = input_line stdin in
       let l = ref [] in
       for i = String.length line - 1 downto 0 do
         l := table.(Char.code line.[i]) :: !l
       done;
       let out = Modelrun.run_line !l in
       Buffer.clear buf;
       List.iter (fun b -> Buffer.add_char buf (Char.chr (int_of_n b land 255))) out;
       print_string (Buffer.contents buf);
       print_char '\n'
     done
   with End_of_file -> ());
  Stdlib.flush stdout
