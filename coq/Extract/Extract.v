(* Extraction of the executable model.  ExtrOcamlBasic only: bool, option,
   unit, list, prod, sumbool, sumor map to OCaml's; N, positive, nat, ascii
   stay the extracted Coq datatypes.  No Extract Constant of our own. *)
From Coq Require Import Extraction ExtrOcamlBasic.
From SQLair.Model Require Import Run.
Extraction Language OCaml.
Extraction "modelrun.ml" run_line.
