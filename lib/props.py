"""Per-property configuration and the runners of the correspondence checks."""
import os, json, subprocess, re

TRUSTED_BASE = [
    "Coq 8.16.1 kernel (coqc; coqchk in the thorough tier); vm_compute used, native_compute not used",
    "hand-written Gallina model (coq/Model) mirrors the Go code function by function; tie = differential run on generated inputs (this run)",
    "extraction: ExtrOcamlBasic only (bool, option, unit, list, prod, sumbool, sumor -> OCaml; andb/orb inlined); no Extract Constant of our own; OCaml 4.13.1; Extract/driver.ml glue (bytes <-> N)",
    "Go harness (/verif/harness): generators, canonical dumps (hook files behind build tag verif), oracles",
    "generated model parts: coq/Model/GenUnicode.v from Go's unicode tables, coq/Model/GenConsts.v from /repo source via go/ast",
]


def sh(cmd, cwd=None, env=None, timeout=7200, inp=None):
    p = subprocess.run(cmd, cwd=cwd, env=env, timeout=timeout, input=inp, shell=isinstance(cmd, str),
                       stdout=subprocess.PIPE, stderr=subprocess.STDOUT, text=True)
    return p.returncode, p.stdout


# ---------------------------------------------------------------- projections

def proj_parse_full(line):
    """accept/reject + complete segment dump (C01)"""
    if line.startswith("OK"):
        return line
    if line.startswith("ERR"):
        return "ERR"
    return line


def proj_parse_segments(line):
    """accept/reject + (kind, raw) of each segment (C02)"""
    if line.startswith("OK"):
        return "OK " + " ".join(re.findall(r"\((?:B|IN|SL|AI|CI|BI|OUT) x[0-9a-f]*", line))
    if line.startswith("ERR"):
        return "ERR"
    return line


def proj_parse_error(line):
    """accept/reject + line, column, kind, payload of the error (C19).  An error
    wording the harness does not know ("other") is compared on the position only."""
    if line.startswith("OK"):
        return "OK"
    return line


def proj_parse_total(line):
    """only: did it panic / hang / run out of fuel (C18)"""
    if line.startswith("PANIC") or "OUT-OF-FUEL" in line or line.startswith("BAD-REQUEST"):
        return line
    return "RETURNED"


def same_projection(a, b):
    if a == b:
        return True
    # unknown error wording on the implementation side: compare position only
    pa, pb = a.split(), b.split()
    if len(pa) == 6 and len(pb) == 6 and pa[0] == pb[0] == "ERR" and (pa[3] == "other" or pb[3] == "other"):
        return pa[1:3] == pb[1:3]
    return False


# --------------------------------------------------------------------- runners

def run_parse(ctx, pid, run, idx, replay, BUILD, ROOT):
    out = os.path.join(ctx.rundir, "parse%d" % idx)
    os.makedirs(out, exist_ok=True)
    n = run["n"][ctx.tier]
    cmd = [os.path.join(BUILD, "harness"), "parse", "-seed", str(ctx.seed + 1000 * idx), "-n", str(n),
           "-mode", run["mode"], "-out", out,
           "-corpus", ",".join(os.path.join(ROOT, "corpus", d) for d in run.get("corpus", ["parser"]))]
    exh = run.get("exhaustive", {}).get(ctx.tier, 0)
    if exh:
        cmd += ["-exhaustive", str(exh)]
    if replay is not None:
        cmd += ["-replay", replay]
    rc, log = sh(cmd, timeout=3600)
    res = {"failing": [], "diffs": [], "coverage": {}}
    if rc == 4:  # hang detected by the watchdog
        pass
    elif rc != 0:
        res["diffs"].append({"correspondence": "parser", "error": "harness failed: " + log[-500:]})
        return res
    with open(os.path.join(out, "cases.txt")) as f:
        cases = f.read()
    rc, model = sh([os.path.join(BUILD, "modelrun")], inp=cases, timeout=3600)
    open(os.path.join(out, "model.txt"), "w").write(model)
    impl = open(os.path.join(out, "impl.txt")).read().splitlines()
    model = model.splitlines()
    cl = cases.splitlines()
    proj = run["project"]
    ndiff = 0
    for i in range(min(len(impl), len(model))):
        a, b = proj(impl[i]), proj(model[i])
        if not same_projection(a, b):
            ndiff += 1
            if len(res["diffs"]) < 20:
                res["diffs"].append({"correspondence": "parser model (coq/Model/Parser.v) vs internal/expr/parser.go",
                                     "case": cl[i], "implementation": a, "model": b})
    if len(impl) != len(model):
        res["diffs"].append({"correspondence": "parser", "error": "result counts differ: impl %d model %d" % (len(impl), len(model))})
    for l in open(os.path.join(out, "oracle.jsonl")):
        v = json.loads(l)
        if v["property"] in run.get("oracle_props", [pid]):
            v["replay_cmd"] = "./check %s --replay <this file>" % pid
            res["failing"].append(v)
    st = json.load(open(os.path.join(out, "stats.json")))
    res["coverage"] = {
        "evaluations": st["cases"], "distinct_nontrivial": st["distinct_nontrivial"],
        "programs": st["cases"], "disagreements_checked": ndiff,
        "rule": run.get("rule", ""), "samples": st["samples"][:6],
        "input_distribution": {k: st[k] for k in ("accepted", "rejected", "accepted_with_expression", "error_kinds",
                                                  "segment_kinds", "length_histogram", "multi_line", "non_ascii",
                                                  "corpus_cases", "shift_checks", "unknown_error_wordings")},
        "exhaustive": False,
    }
    return res


RUNNERS = {"parse": run_parse}


def merge(a, b):
    a["failing"] += b["failing"]
    a["diffs"] += b["diffs"]
    ca, cb = a["coverage"], b["coverage"]
    for k, v in cb.items():
        if k in ("evaluations", "distinct_nontrivial", "programs", "disagreements_checked") and k in ca:
            ca[k] += v
        elif k == "samples" and k in ca:
            ca[k] += v
        elif k == "input_distribution" and k in ca:
            ca.setdefault("input_distribution_more", []).append(v)
        elif k == "rule" and k in ca:
            ca[k] += " || " + v
        else:
            ca[k] = v
    return a


def run_property(ctx, pid, spec, replay, BUILD, ROOT, REPO, GOENV):
    res = {"failing": [], "diffs": [], "coverage": {}}
    replay_arg = None
    replay_kind = None
    if replay:
        r = json.load(open(replay))
        replay_kind = r.get("layer", "parse")
        replay_arg = r.get("query_hex") or r.get("case")
    for idx, run in enumerate(spec["runs"]):
        if replay and run["kind"] != replay_kind:
            continue
        res = merge(res, RUNNERS[run["kind"]](ctx, pid, run, idx, replay_arg, BUILD, ROOT))
        if replay:
            break
    return res


def match_known(known, pid, f):
    for k in known.get("known", []):
        if k.get("property") != pid:
            continue
        m = k.get("match", {})
        if all(f.get(key) == val for key, val in m.items()):
            return k
    return None


PARSE_RULE = ("queries from the seeded token-level grammar fuzzer (statement templates with mutated neighbourhoods, "
              "token soup, byte mutations; corpus first); a case is non-trivial iff it is distinct and either "
              "rejected or accepted with at least one expression segment")

PROPS = {
    "C01": {
        "uses_genconsts": True,
        "runs": [
            {"kind": "parse", "mode": "c01", "n": {"quick": 6000, "thorough": 300000}, "project": proj_parse_full,
             "exhaustive": {"quick": 3, "thorough": 5}, "oracle_props": ["C01"], "rule": PARSE_RULE},
        ],
    },
    "C02": {
        "uses_genconsts": True,
        "runs": [
            {"kind": "parse", "mode": "c02", "n": {"quick": 6000, "thorough": 300000}, "project": proj_parse_segments,
             "exhaustive": {"quick": 4, "thorough": 6}, "oracle_props": ["C02"], "rule": PARSE_RULE},
        ],
    },
    "C19": {
        "uses_genconsts": True,
        "runs": [
            {"kind": "parse", "mode": "c19", "n": {"quick": 5000, "thorough": 200000}, "project": proj_parse_error,
             "exhaustive": {"quick": 3, "thorough": 5}, "oracle_props": ["C19"], "rule": PARSE_RULE},
        ],
    },
}
