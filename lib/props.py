"""Per-property configuration and the runners of the correspondence checks."""
import os, json, subprocess, re

TRUSTED_BASE = [
    "Coq 8.16.1 kernel (coqc; coqchk in the thorough tier); vm_compute used, native_compute not used",
    "hand-written Gallina model (coq/Model) mirrors the Go code function by function; tie = differential run on generated inputs (this run)",
    "extraction: ExtrOcamlBasic only (bool, option, unit, list, prod, sumbool, sumor -> OCaml; andb/orb inlined); no Extract Constant of our own; OCaml 4.13.1; Extract/driver.ml glue (bytes <-> N)",
    "Go harness (/verif/harness): generators, canonical dumps (hook files behind build tag verif), oracles",
    "generated model parts: coq/Model/GenUnicode.v from Go's unicode tables, coq/Model/GenConsts.v from /repo source via go/ast",
]


ENV_REFLECT = "reflect behaves as specified in coq/Model/Reflect.v (type shapes and values are dumped by the harness's own reflection walk)"
ENV_SQL = "database/sql behaves as specified in the model (Rows, Stmt, Tx, pool, context handling: DESIGN.md 3.2); the specification is exercised against the real database/sql by this run"
ENV_GC = "the Go garbage collector runs a finalizer only when no handle, closure, frame or Iterator references the object (reachability rule of coq/Model/Cache.v)"
ASSUMPTIONS = {
    "C01": ["the unicode classifier tables and the scanner constants are the ones generated from Go / from the source in this run"],
    "C02": ["the unicode classifier tables and the scanner constants are the ones generated from Go / from the source in this run"],
    "C19": ["the unicode classifier tables and the scanner constants are the ones generated from Go / from the source in this run"],
    "C03": [ENV_REFLECT], "C04": [ENV_REFLECT], "C05": [ENV_REFLECT], "C07": [ENV_REFLECT], "C08": [ENV_REFLECT, ENV_SQL],
    "C06": [ENV_REFLECT, "database/sql convertAssign for int64 / NULL sources behaves as Scan.conv"],
    "C09": [ENV_SQL, ENV_GC], "C10": [ENV_SQL, ENV_GC], "C11": [ENV_SQL, ENV_GC], "C20": [ENV_SQL],
    "C12": [ENV_SQL, "sql.Tx is linearisable (each database/sql call is one atomic step)"],
    "C13": [ENV_SQL], "C14": [ENV_SQL, "cancellation of the query's context is an atomic step"], "C15": [ENV_SQL, ENV_REFLECT],
    "C16": [ENV_REFLECT, "Go map iteration order is an arbitrary permutation; data-race freedom is outside the model"],
    "C17": [ENV_REFLECT, "the SQL engine behaves as coq/Model/MiniSql.v on the generated statements (SQLite itself is only exercised)"],
    "C18": [ENV_REFLECT, "panics can only arise from the reflect / database/sql operations whose failure conditions the model makes explicit"],
}


def _big_stack():
    # the extracted model recurses over lists (slices of tens of thousands of elements in the deep tier)
    import resource
    try:
        resource.setrlimit(resource.RLIMIT_STACK, (resource.RLIM_INFINITY, resource.RLIM_INFINITY))
    except (ValueError, OSError):
        pass


def sh(cmd, cwd=None, env=None, timeout=7200, inp=None):
    p = subprocess.run(cmd, cwd=cwd, env=env, timeout=timeout, input=inp, shell=isinstance(cmd, str),
                       stdout=subprocess.PIPE, stderr=subprocess.STDOUT, text=True, preexec_fn=_big_stack)
    return p.returncode, p.stdout


# ---------------------------------------------------------------- projections

def proj_parse_full(line):
    """accept/reject + complete segment dump (C01)"""
    if line.startswith("OK"):
        return line
    if line.startswith("ERR"):
        return "ERR"
    return line


def proj_parse_segments(line):
    """accept/reject + (kind, raw) of each segment (C02)"""
    if line.startswith("OK"):
        return "OK " + " ".join(re.findall(r"\((?:B|IN|SL|AI|CI|BI|OUT) x[0-9a-f]*", line))
    if line.startswith("ERR"):
        return "ERR"
    return line


def proj_parse_error(line):
    """accept/reject + line, column, kind, payload of the error (C19).  An error
    wording the harness does not know ("other") is compared on the position only."""
    if line.startswith("OK"):
        return "OK"
    return line


def proj_parse_total(line):
    """only: did it panic / hang / run out of fuel (C18)"""
    if line.startswith("PANIC") or "OUT-OF-FUEL" in line or line.startswith("BAD-REQUEST"):
        return line
    return "RETURNED"


def same_projection(a, b):
    if a == b:
        return True
    # unknown error wording on the implementation side: compare position only
    pa, pb = a.split(), b.split()
    if len(pa) == 6 and len(pb) == 6 and pa[0] == pb[0] == "ERR" and (pa[3] == "other" or pb[3] == "other"):
        return pa[1:3] == pb[1:3]
    return False


def _bind_kind(line):
    f = line.split(" ", 2)
    return f[0], (f[1] if len(f) > 1 else "")


def proj_bind_c03(line):
    """generated SQL and the named arguments (name, value identity) of accepted calls; errors only as reject"""
    k, _ = _bind_kind(line)
    if k == "OK":
        return line
    if k in ("PREPARE-ERR", "QUERY-ERR", "PARSE-ERR"):
        return "REJECTED"
    return line


C04_CLASSES = ("mix-zero", "slice-len0", "mismatch-bulk", "omit-explicit", "nil-ptr-in-slice", "nil-map-in-slice")


def proj_bind_c04(line):
    """as C03, plus the class of the value-dependent insert rejections"""
    k, c = _bind_kind(line)
    if k == "OK":
        return line
    if k == "QUERY-ERR" and c in C04_CLASSES:
        return line
    if k in ("PREPARE-ERR", "QUERY-ERR", "PARSE-ERR"):
        return "REJECTED"
    return line


def proj_bind_c05(line):
    """generated SQL and whether the driver sees Query or Exec"""
    f = line.split(" ")
    if f[0] == "OK":
        return " ".join(f[:3])
    if f[0] in ("PREPARE-ERR", "QUERY-ERR", "PARSE-ERR"):
        return "REJECTED"
    return line


def proj_bind_c07(line):
    """Prepare accepted or rejected (with class); an internal error anywhere"""
    k, c = _bind_kind(line)
    if k == "PREPARE-ERR":
        return line
    if "INTERNAL" in line or k in ("PANIC", "NO-EVENTS-NO-ERROR"):
        return line
    if k == "PARSE-ERR":
        return k
    # second half of C07: a prepared statement run with arguments is accepted or rejected
    return "PREPARED RUN-OK" if k == "OK" else "PREPARED RUN-REJECTED"


def proj_bind_c08(line):
    """Query arguments accepted or rejected (with class)"""
    k, c = _bind_kind(line)
    if k == "QUERY-ERR":
        return line
    if k == "OK":
        return "ACCEPTED"
    if k in ("PREPARE-ERR", "PARSE-ERR"):
        return "NOT-PREPARED"
    return line


def same_bind_projection(a, b):
    if a == b:
        return True
    fa, fb = a.split(), b.split()
    if len(fa) == 2 and len(fb) == 2 and fa[0] == fb[0] and fa[0].endswith("-ERR") and "other" in (fa[1], fb[1]):
        return True
    return False


# --------------------------------------------------------------------- runners

def harness_bin(ctx, BUILD):
    """the harness binary of this run: the coverage-instrumented one in the thorough tier when it was built"""
    return getattr(ctx, "harness_path", None) or os.path.join(BUILD, "harness")


def harness_env(ctx):
    env = dict(os.environ)
    env["VERIF_TIER"] = ctx.tier
    if getattr(ctx, "coverdir", None):
        env["GOCOVERDIR"] = ctx.coverdir
    return env


def go_coverage(ctx, GOENV):
    """Go statement coverage of sqlair under the inputs of this run (thorough tier; support only)."""
    if not getattr(ctx, "coverdir", None) or not os.listdir(ctx.coverdir):
        return None
    rc, pct = sh(["go", "tool", "covdata", "percent", "-i=" + ctx.coverdir], env=GOENV)
    rc2, fn = sh(["go", "tool", "covdata", "func", "-i=" + ctx.coverdir], env=GOENV)
    pk = {}
    for l in pct.splitlines():
        m = re.search(r"(\S+)\s+coverage: ([0-9.]+)% of statements", l)
        if m and "sqlair" in m.group(1):
            pk[m.group(1)] = float(m.group(2))
    partial = []
    for l in fn.splitlines():
        m = re.match(r"(\S+):\d+:\s+(\S+)\s+([0-9.]+)%", l)
        if m and "canonical/sqlair" in m.group(1) and "verif_hooks" not in m.group(1) and float(m.group(3)) < 100.0:
            partial.append("%s %s %s%%" % (m.group(1).split("canonical/sqlair/")[-1], m.group(2), m.group(3)))
    return {"statements_covered_percent_by_package": pk, "functions_not_fully_covered": partial[:80]}


def crosscheck_vm(ctx, name, cases, model, ROOT, k=40):
    """Thorough tier: the extracted runner is not trusted blindly - a sample of the request lines is evaluated
    inside Coq (vm_compute on the same Gallina definition run_line) and compared with what the extracted OCaml
    program printed.  Returns a list of differences (correspondence 'extraction')."""
    if ctx.tier != "thorough" or not cases:
        return []
    import ast
    step = max(1, len(cases) // k)
    idxs = list(range(0, len(cases), step))[:k]
    sample = [cases[i] for i in idxs if '"' not in cases[i] and len(cases[i]) < 20000]
    idxs = [i for i in idxs if '"' not in cases[i] and len(cases[i]) < 20000]
    if not sample:
        return []
    coq = os.path.join(ROOT, "coq")
    vfile = os.path.join(ctx.rundir, "Replay_%s.v" % name)
    with open(vfile, "w") as f:
        f.write("From Coq Require Import String List NArith.\nFrom SQLair.Base Require Import Bytes Sexp.\n"
                "From SQLair.Model Require Import Run.\nImport ListNotations.\nOpen Scope string_scope.\n"
                "Definition outs := Eval vm_compute in map (fun s => run_line (lit s)) [\n")
        f.write(";\n".join('"%s"' % c for c in sample))
        f.write("].\nSet Printing Depth 10000000.\nSet Printing Width 1000000.\nPrint outs.\n")
    rc, log = sh("timeout 1500 coqc -Q %s SQLair %s" % (coq, vfile), cwd=ctx.rundir, timeout=1600)
    if rc != 0:
        return [{"correspondence": "extraction vs vm_compute", "error": "coqc failed on the replay file: " + log[-400:]}]
    body = log[log.find("["):log.rfind("]") + 1]
    try:
        vals = ast.literal_eval(body.replace("%N", "").replace(";", ","))
    except (ValueError, SyntaxError) as ex:
        return [{"correspondence": "extraction vs vm_compute", "error": "cannot read Coq's output: %s" % ex}]
    diffs = []
    for j, i in enumerate(idxs):
        got = bytes(vals[j]).decode("latin-1") if j < len(vals) else "<missing>"
        want = model[i] if i < len(model) else "<missing>"
        if got != want:
            diffs.append({"correspondence": "extracted OCaml runner vs vm_compute of the same definition", "case": cases[i][:300],
                          "vm_compute": got[:300], "extracted": want[:300]})
    ctx.vm_crosschecked = getattr(ctx, "vm_crosschecked", 0) + len(idxs)
    return diffs[:5]


def ncases(ctx, run, key="n"):
    """number of cases of a run; four times as many when the source the layer mirrors has changed"""
    n = run[key][ctx.tier]
    if run["kind"] in getattr(ctx, "escalate", set()):
        n *= 4
    return n


def crashed(res, out, rc, log, pid):
    """The harness did not finish (the implementation hung, crashed the process with a fatal error, or the
    harness itself failed): whatever the watchdog recorded is kept; the rest is a correspondence break."""
    if rc == 0 and os.path.exists(os.path.join(out, "stats.json")):
        return False
    viols = []
    p = os.path.join(out, "oracle.jsonl")
    if os.path.exists(p):
        for l in open(p):
            try:
                viols.append(json.loads(l))
            except ValueError:
                pass
    fatal = "fatal error" in log or "stack overflow" in log or rc == 4
    for v in viols:
        if v.get("property") == pid or (pid == "C18" and v.get("property") == "C18"):
            res["failing"].append(v)
    if pid == "C18" and fatal and not res["failing"]:
        res["failing"].append({"property": "C18", "oracle": "process-died-or-hung", "detail": log[-800:]})
    res["diffs"].append({"correspondence": "harness run did not complete (exit %d): the implementation hung or crashed the process" % rc,
                         "log_tail": log[-800:], "watchdog": viols[:3]})
    res["coverage"] = {"evaluations": 1, "distinct_nontrivial": 0, "programs": 1, "disagreements_checked": 0,
                       "rule": "run aborted", "samples": ["<harness run aborted>"]}
    return True


def run_bind(ctx, pid, run, idx, replay, BUILD, ROOT):
    out = os.path.join(ctx.rundir, "bind%d" % idx)
    os.makedirs(out, exist_ok=True)
    n = ncases(ctx, run)
    cmd = [harness_bin(ctx, BUILD), "bind", "-seed", str(ctx.seed + 1000 * idx), "-n", str(n), "-out", out]
    if replay is not None:
        cmd += ["-replay", replay]
    rc, log = sh(cmd, env=harness_env(ctx), timeout=3600)
    res = {"failing": [], "diffs": [], "coverage": {}}
    if crashed(res, out, rc, log, pid):
        return res
    with open(os.path.join(out, "cases.txt")) as f:
        cases = f.read()
    rc, model = sh([os.path.join(BUILD, "modelrun")], inp=cases, timeout=3600)
    open(os.path.join(out, "model.txt"), "w").write(model)
    impl = open(os.path.join(out, "impl.txt")).read().splitlines()
    model = model.splitlines()
    cl = cases.splitlines()
    res["diffs"] += crosscheck_vm(ctx, "%s%d" % (run["kind"], idx), cl, model, ROOT)
    proj = run["project"]
    ndiff = 0
    for i in range(min(len(impl), len(model))):
        a, b = proj(impl[i]), proj(model[i])
        if not same_bind_projection(a, b):
            ndiff += 1
            if len(res["diffs"]) < 20:
                casefile = os.path.join(ctx.replaydir, "%s-bindcase-%d.txt" % (pid, len(res["diffs"])))
                open(casefile, "w").write(cl[i] + "\n")
                res["diffs"].append({"correspondence": "binding model (coq/Model/TypeInfo.v, Bind.v) vs internal/typeinfo + internal/expr",
                                     "case_file": casefile, "implementation": a[:600], "model": b[:600]})
                # C07 is an "if and only if" and the theorems of Properties/C07.v prove the model accepts exactly by the rule: a case
                # that one of the two prepares and the other rejects is an input on which the implementation leaves the rule
                if pid == "C07" and proj is proj_bind_c07 and a.startswith("PREPARED") != b.startswith("PREPARED") \
                        and sum(1 for f in res["failing"] if f.get("oracle") == "prepare-acceptance-differs-from-the-rule") < 5:
                    res["failing"].append({"property": "C07", "oracle": "prepare-acceptance-differs-from-the-rule", "layer": "bind",
                                           "case_file": casefile, "case": cl[i][:2000],
                                           "detail": "implementation: %s; the rule (model, Properties/C07.v): %s" % (a[:300], b[:300])})
    if len(impl) != len(model):
        res["diffs"].append({"correspondence": "bind", "error": "result counts differ: impl %d model %d" % (len(impl), len(model))})
    for l in open(os.path.join(out, "oracle.jsonl")):
        v = json.loads(l)
        if v["property"] in run.get("oracle_props", [pid]):
            v["layer"] = "bind"
            res["failing"].append(v)
    st = json.load(open(os.path.join(out, "stats.json")))
    res["coverage"] = {
        "evaluations": st["cases"], "distinct_nontrivial": st["distinct_nontrivial"],
        "programs": st["cases"], "disagreements_checked": ndiff,
        "rule": run.get("rule", BIND_RULE), "samples": st["samples"][:6],
        "input_distribution": {k: st[k] for k in ("result_kinds", "error_classes", "ok_with_insert", "ok_with_outputs",
                                                  "ok_with_bulk_rows", "unknown_error_wordings")},
        "exhaustive": False,
    }
    return res


def run_iter(ctx, pid, run, idx, replay, BUILD, ROOT):
    out = os.path.join(ctx.rundir, "iter%d" % idx)
    os.makedirs(out, exist_ok=True)
    n = ncases(ctx, run)
    cmd = [harness_bin(ctx, BUILD), "iter", "-seed", str(ctx.seed + 1000 * idx), "-n", str(n), "-out", out,
           "-exhaustive", str(run.get("exhaustive", {}).get(ctx.tier, 0))]
    rc, log = sh(cmd, env=harness_env(ctx), timeout=3600)
    res = {"failing": [], "diffs": [], "coverage": {}}
    if crashed(res, out, rc, log, pid):
        return res
    with open(os.path.join(out, "cases.txt")) as f:
        cases = f.read()
    rc, model = sh([os.path.join(BUILD, "modelrun")], inp=cases, timeout=3600)
    open(os.path.join(out, "model.txt"), "w").write(model)
    impl = open(os.path.join(out, "impl.txt")).read().splitlines()
    model = model.splitlines()
    cl = cases.splitlines()
    res["diffs"] += crosscheck_vm(ctx, "%s%d" % (run["kind"], idx), cl, model, ROOT)
    proj = run.get("project", lambda c, l: l)
    ndiff = 0
    for i in range(min(len(impl), len(model))):
        a, b = proj(cl[i], impl[i]), proj(cl[i], model[i])
        if a != b and "other:" not in a:
            ndiff += 1
            if len(res["diffs"]) < 20:
                res["diffs"].append({"correspondence": "iterator model (coq/Model/Iter.v) vs sqlair.go Iterator/Get/GetAll on database/sql",
                                     "case": cl[i], "implementation": a, "model": b})
    if len(impl) != len(model):
        res["diffs"].append({"correspondence": "iter", "error": "result counts differ: impl %d model %d" % (len(impl), len(model))})
    for l in open(os.path.join(out, "oracle.jsonl")):
        v = json.loads(l)
        if v["property"] in run.get("oracle_props", [pid]):
            v["layer"] = "iter"
            v["case"] = bytes.fromhex(v["query_hex"][1:]).decode()
            res["failing"].append(v)
    st = json.load(open(os.path.join(out, "stats.json")))
    res["coverage"] = {
        "evaluations": st["cases"], "distinct_nontrivial": st["distinct_nontrivial"],
        "programs": st["cases"], "disagreements_checked": ndiff,
        "rule": ITER_RULE, "samples": st["samples"][:6],
        "input_distribution": {k: st[k] for k in ("request_kinds", "run_kinds", "error_classes", "unknown_error_wordings")},
        "exhaustive": False,
    }
    return res


def run_cache(ctx, pid, run, idx, replay, BUILD, ROOT):
    out = os.path.join(ctx.rundir, "cache%d" % idx)
    os.makedirs(out, exist_ok=True)
    n = ncases(ctx, run)
    cmd = [harness_bin(ctx, BUILD), "cache", "-seed", str(ctx.seed + 1000 * idx), "-n", str(n), "-out", out,
           "-stress", str(run["stress"][ctx.tier])]
    rc, log = sh(cmd, env=harness_env(ctx), timeout=7200)
    res = {"failing": [], "diffs": [], "coverage": {}}
    if crashed(res, out, rc, log, pid):
        return res
    with open(os.path.join(out, "cases.txt")) as f:
        cases = f.read()
    rc, model = sh([os.path.join(BUILD, "modelrun")], inp=cases, timeout=3600)
    open(os.path.join(out, "model.txt"), "w").write(model)
    impl = open(os.path.join(out, "impl.txt")).read().splitlines()
    model = model.splitlines()
    cl = cases.splitlines()
    res["diffs"] += crosscheck_vm(ctx, "%s%d" % (run["kind"], idx), cl, model, ROOT)
    proj = run.get("project", lambda l: l)
    ndiff = 0
    for i in range(min(len(impl), len(model))):
        a, b = proj(impl[i]), proj(model[i])
        if a != b:
            ndiff += 1
            if len(res["diffs"]) < 20:
                res["diffs"].append({"correspondence": "statement cache model (coq/Model/Cache.v) vs cache.go + sqlair.go run closures (sequential histories with drops and GC)",
                                     "case": cl[i], "implementation": a, "model": b})
    if len(impl) != len(model):
        res["diffs"].append({"correspondence": "cache", "error": "result counts differ: impl %d model %d" % (len(impl), len(model))})
    for l in open(os.path.join(out, "oracle.jsonl")):
        v = json.loads(l)
        if v["property"] in run.get("oracle_props", [pid]):
            v["layer"] = "cache"
            v["case"] = bytes.fromhex(v["query_hex"][1:]).decode()
            res["failing"].append(v)
    st = json.load(open(os.path.join(out, "stats.json")))
    res["coverage"] = {
        "evaluations": st["cases"] + st["concurrent_stress_runs"], "distinct_nontrivial": st["distinct_nontrivial"],
        "programs": st["cases"], "disagreements_checked": ndiff,
        "rule": CACHE_RULE, "samples": st["samples"][:5],
        "input_distribution": {"op_kinds": st["op_kinds"], "concurrent_stress_runs": st["concurrent_stress_runs"]},
        "exhaustive": False,
    }
    return res


def run_tx(ctx, pid, run, idx, replay, BUILD, ROOT):
    out = os.path.join(ctx.rundir, "tx%d" % idx)
    os.makedirs(out, exist_ok=True)
    cmd = [harness_bin(ctx, BUILD), "tx", "-seed", str(ctx.seed + 1000 * idx), "-n", str(ncases(ctx, run)),
           "-out", out, "-races", str(run["races"][ctx.tier])]
    rc, log = sh(cmd, env=harness_env(ctx), timeout=7200)
    res = {"failing": [], "diffs": [], "coverage": {}}
    if crashed(res, out, rc, log, pid):
        return res
    with open(os.path.join(out, "cases.txt")) as f:
        cases = f.read()
    rc, model = sh([os.path.join(BUILD, "modelrun")], inp=cases, timeout=3600)
    open(os.path.join(out, "model.txt"), "w").write(model)
    impl = open(os.path.join(out, "impl.txt")).read().splitlines()
    model = model.splitlines()
    cl = cases.splitlines()
    res["diffs"] += crosscheck_vm(ctx, "%s%d" % (run["kind"], idx), cl, model, ROOT)
    ndiff = 0
    if run.get("compare", True):
        for i in range(min(len(impl), len(model))):
            if impl[i] != model[i]:
                ndiff += 1
                if len(res["diffs"]) < 20:
                    res["diffs"].append({"correspondence": "TX model (coq/Model/Tx.v) vs sqlair.go TX on database/sql (sequential histories)",
                                         "case": cl[i], "implementation": impl[i], "model": model[i]})
    for l in open(os.path.join(out, "oracle.jsonl")):
        v = json.loads(l)
        if v["property"] in run.get("oracle_props", [pid]):
            v["layer"] = "tx"
            v["case"] = bytes.fromhex(v["query_hex"][1:]).decode()
            res["failing"].append(v)
    st = json.load(open(os.path.join(out, "stats.json")))
    res["coverage"] = {
        "evaluations": st["cases"] + st["finisher_races"], "distinct_nontrivial": st["distinct_nontrivial"],
        "programs": st["cases"], "disagreements_checked": ndiff,
        "rule": TX_RULE, "samples": st["samples"][:5],
        "input_distribution": {"op_kinds": st["op_kinds"], "finisher_races": st["finisher_races"]},
        "exhaustive": False,
    }
    return res


TX_RULE = ("sequential TX histories (tx.Query on statements cached on the DB or not, with and without outputs; run; Commit; Rollback; "
           "queries built before and run after the end) compared with the model per op (execution on the transaction's connection, "
           "ErrTXDone, finish events), plus races of 2-6 concurrent Commit/Rollback calls and runs released together, checked by "
           "oracles on the driver log, driver faults and cancelled call contexts inside a transaction, finishers with an open "
           "Iterator, and a Statement run 1-8 times in a transaction and afterwards on the DB; non-trivial iff distinct and "
           "more than 2 ops")


CACHE_RULE = ("sequential histories over <=3 Statements x <=3 DBs x 3 argument shapes x 4 contexts: run, open iterator, drop Query, "
              "finish, drop Statement/DB, cancel, prepare failure, forced garbage collection with finalizer drain (real runtime.GC); "
              "observables per op: driver prepares/executions with statement identity and context marker, set of closed driver "
              "statements, cache entry counts (hook); a third of the histories put all sqlair.DB values on one *sql.DB; the "
              "statements have two slice inputs whose shapes differ in SQL but not in the number of parameters; plus, checked by "
              "oracles on the driver log: concurrent stress runs (8 goroutines, shared Statements, DBs created concurrently, GC, "
              "cancellable contexts, injected driver failures: the executed SQL was generated for the call's own arguments), held "
              "Queries run again after eviction / under their own context, a context ending inside the driver's Prepare, 4,500 "
              "(thorough: 70,000) Statements alive on one DB, NewDB from 16 goroutines at once; non-trivial iff distinct and more "
              "than 5 ops")


def proj_cache_events(line):
    """C09/C20: prepares and executions (statement identity, context) per op"""
    return " ".join(re.sub(r"closed=\([^)]*\),S\d+D\d+N\d+I\d+", "", f) for f in line.split())


def proj_cache_full(line):
    return line


ITER_RULE = ("scripted driver results (0-4 rows, unconvertible rows, fetch failure at any position, failing driver close, "
             "run error, cancelled context) x call sequences over {Next, Get(valid), Get(&Outcome), Get(nil Outcome), "
             "Get(invalid), Close, cancel} of length <= 10, plus Query.Get and Query.GetAll calls with every argument mistake; "
             "all op sequences up to a fixed length over 5 ops x 8 scripts enumerated first; non-trivial iff distinct and "
             "(sequence longer than one op or a Get/GetAll call)")


def proj_iter_account(case, line):
    """C13: only the accounting of the result set (closes, closed) and whether the call returned"""
    f = line.split()
    return f[-1] if f else line


def proj_iter_full(case, line):
    return line


def proj_iter_c15(case, line):
    """C15: Get / GetAll results only"""
    if case.startswith("(iter "):
        return ""
    return line


BIND_RULE = ("(statement, sample list, argument list) triples from the seeded typed statement generator over the type zoo "
             "(all expression forms, value/pointer/slice/slice-of-pointer arguments, zero patterns, deliberate mistakes, layout "
             "variation of the pass-through text, literals with quotes / comments / backslashes / % / the statement's own inputs, "
             "slices of 63..4097 elements (thorough: up to 16385), 62..1026 output columns); in a third of the cases the Statement "
             "has already been run on the same DB with arguments of another shape (other omitempty pattern with as many or other "
             "many columns, other lengths, one struct <-> a slice of it, empty) and the SQL is read from the driver statement "
             "that is executed; type shapes and argument values are dumped by the harness's own reflection walk; typed nil "
             "pointers in members of interface type go to the implementation only (fixed probe, no-panic oracle); a case is "
             "non-trivial iff distinct and the statement parses")


def run_parse(ctx, pid, run, idx, replay, BUILD, ROOT):
    out = os.path.join(ctx.rundir, "parse%d" % idx)
    os.makedirs(out, exist_ok=True)
    n = ncases(ctx, run)
    cmd = [harness_bin(ctx, BUILD), "parse", "-seed", str(ctx.seed + 1000 * idx), "-n", str(n),
           "-mode", run["mode"], "-out", out,
           "-corpus", ",".join(os.path.join(ROOT, "corpus", d) for d in run.get("corpus", ["parser"]))]
    exh = run.get("exhaustive", {}).get(ctx.tier, 0)
    if exh:
        cmd += ["-exhaustive", str(exh)]
    if replay is not None:
        cmd += ["-replay", replay]
    rc, log = sh(cmd, env=harness_env(ctx), timeout=3600)
    res = {"failing": [], "diffs": [], "coverage": {}}
    if crashed(res, out, rc, log, pid):
        return res
    with open(os.path.join(out, "cases.txt")) as f:
        cases = f.read()
    rc, model = sh([os.path.join(BUILD, "modelrun")], inp=cases, timeout=3600)
    open(os.path.join(out, "model.txt"), "w").write(model)
    impl = open(os.path.join(out, "impl.txt")).read().splitlines()
    model = model.splitlines()
    cl = cases.splitlines()
    res["diffs"] += crosscheck_vm(ctx, "%s%d" % (run["kind"], idx), cl, model, ROOT)
    proj = run["project"]
    ndiff = 0
    for i in range(min(len(impl), len(model))):
        a, b = proj(impl[i]), proj(model[i])
        if not same_projection(a, b):
            ndiff += 1
            if len(res["diffs"]) < 20:
                res["diffs"].append({"correspondence": "parser model (coq/Model/Parser.v) vs internal/expr/parser.go",
                                     "case": cl[i], "implementation": a, "model": b})
    if len(impl) != len(model):
        res["diffs"].append({"correspondence": "parser", "error": "result counts differ: impl %d model %d" % (len(impl), len(model))})
    for l in open(os.path.join(out, "oracle.jsonl")):
        v = json.loads(l)
        if v["property"] in run.get("oracle_props", [pid]):
            v["replay_cmd"] = "./check %s --replay <this file>" % pid
            res["failing"].append(v)
    st = json.load(open(os.path.join(out, "stats.json")))
    res["coverage"] = {
        "evaluations": st["cases"], "distinct_nontrivial": st["distinct_nontrivial"],
        "programs": st["cases"], "disagreements_checked": ndiff,
        "rule": run.get("rule", ""), "samples": st["samples"][:6],
        "input_distribution": {k: st[k] for k in ("accepted", "rejected", "accepted_with_expression", "error_kinds",
                                                  "segment_kinds", "length_histogram", "multi_line", "non_ascii",
                                                  "corpus_cases", "shift_checks", "unknown_error_wordings", "plain_queries_run_through_prepare")},
        "exhaustive": False,
    }
    return res


SCAN_RULE = ("statements with output expressions (all output forms x zoo types, optional inputs) run with Get on the fake driver; "
             "the driver answers with one row whose columns are the generated aliases in a seeded permutation with foreign columns "
             "interleaved, an alias missing / twice / out of range / in an unusual spelling, fewer columns, NULL cells; destinations "
             "(pointer to struct, map, pointer to map; wrong forms) carry prior contents; a quarter of the cases run a held Query a "
             "second time with another column arrangement, a fifth loop over two rows with Iter/Next/Get into the same destinations "
             "(embedded pointers re-allocated between the rows), a third build other Queries with outputs in between; GetAll into "
             "[]T / []*T / []M with prior elements and non-zero spare capacity; eight goroutines reading rows of their own into one "
             "struct type; observables: error class and the deep dump of every destination afterwards; non-trivial iff distinct and "
             "the scan stage was reached")


def run_scan(ctx, pid, run, idx, replay, BUILD, ROOT):
    out = os.path.join(ctx.rundir, "scan%d" % idx)
    os.makedirs(out, exist_ok=True)
    cmd = [harness_bin(ctx, BUILD), "scan", "-seed", str(ctx.seed + 1000 * idx), "-n", str(ncases(ctx, run)), "-out", out]
    rc, log = sh(cmd, env=harness_env(ctx), timeout=7200)
    res = {"failing": [], "diffs": [], "coverage": {}}
    if crashed(res, out, rc, log, pid):
        return res
    with open(os.path.join(out, "cases.txt")) as f:
        cases = f.read()
    rc, model = sh([os.path.join(BUILD, "modelrun")], inp=cases, timeout=3600)
    open(os.path.join(out, "model.txt"), "w").write(model)
    impl = open(os.path.join(out, "impl.txt")).read().splitlines()
    model = model.splitlines()
    cl = cases.splitlines()
    res["diffs"] += crosscheck_vm(ctx, "%s%d" % (run["kind"], idx), cl, model, ROOT)
    proj = run.get("project", lambda l: l)
    ndiff = 0
    for i in range(min(len(impl), len(model))):
        a, b = proj(impl[i]), proj(model[i])
        if not same_bind_projection(a, b):
            ndiff += 1
            if len(res["diffs"]) < 20:
                casefile = os.path.join(ctx.replaydir, "%s-scancase-%d.txt" % (pid, len(res["diffs"])))
                open(casefile, "w").write(cl[i] + "\n")
                res["diffs"].append({"correspondence": "scan model (coq/Model/Scan.v) vs ValidateOutputs / ScanArgs / LocateScanTarget / ScanProxy on database/sql",
                                     "case_file": casefile, "implementation": a[:600], "model": b[:600]})
    if len(impl) != len(model):
        res["diffs"].append({"correspondence": "scan", "error": "result counts differ: impl %d model %d" % (len(impl), len(model))})
    for l in open(os.path.join(out, "oracle.jsonl")):
        v = json.loads(l)
        if v["property"] in run.get("oracle_props", [pid]):
            v["layer"] = "scan"
            res["failing"].append(v)
    st = json.load(open(os.path.join(out, "stats.json")))
    res["coverage"] = {
        "evaluations": st["cases"], "distinct_nontrivial": st["distinct_nontrivial"],
        "programs": st["cases"], "disagreements_checked": ndiff,
        "rule": SCAN_RULE, "samples": st["samples"][:5],
        "input_distribution": {k: st[k] for k in ("result_kinds", "error_classes", "column_script_modes", "null_cells", "cells",
                                                  "foreign_columns", "ok_with_permuted_columns", "getall_value_cases", "unknown_error_wordings")},
        "exhaustive": False,
    }
    return res


SQLITE_RULE = ("scenarios on a real in-memory SQLite: a table per zoo struct type (14 types: plain, embedded, pointer-embedded, omitempty, "
               "pointer fields, unicode tags, Scanner/Valuer fields, float/bool/bytes); rows written with (*) VALUES ($T.*) single "
               "(value or pointer) and bulk ([]T, []*T), explicit shuffled columns with asterisk source, member-by-member columns; "
               "optional UPDATE with inputs and DELETE ... IN ($S[:]); read back with &T.*, * AS &T.*, (cols) AS (&T.*), pairwise; the "
               "same work with hand-written SQL through database/sql on a second database; non-trivial iff rows reached the engine")


def run_sqlite(ctx, pid, run, idx, replay, BUILD, ROOT):
    out = os.path.join(ctx.rundir, "sqlite%d" % idx)
    os.makedirs(out, exist_ok=True)
    cmd = [harness_bin(ctx, BUILD), "sqlite", "-seed", str(ctx.seed + 1000 * idx), "-n", str(ncases(ctx, run)), "-out", out]
    rc, log = sh(cmd, env=harness_env(ctx), timeout=7200)
    res = {"failing": [], "diffs": [], "coverage": {}}
    if crashed(res, out, rc, log, pid):
        return res
    for l in open(os.path.join(out, "oracle.jsonl")):
        v = json.loads(l)
        if v["property"] in run.get("oracle_props", [pid]):
            res["failing"].append(v)
    st = json.load(open(os.path.join(out, "stats.json")))
    res["coverage"] = {
        "evaluations": st["statements_prepared"], "distinct_nontrivial": st["cases"] - st["value_dependent_rejections"],
        "programs": st["cases"], "disagreements_checked": 0,
        "rule": SQLITE_RULE, "samples": st["samples"][:5],
        "input_distribution": {k: st[k] for k in ("types", "insert_forms", "read_forms", "rows_inserted", "with_update", "with_delete")},
        "exhaustive": False,
    }
    return res


DETERM_RULE = ("generated (query, samples, arguments A, arguments B of the same types in another shape): A run 5 times on one Statement, "
               "B in between, a separately prepared Statement, Queries built first and run later, rejections compared between a used "
               "and a fresh Statement, 8 goroutines preparing the same query / running A and B on the shared Statement at once, six "
               "goroutines binding slices of 300+ elements of different contents, Prepare of two different queries from 8 goroutines, "
               "the first asterisk use of 48 generated 120-column struct types by 8 goroutines at once; observable: generated SQL and "
               "named argument values (byte-identical) or the error class")


def run_determ(ctx, pid, run, idx, replay, BUILD, ROOT):
    out = os.path.join(ctx.rundir, "determ%d" % idx)
    os.makedirs(out, exist_ok=True)
    binary = os.path.join(BUILD, "harness")
    race_note = "not built with -race in this tier"
    if ctx.tier == "thorough":
        # support only: the race detector watches the same runs
        rc, log = sh(["go", "build", "-race", "-tags", "verif", "-o", os.path.join(BUILD, "harness-race"), "."],
                     cwd=getattr(ctx, "harness_src", os.path.join(ROOT, "harness")), env=dict(os.environ, GOFLAGS="-mod=mod", GOPROXY="off", GOSUMDB="off", GOTOOLCHAIN="local", CGO_ENABLED="1"))
        if rc == 0:
            binary = os.path.join(BUILD, "harness-race")
            race_note = "built with -race"
    cmd = [binary, "determ", "-seed", str(ctx.seed + 1000 * idx), "-n", str(ncases(ctx, run)), "-out", out]
    rc, log = sh(cmd, env=harness_env(ctx), timeout=7200)
    res = {"failing": [], "diffs": [], "coverage": {}}
    if "WARNING: DATA RACE" in log:
        res["failing"].append({"property": "C16", "oracle": "data-race-reported", "layer": "determ", "detail": log[log.index("WARNING: DATA RACE"):][:3000]})
    if crashed(res, out, rc if "WARNING: DATA RACE" not in log else 0, log, pid):
        return res
    for l in open(os.path.join(out, "oracle.jsonl")):
        v = json.loads(l)
        if v["property"] in run.get("oracle_props", [pid]):
            v["layer"] = "determ"
            res["failing"].append(v)
    st = json.load(open(os.path.join(out, "stats.json")))
    res["coverage"] = {
        "evaluations": st["runs"], "distinct_nontrivial": st["second_argument_shape_differs"],
        "programs": st["cases"], "disagreements_checked": 0,
        "rule": DETERM_RULE + " (" + race_note + "); non-trivial iff the two argument shapes give different output", "samples": st["samples"][:5],
        "input_distribution": {k: st[k] for k in ("result_kinds", "concurrent_groups", "second_argument_shape_differs")},
        "exhaustive": False,
    }
    return res


RUNNERS = {"determ": run_determ, "sqlite": run_sqlite, "scan": run_scan, "parse": run_parse, "bind": run_bind, "iter": run_iter, "cache": run_cache, "tx": run_tx}


def merge(a, b):
    a["failing"] += b["failing"]
    a["diffs"] += b["diffs"]
    ca, cb = a["coverage"], b["coverage"]
    for k, v in cb.items():
        if k in ("evaluations", "distinct_nontrivial", "programs", "disagreements_checked") and k in ca:
            ca[k] += v
        elif k == "samples" and k in ca:
            ca[k] += v
        elif k == "input_distribution" and k in ca:
            ca.setdefault("input_distribution_more", []).append(v)
        elif k == "rule" and k in ca:
            ca[k] += " || " + v
        else:
            ca[k] = v
    return a


def run_property(ctx, pid, spec, replay, BUILD, ROOT, REPO, GOENV):
    """Runs every run of the property.  With a replay file: a parser-layer replay re-runs exactly the recorded
    query; every other layer re-runs the generation it came from (the check was started with the recorded seed
    and tier, generation is deterministic in the seed) and reports only the recorded case."""
    res = {"failing": [], "diffs": [], "coverage": {}}
    rec = json.load(open(replay)) if replay else None
    parse_replay = rec is not None and rec.get("layer", "parse") == "parse" and rec.get("query_hex") and "no_longer_checks" not in rec
    for idx, run in enumerate(spec["runs"]):
        if parse_replay:
            if run["kind"] != "parse":
                continue
            res = merge(res, RUNNERS["parse"](ctx, pid, run, idx, rec["query_hex"], BUILD, ROOT))
            break
        res = merge(res, RUNNERS[run["kind"]](ctx, pid, run, idx, None, BUILD, ROOT))
    if rec is not None and not parse_replay and "no_longer_checks" not in rec:
        key = lambda f: (f.get("oracle"), f.get("query_hex") or f.get("case") or f.get("scenario"))
        res["failing"] = [f for f in res["failing"] if key(f) == key(rec)]
    return res


def match_known(known, pid, f):
    for k in known.get("known", []):
        if k.get("property") != pid:
            continue
        m = k.get("match", {})
        if all(f.get(key) == val for key, val in m.items()):
            return k
    return None


PARSE_RULE = ("queries from the seeded token-level grammar fuzzer (statement templates with mutated neighbourhoods, "
              "token soup, byte mutations; corpus first); a case is non-trivial iff it is distinct and either "
              "rejected or accepted with at least one expression segment")

def bind_run(project, oracle_props, nq=4000, nt=200000):
    return {"kind": "bind", "n": {"quick": nq, "thorough": nt}, "project": project, "oracle_props": oracle_props}


def iter_run_spec(project, oracle_props, nq=4000, nt=200000):
    return {"kind": "iter", "n": {"quick": nq, "thorough": nt}, "project": project, "oracle_props": oracle_props,
            "exhaustive": {"quick": 4, "thorough": 6}}


def cache_run_spec(project, oracle_props, nq=250, nt=3000):
    return {"kind": "cache", "n": {"quick": nq, "thorough": nt}, "stress": {"quick": 10, "thorough": 150},
            "project": project, "oracle_props": oracle_props}


def tx_run_spec(oracle_props, compare=True, nq=400, nt=40000):
    return {"kind": "tx", "n": {"quick": nq, "thorough": nt}, "races": {"quick": 100, "thorough": 5000},
            "oracle_props": oracle_props, "compare": compare}


def proj_bind_c18(line):
    k = line.split(" ", 1)[0]
    return line if k in ("PANIC", "HANG") or "OUT-OF-FUEL" in line else "RETURNED"


def proj_iter_c18(case, line):
    return line if "PANIC" in line or "HANG" in line else "RETURNED"


def proj_scan_getall(line):
    """C15 at value level: the GetAll cases of the scan run"""
    return line if line.startswith(("GETALL", "NOROWS")) else ""


def proj_scan_c18(line):
    return line if line.startswith(("PANIC", "HANG")) else "RETURNED"


PROPS = {
    "C06": {"uses_genconsts": True, "trusted_extra": ["database/sql convertAssign for int64 / NULL sources specified in coq/Model/Scan.v (conv), validated by this run"],
            "runs": [{"kind": "scan", "n": {"quick": 5000, "thorough": 200000}, "oracle_props": ["C06"]},
                     # operation sequences on one Iterator (several Gets per row, plain columns of odd Go types next to the
                     # generated ones): what Get stores
                     iter_run_spec(proj_iter_full, ["C06"], nq=1500, nt=50000)]},
    "C17": {"uses_genconsts": True, "trusted_extra": ["SQLite 3 via github.com/mattn/go-sqlite3 v1.14.16 (cgo): the engine the round trips run on"],
            "runs": [{"kind": "sqlite", "n": {"quick": 400, "thorough": 20000}, "oracle_props": ["C17"]},
                     # the statement that is executed is the one generated for the call's arguments, also under concurrent use
                     cache_run_spec(proj_cache_events, ["C17"], nq=60, nt=600),
                     # the read half of the round trip at value level for every zoo type (Get, GetAll, iterator loops)
                     {"kind": "scan", "n": {"quick": 2000, "thorough": 50000}, "oracle_props": ["C17"]},
                     {"kind": "determ", "n": {"quick": 150, "thorough": 5000}, "oracle_props": ["C17"]}]},
    "C16": {"uses_genconsts": True,
            "runs": [bind_run(proj_bind_c03, ["C16"], nq=3000), {"kind": "determ", "n": {"quick": 600, "thorough": 20000}, "oracle_props": ["C16"]},
                     cache_run_spec(proj_cache_events, ["C16"], nq=60, nt=600),
                     # ... and inside a transaction: the statement executed is the one generated for this call's arguments
                     tx_run_spec(["C16"], compare=False, nq=200)]},
    "C18": {"uses_genconsts": True,
            "runs": [{"kind": "parse", "mode": "c01", "n": {"quick": 6000, "thorough": 500000}, "project": proj_parse_total,
                      "exhaustive": {"quick": 3, "thorough": 5}, "oracle_props": ["C18"], "rule": PARSE_RULE},
                     bind_run(proj_bind_c18, ["C18"], nq=4000),
                     {"kind": "scan", "n": {"quick": 3000, "thorough": 100000}, "oracle_props": ["C18"], "project": proj_scan_c18},
                     iter_run_spec(proj_iter_c18, ["C18"], nq=2000)]},
    "C12": {"runs": [tx_run_spec(["C12"])]},
    "C09": {"runs": [cache_run_spec(proj_cache_events, ["C09"]), tx_run_spec(["C09", "C12"], compare=False, nq=200)]},
    "C10": {"runs": [cache_run_spec(proj_cache_full, ["C10"]),
                     # a Query of a transaction held past its end fails with ErrTXDone, not with a closed statement
                     tx_run_spec(["C10"], compare=False, nq=200, nt=10000)]},
    "C11": {"runs": [cache_run_spec(proj_cache_full, ["C11"]),
                     # a result set that is never closed pins its sql.Stmt: the driver statement is then never closed either
                     iter_run_spec(proj_iter_account, ["C11"], nq=1500, nt=50000),
                     {"kind": "scan", "n": {"quick": 1500, "thorough": 50000}, "oracle_props": ["C11"], "project": proj_scan_c18}]},
    "C20": {"runs": [cache_run_spec(proj_cache_events, ["C20"]), tx_run_spec(["C20"], compare=True, nq=200),
                     iter_run_spec(proj_iter_full, ["C20"], nq=2000)]},
    "C13": {"runs": [iter_run_spec(proj_iter_account, ["C13"]),
                     # failed calls inside a transaction leave it finishable (its connection can go back to the pool)
                     tx_run_spec(["C13"], compare=False, nq=100),
                     # Get / GetAll with scripted column sets (fewer columns, missing aliases ...): rows and connection released
                     {"kind": "scan", "n": {"quick": 3000, "thorough": 100000}, "oracle_props": ["C13"], "project": proj_scan_c18}]},
    "C14": {"runs": [iter_run_spec(proj_iter_full, ["C14"]),
                     # rows delivered "each exactly once": an explicit loop over two rows into the same destinations (of every
                     # zoo type, embedded pointers re-allocated between the rows) leaves the second row in them
                     {"kind": "scan", "n": {"quick": 2000, "thorough": 50000}, "oracle_props": ["C14"]}]},
    "C15": {"runs": [iter_run_spec(proj_iter_c15, ["C15"]),
                     # ... also inside a transaction, with the shape of the statement changing underneath it
                     tx_run_spec(["C15"], compare=False, nq=200),
                     # at value level: what Get stores (first row) and what GetAll appends, for every destination type of the zoo
                     {"kind": "scan", "n": {"quick": 3000, "thorough": 100000}, "oracle_props": ["C15"]}]},
    "C03": {"uses_genconsts": True, "runs": [bind_run(proj_bind_c03, ["C03"]),
                                             {"kind": "determ", "n": {"quick": 300, "thorough": 10000}, "oracle_props": ["C03"]},
                                             # the placeholders that are executed are those generated for this call's values
                                             cache_run_spec(proj_cache_events, ["C03"], nq=60, nt=600)]},
    "C04": {"uses_genconsts": True, "runs": [bind_run(proj_bind_c04, ["C04"]), cache_run_spec(proj_cache_events, ["C04"], nq=60, nt=600),
                                             {"kind": "determ", "n": {"quick": 200, "thorough": 5000}, "oracle_props": ["C04"]}]},
    "C05": {"uses_genconsts": True, "runs": [bind_run(proj_bind_c05, ["C05"]), tx_run_spec(["C05"], compare=True, nq=200),
                                             # "an alias ... identifies its destination": the aliases of the generated SQL, read back as
                                             # result columns, lead to the destinations (also with other Queries built in between)
                                             {"kind": "scan", "n": {"quick": 2000, "thorough": 50000}, "oracle_props": ["C05"]},
                                             {"kind": "determ", "n": {"quick": 200, "thorough": 5000}, "oracle_props": ["C05"]}]},
    "C07": {"uses_genconsts": True, "runs": [bind_run(proj_bind_c07, ["C07"], nq=8000),
                                             {"kind": "determ", "n": {"quick": 300, "thorough": 10000}, "oracle_props": ["C07"]}]},
    "C08": {"uses_genconsts": True, "runs": [bind_run(proj_bind_c08, ["C08"]),
                                             {"kind": "determ", "n": {"quick": 300, "thorough": 10000}, "oracle_props": ["C08"]}]},
    "C01": {
        "uses_genconsts": True,
        "runs": [
            {"kind": "parse", "mode": "c01", "n": {"quick": 6000, "thorough": 300000}, "project": proj_parse_full,
             "exhaustive": {"quick": 3, "thorough": 5}, "oracle_props": ["C01"], "rule": PARSE_RULE},
            # through Prepare, Query and the driver: the SQL the driver receives, piece by piece
            bind_run(proj_bind_c05, ["C01"], nq=3000, nt=100000),
            # ... and the statement that is executed is the one generated for this call, also under concurrent use
            cache_run_spec(proj_cache_events, ["C01"], nq=60, nt=600),
            # ... and what a statement sends does not depend on which other queries are being prepared at the same time
            {"kind": "determ", "n": {"quick": 200, "thorough": 5000}, "oracle_props": ["C01"]},
        ],
    },
    "C02": {
        "uses_genconsts": True,
        "runs": [
            {"kind": "parse", "mode": "c02", "n": {"quick": 6000, "thorough": 300000}, "project": proj_parse_segments,
             "exhaustive": {"quick": 4, "thorough": 6}, "oracle_props": ["C02"], "rule": PARSE_RULE},
            # through Prepare and the driver: pass-through text with literals / comments (twins differing only inside them)
            bind_run(proj_bind_c05, ["C02"], nq=3000, nt=100000),
        ],
    },
    "C19": {
        "uses_genconsts": True,
        "runs": [
            {"kind": "parse", "mode": "c19", "n": {"quick": 5000, "thorough": 200000}, "project": proj_parse_error,
             "exhaustive": {"quick": 3, "thorough": 5}, "oracle_props": ["C19"], "rule": PARSE_RULE},
        ],
    },
}
