#!/usr/bin/env python3
"""Regenerates /verif/MANIFEST.json from the table below (keeps it valid)."""
import json, os
ROOT = os.path.dirname(os.path.dirname(os.path.abspath(__file__)))
props = [json.loads(l) for l in open(os.path.join(ROOT, "properties.jsonl"))]

NOTE = ("trusted: Coq 8.16.1 kernel; the hand-written Gallina model, tied to the code by the differential run of this check "
        "(extracted model vs implementation on generated cases, projections compared); extraction with ExtrOcamlBasic only; "
        "the Go harness (generators, fake driver, dumps behind build tag verif); ")

CLAIMS = {
 "C01": ("proof", "Theorem C01_tiling (Coq, all byte strings, complete parser model): the segments of an accepted query concatenate to the query; restore and raw laws of every top-level expression parser. Tied to the code by the per-run differential check of the parser model (full segment dump) and a tiling / no-expression / sigil oracle on the implementation's dump.", "§4 C01", "generated parts: unicode tables, separator/trigger/keyword constants"),
 "C03": ("proof", "Coq theorems over the binding model: placeholder names are injective in their number and every placeholder token renders as '@' + argument name (C03_names_injective, C03_placeholder_text); a standalone input with k values writes k fresh consecutive placeholders in order bound to the k values in order (C03_standalone). PARTIAL: the global bijection over insert forms and the member-value theorem are not proved yet; they are checked by the differential run (SQL + named args with value identity, 0 differences) and the bijection oracle.", "§4 C03", "reflect is specified in coq/Model/Reflect.v (environment)"),
 "C04": ("proof", "Coq theorem C04_rectangular: every generated tuple has exactly as many values as the column list has columns and there is one tuple per row. PARTIAL: row-faithfulness (cell identity), column order and the rejection list are not proved yet; checked by the differential run (full SQL and argument identity, value-dependent rejection classes) and a rectangularity oracle.", "§4 C04", "reflect is specified in coq/Model/Reflect.v (environment)"),
 "C05": ("proof", "Coq theorems C05_alias_identifies / C05_alias_unique: markerIndex(markerName n) = n for every n (strconv round trip proved), hence aliases of distinct outputs differ. PARTIAL: the column-list theorem per output form is not proved yet; checked by the differential run (generated SQL, Query-vs-Exec) and alias-uniqueness / no-wildcard / query-iff-outputs oracles.", "§4 C05", ""),
 "C07": ("proof", "Coq theorem C07_samples_unique: accepted samples have pairwise distinct type names. PARTIAL: the full iff against an independent well_typed predicate is not proved yet; acceptance/rejection with error class of Prepare is checked by the differential run over statements x sample multisets (missing, extra, duplicated, same-named, pointer, anonymous, nil).", "§4 C07", "reflect is specified in coq/Model/Reflect.v (environment)"),
 "C09": ("proof", "Coq theorems over ALL histories of the cache model (any number of threads, Statements, DBs; atomic steps at driver-call granularity in any interleaving; reference drops and GC steps anywhere): C09_coherent (every execution goes through a driver statement prepared for exactly this call's Statement, DB and generated SQL), C09_prepare_coherent, C09_reuse, by a 12-clause invariant proved preserved by every step (Proofs/CacheProofs.v). Tied to the code by sequential histories run on the real code with real GC (driver statement identity, contexts, closed sets, cache counts compared per op) and by concurrent stress runs with oracles on the driver log. PARTIAL: 'at most one driver-level prepare per pooled connection' is database/sql's (the scripts use one connection per DB).", "§4 C09", "database/sql pool, Go GC reachability specified in coq/Model/Cache.v"),
 "C10": ("proof", "Coq theorems C10_no_closed_exec and C10_held_statement_open over all histories (GC steps, drops, evictions by concurrent calls at any position; Statement/DB dropped while a Query or Iterator is in use). PARTIAL: the GC is specified by a reachability rule (a finalizer runs only when no handle, closure, frame or Iterator references the object); Go's real liveness analysis and finalizer timing cannot be exhibited by the model. Differential run: sequential histories with real runtime.GC and finalizer drain; stress runs with oracles (no 'statement is closed' error, no execution on a closed driver statement).", "§4 C10", "Go GC / finalizers specified by a reachability rule"),
 "C11": ("proof", "Coq theorems over all histories: C11_index_consistent (both index maps describe the same pairs), C11_no_panic (no finalizer hits a missing entry), C11_close_at_most_once, C11_quiescent_released (at quiescence a dropped Statement/DB has no entry and every driver statement is cached-and-referenced or closed exactly once). Differential run: closed sets and hook cache counts per GC op, teardown oracle (everything dropped => cache back to baseline, every driver statement closed exactly once).", "§4 C11", "Go GC / finalizers specified by a reachability rule; hook VerifCacheCounts"),
 "C13": ("proof", "Coq theorems C13_get_releases, C13_getall_releases, C13_close_releases: for every result script (rows, fetch failure at any position, failing driver close, run error, cancelled context), query error and argument list, when Get/Run/GetAll return, and after a Close following any call sequence of any length, the result set has been closed at the driver exactly once. PARTIAL: 'connection returned to the pool' is database/sql's (specified in the Rows model, validated by the differential run on the real database/sql with a recording driver).", "§4 C13", "database/sql Rows specified in coq/Model/Iter.v (environment)"),
 "C14": ("proof", "Coq theorems over all call sequences of any length: C14_close_idempotent, C14_next_false_sticky, C14_get_guards, C14_order, C14_close_surfaces with C14_fetch_failure_recorded / C14_cancel_recorded (an early end is reported by Close, never presented as a normal end). Differential run: op sequences (all sequences up to length 4 over 5 ops x 8 scripts, plus random length <= 10 with cancellation) against the real database/sql.", "§4 C14", "database/sql Rows specified in coq/Model/Iter.v; context cancellation modelled as an atomic step"),
 "C20": ("proof", "Coq theorems over all histories: C20_same_ctx_exec / C20_same_ctx_prepare (the driver sees the caller's context at the DB-level prepare and at execution, cached or not, DB or TX) and C20_cancelled_runs_nothing (once a context is done no later step sends anything to the driver under it). PARTIAL: 'done on entry => no driver call' is database/sql's, written into the model and validated by the differential run (context marker, deadline, Err recorded by the fake driver at every call; nil context; cancel before Query and between Query and run).", "§4 C20", "database/sql context handling specified in coq/Model/Cache.v"),
 "C12": ("proof", "Coq theorems over ALL interleavings of Query / run / Commit / Rollback steps of any number of threads on one TX (isDone read, setDone CAS and each database/sql call are separate atomic steps): C12_discipline (at most one finisher reaches the driver and exactly that one reports success, every event is on the transaction's connection, nothing is sent after COMMIT/ROLLBACK), C12_after_done (once a finisher has returned, every further Commit, Rollback, TX.Query and earlier-built Query fails with ErrTXDone and sends nothing). PARTIAL: linearisability of database/sql's Tx and 'a statement run through sql.Tx uses the connection BEGIN was sent on' are database/sql's: specified in the model, validated by the differential run (connection identity of every driver event, BEGIN..COMMIT bracket oracle, 100 real Commit/Rollback races per run).", "§4 C12", "database/sql Tx specified in coq/Model/Tx.v (environment)"),
 "C15": ("proof", "Coq theorems C15_all_or_nothing (any error => slices untouched, all scripts), C15_getall_appends (old ++ rows in order, ErrNoRows iff empty), C15_get_first_or_norows, C15_exec_outcome. PARTIAL: destination values are abstract row identities here; the value-level mapping is C06's.", "§4 C15", "database/sql Rows specified in coq/Model/Iter.v"),
}

NA_REASON = "check under construction in this session (model + correspondence exist or are being built; see DESIGN.md) - not claimed yet"

m = {"version": 1,
     "setup_cmd": "./setup.sh",
     "hooks": {"guard": "verif",
               "enable": "go build -tags verif (harness module /verif/harness, replace github.com/canonical/sqlair => /repo)",
               "baseline_off_cmd": "cd /repo && GOFLAGS=-mod=mod GOPROXY=off GOSUMDB=off go test -vet=off -count=1 ./...",
               "source_commits": ["1e0bc93"], "add_only": True},
     "engines": [
         {"name": "coq-model", "path": "coq", "serves_properties": [p["id"] for p in props],
          "kind_free_text": "Coq 8.16.1 development: hand-written Gallina model of sqlair, theorems, extraction to OCaml for the correspondence check"},
         {"name": "go-harness", "path": "harness", "serves_properties": [p["id"] for p in props],
          "kind_free_text": "Go harness built against /repo with -tags verif on every run: generators, recording/scriptable fake driver, type zoo, oracles"}],
     "checks": [], "not_applicable": [], "notes": "see DESIGN.md; ./check <id> [--tier quick|thorough] [--replay file]"}
for p in props:
    pid = p["id"]
    if pid in CLAIMS and os.path.exists(os.path.join(ROOT, "coq", "Properties", pid + ".v")):
        cat, text, ref, extra = CLAIMS[pid]
        m["checks"].append({
            "property_id": pid, "quick_cmd": "./check %s --tier quick" % pid,
            "thorough_cmd": "./check %s --tier thorough" % pid,
            "evidence_file": "/verif/evidence/%s.json" % pid,
            "replay_cmd_template": "./check %s --replay {path}" % pid, "engine": "coq-model",
            "level_claimed": {"category": cat, "text": text, "design_ref": ref},
            "level_note": NOTE + extra,
            "technique": "machine-checked proof in Coq (Rocq) over a hand-written model + per-run model/implementation correspondence check"})
    else:
        m["not_applicable"].append({"property_id": pid, "reason": NA_REASON})
json.dump(m, open(os.path.join(ROOT, "MANIFEST.json"), "w"), indent=1)
print("claimed:", [c["property_id"] for c in m["checks"]])
