#!/usr/bin/env python3
"""Regenerate the table of section 7 of DESIGN.md from seeded/*/meta.json (the results recorded by
tools/mutants.py run)."""
import glob, json, os, re
ROOT = os.path.dirname(os.path.dirname(os.path.abspath(__file__)))
rows = []
for d in sorted(glob.glob(os.path.join(ROOT, "seeded", "*", "meta.json"))):
    mid = os.path.basename(os.path.dirname(d))
    m = json.load(open(d))
    needs = re.sub(r"\s+", " ", m.get("needs", "")).replace("|", "/")[:150]
    res = []
    for p, c in sorted(m.get("checks", {}).items()):
        s = c.get("summary", "")
        mm = re.search(r"(\d+) correspondence differences, (\d+) oracle failures", s)
        extra = " (%s diffs, %s oracle)" % mm.groups() if mm else ""
        res.append("%s exit %s%s" % (p, c.get("exit"), extra))
    rows.append("| %s | %s | %s |" % (mid, needs, "; ".join(res) or "not run"))
p = os.path.join(ROOT, "DESIGN.md")
lines = open(p).read().split("\n")
i = next(k for k, l in enumerate(lines) if l.startswith("| id | needs, to manifest"))
j = i + 2
while j < len(lines) and lines[j].startswith("|"):
    j += 1
lines[i + 2:j] = rows
open(p, "w").write("\n".join(lines))
print(len(rows), "rows;", sum(1 for r in rows if " exit 1" in r), "reported")
