#!/usr/bin/env python3
"""Rewrites the table 'runs per check' in section 4 of DESIGN.md from lib/props.py (PROPS)."""
import os, sys, re
ROOT = os.path.dirname(os.path.dirname(os.path.abspath(__file__)))
sys.path.insert(0, os.path.join(ROOT, "lib"))
import props
rows = []
for pid in sorted(props.PROPS):
    runs = []
    for r in props.PROPS[pid]["runs"]:
        n = r.get("n", {})
        extra = []
        if "mode" in r:
            extra.append("mode " + r["mode"])
        if "stress" in r:
            extra.append("stress %s/%s" % (r["stress"]["quick"], r["stress"]["thorough"]))
        if "races" in r:
            extra.append("races %s/%s" % (r["races"]["quick"], r["races"]["thorough"]))
        if "exhaustive" in r:
            extra.append("all sequences <= %s/%s" % (r["exhaustive"]["quick"], r["exhaustive"]["thorough"]))
        if r.get("compare") is False:
            extra.append("oracles only")
        runs.append("%s %s/%s%s" % (r["kind"], n.get("quick", "-"), n.get("thorough", "-"), (" (" + ", ".join(extra) + ")") if extra else ""))
    rows.append("| %s | %s |" % (pid, "; ".join(runs)))
p = os.path.join(ROOT, "DESIGN.md")
lines = open(p).read().split("\n")
i = next(k for k, l in enumerate(lines) if l.startswith("| check | harness runs"))
j = i + 2
while j < len(lines) and lines[j].startswith("|"):
    j += 1
lines[i + 2:j] = rows
open(p, "w").write("\n".join(lines))
print(len(rows), "rows")
