#!/usr/bin/env python3
"""Confirms seeded defects produced by sub-agents and runs the checks against them.

  tools/mutants.py confirm <ID.X> ...   # e.g. C01.A : verify suite passes with patch, demo fails with / passes without; store under seeded/
  tools/mutants.py run <ID.X> [props..] # apply seeded/<ID.X>/patch.diff to /repo, run ./check for the property (and extras), undo
"""
import sys, os, json, subprocess, shutil, re
ROOT = os.path.dirname(os.path.dirname(os.path.abspath(__file__)))
SRC = os.environ.get("MUT_SRC", "/tmp/mut")
ENV = dict(os.environ, GOFLAGS="-mod=mod", GOPROXY="off", GOSUMDB="off", GOTOOLCHAIN="local")


def sh(cmd, cwd=None, timeout=1800):
    p = subprocess.run(cmd, cwd=cwd, shell=True, env=ENV, stdout=subprocess.PIPE, stderr=subprocess.STDOUT, text=True, timeout=timeout)
    return p.returncode, p.stdout


def confirm(mid):
    pid, x = mid.split(".")
    patch = os.path.join(SRC, "%s.%s.patch.diff" % (pid, x))
    demo = os.path.join(SRC, "%s.%s.demo_test.go" % (pid, x))
    meta = json.load(open(os.path.join(SRC, "%s.%s.meta.json" % (pid, x))))
    wt = "/root/scratch/confirm_" + mid
    sh("git -C /repo worktree remove --force %s" % wt)
    shutil.rmtree(wt, ignore_errors=True)
    rc, out = sh("git -C /repo worktree add -q --detach %s HEAD" % wt)
    res = {"id": mid, "property": pid}
    try:
        first = open(demo).readline()
        m = re.search(r"(internal/\w+)", first)
        ddir = os.path.join(wt, m.group(1)) if m else wt
        dname = "zz_demo_%s_test.go" % x
        rc, out = sh("git apply %s" % patch, cwd=wt)
        res["patch_applies"] = rc == 0
        rc, out = sh("go build ./... && go test -vet=off -count=1 ./...", cwd=wt)
        res["suite_passes_with_patch"] = rc == 0
        shutil.copy(demo, os.path.join(ddir, dname))
        cmd = meta.get("demo_cmd", "")
        m2 = re.search(r"-run\s+('[^']*'|\"[^\"]*\"|\S+)", cmd)
        runpat = m2.group(1) if m2 else "."
        pkg = "./" + m.group(1) if m else "."
        democmd = "go test -vet=off -count=1 -run %s %s" % (runpat, pkg)
        rc, out = sh(democmd, cwd=wt, timeout=600)
        res["demo_fails_with_patch"] = rc != 0
        res["demo_output_with_patch"] = out[-600:]
        sh("git apply -R %s" % patch, cwd=wt)
        rc, out = sh(democmd, cwd=wt, timeout=600)
        res["demo_passes_without_patch"] = rc == 0
        res["demo_cmd"] = democmd
    finally:
        sh("git -C /repo worktree remove --force %s" % wt)
        shutil.rmtree(wt, ignore_errors=True)
    ok = all(res.get(k) for k in ("patch_applies", "suite_passes_with_patch", "demo_fails_with_patch", "demo_passes_without_patch"))
    res["confirmed"] = ok
    if ok:
        d = os.path.join(ROOT, "seeded", mid)
        os.makedirs(d, exist_ok=True)
        shutil.copy(patch, os.path.join(d, "patch.diff"))
        shutil.copy(demo, os.path.join(d, "demo_test.go"))
        m = {"property": pid, "what": meta.get("what"), "needs": meta.get("needs"),
             "source": "independent sub-agent given only the property text and a scratch worktree",
             "confirmed_by_me": {k: res[k] for k in ("suite_passes_with_patch", "demo_fails_with_patch", "demo_passes_without_patch", "demo_cmd")},
             "checks": {}}
        mp = os.path.join(d, "meta.json")
        if os.path.exists(mp):
            m["checks"] = json.load(open(mp)).get("checks", {})
        json.dump(m, open(mp, "w"), indent=1)
    print(json.dumps({k: v for k, v in res.items() if k != "demo_output_with_patch"}))
    if not ok:
        print(res.get("demo_output_with_patch", ""))
    return ok


def run(mid, props):
    """Applies the seeded change to a scratch worktree of /repo (never to /repo itself), runs the quick checks
    against it (VERIF_REPO) and removes the worktree."""
    d = os.path.join(ROOT, "seeded", mid)
    pid = mid.split(".")[0]
    props = props or [pid]
    wt = "/root/scratch/mutwt_" + mid
    sh("git -C /repo worktree remove --force %s" % wt)
    shutil.rmtree(wt, ignore_errors=True)
    rc, out = sh("git -C /repo worktree add -q --detach %s HEAD" % wt)
    results = {}
    try:
        rc, out = sh("git apply %s" % os.path.join(d, "patch.diff"), cwd=wt)
        if rc != 0:
            print(mid, "PATCH DOES NOT APPLY to the current /repo:", out.strip()[:300])
            return
        for p in props:
            rc, out = sh("VERIF_REPO=%s ./check %s --tier quick" % (wt, p), cwd=ROOT, timeout=3600)
            lines = [l for l in out.splitlines() if l.startswith("VIOLATION") or l.startswith("KNOWN")]
            results[p] = {"exit": rc, "violation_lines": lines[:3], "summary": out.strip().splitlines()[-1] if out.strip() else ""}
            if lines:
                rp = re.search(r"replay=(\S+)", lines[0])
                if rp and os.path.exists(rp.group(1)):
                    try:
                        results[p]["first_replay"] = json.load(open(rp.group(1)))
                    except Exception:
                        results[p]["first_replay"] = open(rp.group(1)).read()[:500]
    finally:
        sh("git -C /repo worktree remove --force %s" % wt)
        shutil.rmtree(wt, ignore_errors=True)
        sh("git -C /repo worktree prune")
        import hashlib
        shutil.rmtree(os.path.join(ROOT, "build", "alt-" + hashlib.sha256(wt.encode()).hexdigest()[:8]), ignore_errors=True)
    mp = os.path.join(d, "meta.json")
    m = json.load(open(mp))
    m.setdefault("checks", {}).update({p: {"exit": r["exit"], "violation_lines": r["violation_lines"], "summary": r["summary"]} for p, r in results.items()})
    json.dump(m, open(mp, "w"), indent=1)
    for p, r in results.items():
        print(mid, p, "exit", r["exit"], "|", r["summary"])
        for l in r["violation_lines"][:1]:
            print("   ", l)
        if "first_replay" in r:
            print("    replay:", json.dumps(r["first_replay"])[:300])


if __name__ == "__main__":
    if sys.argv[1] == "confirm":
        for m in sys.argv[2:]:
            confirm(m)
    elif sys.argv[1] == "run":
        run(sys.argv[2], sys.argv[3:])
