package main

// The type zoo: Go types of many shapes used as samples, inputs and outputs.
// Their shape is never described by hand: dumpTypes walks them with reflect.

import (
	"database/sql"
	"database/sql/driver"
	"encoding/json"
	"fmt"
	"reflect"
	"strconv"

	"github.com/canonical/sqlair"
	"verifharness/zoo2"
)

type Person struct {
	ID       int    `db:"id"`
	Name     string `db:"name"`
	Postcode int    `db:"postcode,omitempty"`
}

type Address struct {
	ID       int    `db:"id"`
	District string `db:"district"`
	Street   string `db:"street"`
}

type Manager Person

type Embed struct {
	Person
	Extra string `db:"extra"`
}

type EmbedPtr struct {
	*Address
	Note string `db:"note"`
}

type Deep struct {
	Embed
	D int `db:"d"`
}

type L3 struct {
	A3 int    `db:"a3"`
	B3 string `db:"b3"`
	C3 int    `db:"c3,omitempty"`
}

type L2 struct {
	L3
	X2 int `db:"x2"`
}

type L1 struct {
	*L2
	X1 int `db:"x1"`
}

type Deep4 struct {
	L1
	X0 int `db:"x0"`
}

type Home struct {
	ID   int    `db:"home_id"`
	City string `db:"home_city"`
}

type Work struct {
	ID   int    `db:"work_id"`
	City string `db:"work_city"`
}

type Contact struct {
	Home
	Work
	N string `db:"n"`
}

type AutoID struct {
	ID  int    `db:"id,omitempty"`
	Seq string `db:"seq,omitempty"`
}

type Omit struct {
	A int     `db:"a,omitempty"`
	B string  `db:"b, omitempty"`
	C int     `db:"c"`
	F float64 `db:"f,omitempty"`
}

type PtrFields struct {
	P *int    `db:"p"`
	S *string `db:"s,omitempty"`
	Q int     `db:"q"`
}

type Quoted struct {
	A int `db:"\"my col\""`
	B int `db:"'q'"`
}

type Unicode struct {
	N int `db:"añb"`
	Z int `db:"日本"`
	U int `db:"_u1"`
	D int `db:"n٣"` // a decimal digit that is not ASCII
	E int `db:"n"`
	F int `db:"ｘ３ｙ"`
}

type Numeric struct {
	One   int `db:"1"`
	Two   int `db:"22"`
	Ten   int `db:"10"`
	Nine  int `db:"9"`
	Seven int `db:"007"`
}

type NoTags struct {
	X int
	Y string
}

type Unexported struct {
	x int `db:"x"`
	Y int `db:"y"`
}

type BadFlag struct {
	X int `db:"x,bogus"`
}

type BadEmpty struct {
	X int `db:",omitempty"`
}

type BadQuote struct {
	X int `db:"\"abc"`
}

// tags at the edge of what parseTag accepts (the model decides which of them Prepare rejects)
type TagLoneQuote struct {
	X int `db:"'"`
}
type TagLoneDQuote struct {
	X int `db:"\""`
}
type TagLoneQuoteFlag struct {
	X int `db:"',omitempty"`
}
type TagEmptyQuoted struct {
	X int `db:"''"`
}
type TagEmptyDQuoted struct {
	X int `db:"\"\""`
}
type TagQuoteInside struct {
	X int `db:"a'b"`
}
type TagSpace struct {
	X int `db:" x"`
}
type TagTrailingComma struct {
	X int `db:"x,"`
}
type TagTwoFlags struct {
	X int `db:"x,omitempty,omitempty"`
}
type TagDash struct {
	X int `db:"-"`
	Y int `db:"y"`
}
type TagStar struct {
	X int `db:"*"`
}
type TagUnderscore struct {
	X int `db:"_"`
	Y int `db:"_1"`
}
type TagMixedQuotes struct {
	X int `db:"'a\""`
}

type BadChar struct {
	X int `db:"a-b"`
}

type BadDigit struct {
	X int `db:"1a"`
}

type DupTag struct {
	A int `db:"x"`
	B int `db:"x"`
}

type DupEmbed struct {
	Person
	ID2 int `db:"id"`
}

type Rec struct {
	*Rec
	X int `db:"x"`
}

type RecA struct {
	*RecB
	A int `db:"a"`
}

type RecB struct {
	*RecA
	B int `db:"b"`
}

// a cycle of embedded pointers that is reachable from the sample but does not contain it
type RecRoot struct {
	*RecA
	R int `db:"r"`
}

type IntMap map[string]int
type MyStr string
type KM map[MyStr]any
type BadMap map[int]any

// a map whose values are pointers
type PtrMap map[string]*int

type IntSlice []int
type StrSlice []string

// MyStrs: the elements are of a named string type; the driver is handed MyStr values, not plain strings.
type MyStrs []MyStr
type PersonSlice []Person

// named slice types over struct types the statements insert: not the `[]T` / `[]*T` a bulk insert takes
type AddressSlice []Address
type PersonPtrs []*Person
type PersonPtr *Person

type Money struct{ cents int64 }

func (m Money) Value() (driver.Value, error) { return m.cents, nil }
func (m *Money) Scan(v any) error {
	switch x := v.(type) {
	case int64:
		m.cents = x
	case nil:
		m.cents = 0
	default:
		return fmt.Errorf("cannot scan %T into Money", v)
	}
	return nil
}

// a value type with an IsZero method that does not agree with "is the zero value of its type"
// ({0, "EUR"} is not the zero value): omitempty goes by the zero value
type Amount struct {
	Cents int64
	Cur   string
}

func (a Amount) IsZero() bool                 { return a.Cents == 0 }
func (a Amount) Value() (driver.Value, error) { return a.Cents, nil }
func (a *Amount) Scan(v any) error {
	switch x := v.(type) {
	case int64:
		a.Cents = x
	case nil:
		a.Cents = 0
	default:
		return fmt.Errorf("cannot scan %T into Amount", v)
	}
	return nil
}

type Bill struct {
	ID    int     `db:"id"`
	Total Amount  `db:"total,omitempty"`
	Tip   *Amount `db:"tip,omitempty"`
	Note  string  `db:"note,omitempty"`
}

// members of interface types: the empty interface itself and defined types whose underlying type it is
type Attr interface{}
type Loose struct {
	ID int          `db:"id"`
	V  driver.Value `db:"v"`
	A  Attr         `db:"a"`
	X  any          `db:"x,omitempty"`
}

// instantiated generic types: their name is "Page[int]", which no query can spell; a query naming "Page"
// does not refer to them
type Page[T any] struct {
	ID T   `db:"id"`
	N  int `db:"n"`
}
type KV[V any] map[string]V
type List[E any] []E

// a member type whose POINTER implements driver.Valuer (the value does not): the value is what is sent
type PtrValuer struct{ N int64 }

func (p *PtrValuer) Value() (driver.Value, error) { return p.N + 1000, nil }
func (p *PtrValuer) Scan(v any) error {
	switch x := v.(type) {
	case int64:
		p.N = x
	case nil:
		p.N = 0
	default:
		return fmt.Errorf("cannot scan %T into PtrValuer", v)
	}
	return nil
}

type HasPtrValuer struct {
	ID int        `db:"id"`
	V  PtrValuer  `db:"v"`
	W  *PtrValuer `db:"w"`
}

type Priced struct {
	Amount Money         `db:"amount"`
	Null   sql.NullInt64 `db:"nullable"`
	ID     int           `db:"id"`
}

type TaggedEmbed struct {
	Person `db:"person"`
	K      int `db:"k"`
}

type person2 struct {
	H int `db:"h"`
}

type EmbedUnexported struct {
	person2
	Y int `db:"y"`
}

type EmbedNonStruct struct {
	IntSlice
	Z int `db:"z"`
}

type Mixed struct {
	I  int     `db:"i"`
	S  string  `db:"s"`
	F  float64 `db:"f"`
	B  bool    `db:"b"`
	By []byte  `db:"by"`
	No int
}

// more than ten columns: aliases and placeholders with two digits; tags whose byte order differs
// from their numeric and from their case-insensitive order
type Wide struct {
	C1  int    `db:"c1"`
	C10 int    `db:"c10"`
	C2  int    `db:"c2"`
	Cb  string `db:"B"`
	Ca  string `db:"a"`
	CZ  int    `db:"Z"`
	C11 int    `db:"c11"`
	C3  *int   `db:"c3"`
	C20 int    `db:"c20,omitempty"`
	C9  int    `db:"c9"`
	Cx  int    `db:"_x"`
	C12 int64  `db:"c12"`
	C13 string `db:"c13"`
}

// a tag-less struct reached along two embedding paths (diamond) and directly
// plus through a sibling: well-typed, not self-embedding
type Audit struct {
	By string
	At int
}

type Ident struct {
	Audit
	ID int `db:"id"`
}

type Contact2 struct {
	Audit
	Email string `db:"email"`
}

type Diamond struct {
	Ident
	Contact2
}

type Twice struct {
	Audit
	Ident
	N int `db:"n"`
}

// a Scanner that counts how often it was scanned into: a fresh destination element sees exactly one Scan
type Counted struct {
	V int64
	N int
}

func (c *Counted) Scan(v any) error {
	c.N++
	switch x := v.(type) {
	case int64:
		c.V = x
	case nil:
		c.V = 0
	default:
		return fmt.Errorf("cannot scan %T into Counted", v)
	}
	return nil
}
func (c Counted) Value() (driver.Value, error) { return c.V, nil }

type Tracked struct {
	ID int     `db:"id"`
	C  Counted `db:"c"`
	D  Counted `db:"d"`
}

// named byte-slice types: database/sql special-cases only the unnamed []byte
type Blob []byte

type Doc struct {
	ID   int             `db:"id"`
	Raw  []byte          `db:"raw"`
	Meta Blob            `db:"meta"`
	J    json.RawMessage `db:"j"`
}

// pointers to Scanner types: database/sql allocates the value behind a nil pointer
type PtrScan struct {
	ID int            `db:"id"`
	PM *Money         `db:"pm"`
	PN *sql.NullInt64 `db:"pn"`
	PC *Counted       `db:"pc"`
}

// omitempty on slice-typed members: only a nil slice is the zero value, an empty one is not
type BlobOpt struct {
	ID   int    `db:"id"`
	Data []byte `db:"data,omitempty"`
	Tags Blob   `db:"tags,omitempty"`
}

type zooEntry struct {
	name   string
	sample any
}

// zooSamples: one zero value of every type, used as Prepare samples.
var zooSamples = []zooEntry{
	{"Person", Person{}}, {"Address", Address{}}, {"Manager", Manager{}}, {"Embed", Embed{}},
	{"EmbedPtr", EmbedPtr{}}, {"Deep", Deep{}}, {"Deep4", Deep4{}}, {"Contact", Contact{}}, {"AutoID", AutoID{}}, {"Omit", Omit{}}, {"PtrFields", PtrFields{}},
	{"Quoted", Quoted{}}, {"Unicode", Unicode{}}, {"Numeric", Numeric{}}, {"NoTags", NoTags{}},
	{"Unexported", Unexported{}}, {"BadFlag", BadFlag{}}, {"BadEmpty", BadEmpty{}}, {"BadQuote", BadQuote{}},
	{"BadChar", BadChar{}}, {"BadDigit", BadDigit{}}, {"DupTag", DupTag{}}, {"DupEmbed", DupEmbed{}},
	{"Rec", Rec{}}, {"RecA", RecA{}}, {"RecRoot", RecRoot{}}, {"M", sqlair.M{}}, {"IntMap", IntMap{}}, {"KM", KM{}}, {"BadMap", BadMap{}}, {"PtrMap", PtrMap{}},
	{"S", sqlair.S{}}, {"IntSlice", IntSlice{}}, {"StrSlice", StrSlice{}}, {"MyStrs", MyStrs{}}, {"PersonSlice", PersonSlice{}},
	{"Priced", Priced{}}, {"TaggedEmbed", TaggedEmbed{}}, {"EmbedUnexported", EmbedUnexported{}},
	{"EmbedNonStruct", EmbedNonStruct{}}, {"Mixed", Mixed{}}, {"Doc", Doc{}}, {"Diamond", Diamond{}}, {"Twice", Twice{}}, {"Tracked", Tracked{}}, {"BlobOpt", BlobOpt{}}, {"PtrScan", PtrScan{}}, {"Wide", Wide{}}, {"Bill", Bill{}}, {"Loose", Loose{}}, {"HasPtrValuer", HasPtrValuer{}}, {"Page", Page[int]{}}, {"KV", KV[int]{}}, {"List", List[int]{}},
	{"TagLoneQuote", TagLoneQuote{}}, {"TagLoneDQuote", TagLoneDQuote{}}, {"TagLoneQuoteFlag", TagLoneQuoteFlag{}}, {"TagEmptyQuoted", TagEmptyQuoted{}}, {"TagEmptyDQuoted", TagEmptyDQuoted{}}, {"TagQuoteInside", TagQuoteInside{}}, {"TagSpace", TagSpace{}}, {"TagTrailingComma", TagTrailingComma{}}, {"TagTwoFlags", TagTwoFlags{}}, {"TagDash", TagDash{}}, {"TagStar", TagStar{}}, {"TagUnderscore", TagUnderscore{}}, {"TagMixedQuotes", TagMixedQuotes{}},
	{"zoo2.Person", zoo2.Person{}}, {"zoo2.M", zoo2.M{}}, {"zoo2.IntSlice", zoo2.IntSlice{}},
}

// good types for statement generation (Prepare succeeds with them)
var goodStructs = []string{"Person", "Address", "Manager", "Embed", "EmbedPtr", "Deep", "Deep4", "Contact", "AutoID", "AutoID", "Omit", "PtrFields", "Quoted", "Unicode", "Numeric", "Priced", "TaggedEmbed", "EmbedUnexported", "EmbedNonStruct", "Mixed", "Doc", "Diamond", "Twice", "Tracked", "BlobOpt", "PtrScan", "Wide", "Bill", "Loose", "HasPtrValuer"}
var goodMaps = []string{"M", "IntMap", "KM", "PtrMap"}
var goodSlices = []string{"S", "IntSlice", "StrSlice", "PersonSlice", "MyStrs"}

func zooByName(name string) any {
	for _, z := range zooSamples {
		if z.name == name {
			return z.sample
		}
	}
	panic("unknown zoo type " + name)
}

// odd samples: values that are not usable as samples
var oddSamples = []any{nil, &Person{}, 5, "str", struct{ X int }{}, map[string]any{}, []int{}, (*Person)(nil), func() {}, make(chan int), 3.5, [2]int{}, &sqlair.M{}}

// ------------------------------------------------------------ type dump --

var scannerIface = reflect.TypeOf((*sql.Scanner)(nil)).Elem()

type typeEnv struct {
	ids   map[reflect.Type]int
	types []reflect.Type
}

func newTypeEnv() *typeEnv { return &typeEnv{ids: map[reflect.Type]int{}} }

func (e *typeEnv) id(t reflect.Type) int {
	if id, ok := e.ids[t]; ok {
		return id
	}
	id := len(e.types)
	e.ids[t] = id
	e.types = append(e.types, t)
	switch t.Kind() {
	case reflect.Struct:
		for i := 0; i < t.NumField(); i++ {
			e.id(t.Field(i).Type)
		}
	case reflect.Map, reflect.Slice, reflect.Pointer:
		e.id(t.Elem())
	}
	// the derived types sqlair may ask for
	if (t.Kind() == reflect.Struct || t.Kind() == reflect.Map) && t.Name() != "" {
		e.id(reflect.PointerTo(t))
		e.id(reflect.SliceOf(t))
		e.id(reflect.SliceOf(reflect.PointerTo(t)))
	}
	return id
}

func b2i(b bool) int {
	if b {
		return 1
	}
	return 0
}

func (e *typeEnv) dump() string {
	s := "("
	for i := 0; i < len(e.types); i++ { // e.types may not grow here: ids are closed under the walk
		t := e.types[i]
		if i > 0 {
			s += " "
		}
		sc := b2i(reflect.PointerTo(t).Implements(scannerIface))
		switch t.Kind() {
		case reflect.Struct:
			s += fmt.Sprintf("(struct %s %d (", hx(t.Name()), sc)
			for j := 0; j < t.NumField(); j++ {
				f := t.Field(j)
				if j > 0 {
					s += " "
				}
				s += fmt.Sprintf("(%s %d %d %s %d)", hx(f.Name), b2i(f.IsExported()), b2i(f.Anonymous), hx(f.Tag.Get("db")), e.ids[f.Type])
			}
			s += "))"
		case reflect.Map:
			s += fmt.Sprintf("(map %s %d %d %d)", hx(t.Name()), b2i(t.Key().Kind() == reflect.String), e.ids[t.Elem()], sc)
		case reflect.Slice:
			s += fmt.Sprintf("(slice %s %d)", hx(t.Name()), e.ids[t.Elem()])
		case reflect.Pointer:
			s += fmt.Sprintf("(ptr %d)", e.ids[t.Elem()])
		default:
			s += fmt.Sprintf("(other %s %s %d)", t.Kind().String(), hx(t.Name()), sc)
		}
	}
	return s + ")"
}

func hx(s string) string { return "x" + fmt.Sprintf("%x", s) }

// ----------------------------------------------------------- value dump --

// leafID gives the identity of a non-container value.
func leafID(v reflect.Value) uint64 {
	switch v.Kind() {
	case reflect.Int, reflect.Int8, reflect.Int16, reflect.Int32, reflect.Int64:
		return uint64(v.Int())
	case reflect.Uint, reflect.Uint8, reflect.Uint16, reflect.Uint32, reflect.Uint64, reflect.Uintptr:
		return v.Uint()
	case reflect.String:
		s := v.String()
		if len(s) > 1 && s[0] == 'v' {
			if n, err := strconv.ParseUint(s[1:], 10, 64); err == nil {
				return n
			}
		}
		if n, err := strconv.ParseUint(s, 10, 64); err == nil {
			return n // a number converted to a string by database/sql
		}
		var h uint64 = 7
		for _, c := range []byte(s) {
			h = h*31 + uint64(c)
		}
		return h % 1000000
	case reflect.Bool:
		if v.Bool() {
			return 1
		}
		return 0
	case reflect.Float32, reflect.Float64:
		return uint64(v.Float())
	}
	return 0
}

// dumpVal prints a value as the VAL s-expression of the case format.
func dumpVal(v reflect.Value) string {
	if !v.IsValid() {
		return "(leaf 0 1)"
	}
	switch v.Kind() {
	case reflect.Struct:
		s := "(struct"
		for i := 0; i < v.NumField(); i++ {
			s += " " + dumpVal(v.Field(i))
		}
		return s + ")"
	case reflect.Pointer:
		if v.IsNil() {
			return "nilptr"
		}
		return "(ptr " + dumpVal(v.Elem()) + ")"
	case reflect.Interface:
		if v.IsNil() {
			return "(leaf 0 1)"
		}
		return dumpVal(v.Elem())
	case reflect.Map:
		if v.Type().Key().Kind() != reflect.String {
			return fmt.Sprintf("(leaf 0 %d)", b2i(v.IsZero()))
		}
		s := fmt.Sprintf("(map %d", b2i(v.IsNil()))
		keys := v.MapKeys()
		// deterministic order
		for i := 0; i < len(keys); i++ {
			for j := i + 1; j < len(keys); j++ {
				if keys[j].String() < keys[i].String() {
					keys[i], keys[j] = keys[j], keys[i]
				}
			}
		}
		for _, k := range keys {
			s += fmt.Sprintf(" (%s %s)", hx(k.String()), dumpVal(v.MapIndex(k)))
		}
		return s + ")"
	case reflect.Slice:
		s := fmt.Sprintf("(slice %d", b2i(v.IsNil()))
		for i := 0; i < v.Len(); i++ {
			s += " " + dumpVal(v.Index(i))
		}
		return s + ")"
	}
	return fmt.Sprintf("(leaf %d %d)", leafID(v), b2i(v.IsZero()))
}

// printVal prints a value in the format of the model's print_val.
func printVal(v reflect.Value) string {
	if !v.IsValid() {
		return "z"
	}
	switch v.Kind() {
	case reflect.Struct:
		s := "s("
		for i := 0; i < v.NumField(); i++ {
			if i > 0 {
				s += ","
			}
			s += printVal(v.Field(i))
		}
		return s + ")"
	case reflect.Pointer:
		if v.IsNil() {
			return "nil"
		}
		return "p(" + printVal(v.Elem()) + ")"
	case reflect.Interface:
		if v.IsNil() {
			return "z"
		}
		return printVal(v.Elem())
	case reflect.Map:
		if v.Type().Key().Kind() != reflect.String {
			if v.IsZero() {
				return "z"
			}
			return "l0"
		}
		if v.IsNil() {
			return "nilmap"
		}
		keys := v.MapKeys()
		for i := 0; i < len(keys); i++ {
			for j := i + 1; j < len(keys); j++ {
				if keys[j].String() < keys[i].String() {
					keys[i], keys[j] = keys[j], keys[i]
				}
			}
		}
		s := "m("
		for i, k := range keys {
			if i > 0 {
				s += ","
			}
			s += hx(k.String()) + "=" + printVal(v.MapIndex(k))
		}
		return s + ")"
	case reflect.Slice:
		if v.IsNil() {
			return "nilslice"
		}
		s := "v("
		for i := 0; i < v.Len(); i++ {
			if i > 0 {
				s += ","
			}
			s += printVal(v.Index(i))
		}
		return s + ")"
	}
	if v.IsZero() {
		return "z"
	}
	return "l" + strconv.FormatUint(leafID(v), 10)
}

// ------------------------------------------------------------ value fill --

type filler struct {
	r       *rng
	counter uint64
	zeroP   int // probability (out of 10) that a leaf is left zero
	nilP    int // probability (out of 10) that a pointer is left nil
}

func (f *filler) nextID() uint64 {
	f.counter++
	return 1000 + f.counter
}

// fill sets the settable parts of v to fresh unique values.
func (f *filler) fill(v reflect.Value, depth int) {
	if !v.CanSet() {
		return
	}
	switch v.Kind() {
	case reflect.Struct:
		for i := 0; i < v.NumField(); i++ {
			f.fill(v.Field(i), depth+1)
		}
	case reflect.Pointer:
		if depth > 4 || f.r.intn(10) < f.nilP {
			return
		}
		p := reflect.New(v.Type().Elem())
		f.fill(p.Elem(), depth+1)
		v.Set(p)
	case reflect.Int, reflect.Int8, reflect.Int16, reflect.Int32, reflect.Int64:
		if f.r.intn(10) >= f.zeroP {
			id := f.nextID()
			if v.Kind() == reflect.Int8 {
				id = id % 100
			}
			v.SetInt(int64(id))
		}
	case reflect.Uint, reflect.Uint16, reflect.Uint32, reflect.Uint64:
		if f.r.intn(10) >= f.zeroP {
			v.SetUint(f.nextID())
		}
	case reflect.String:
		if f.r.intn(10) >= f.zeroP {
			v.SetString("v" + strconv.FormatUint(f.nextID(), 10))
		}
	case reflect.Float32, reflect.Float64:
		if f.r.intn(10) >= f.zeroP {
			v.SetFloat(float64(f.nextID()))
		}
	case reflect.Bool:
		if f.r.intn(10) >= f.zeroP {
			v.SetBool(true)
		}
	case reflect.Slice:
		if f.r.intn(10) < f.zeroP {
			return
		}
		n := f.r.intn(4)
		s := reflect.MakeSlice(v.Type(), n, n)
		for i := 0; i < n; i++ {
			f.fill(s.Index(i), depth+1)
		}
		v.Set(s)
	case reflect.Interface:
		if v.NumMethod() == 0 && f.r.intn(10) >= f.zeroP {
			switch f.r.intn(3) {
			case 0:
				v.Set(reflect.ValueOf(int(f.nextID())))
			case 1:
				v.Set(reflect.ValueOf("v" + strconv.FormatUint(f.nextID(), 10)))
			default:
				v.Set(reflect.ValueOf(float64(f.nextID())))
			}
		}
	}
}
