package main

// An executable transcription of what properties C01, C03, C04 and C05 say the
// generated SQL and arguments must be, written from the property texts and
// the documentation - not from the code and not from the Coq model.  It is an
// oracle on the IMPLEMENTATION's accepted outputs: given the segments the
// implementation's own parser found (hook dump), the samples and the
// arguments, it computes the expected driver SQL and named arguments; a
// deviation is a concrete failing input for the property of the first
// deviating segment.  It never judges rejections (those are compared with the
// model by class) and abstains where the texts leave the result open.

import (
	"fmt"
	"reflect"
	"sort"
	"strings"
)

type specArg struct {
	single reflect.Value // a T (dereferenced), or invalid
	bulk   reflect.Value // a []T / []*T, or invalid
}

type specEnv struct {
	args map[string]specArg // by type name
	n    int                // next input number
	o    int                // next output number
	sql  strings.Builder
	out  []string // name=value
	typs []string // dynamic Go type of each value, parallel to out
	ok   bool
	why  string
}

// dynType: the Go type of the value an argument expression denotes (what val.Interface() yields).
func dynType(v reflect.Value) string {
	if v.IsValid() && v.Kind() == reflect.Interface {
		v = v.Elem()
	}
	if !v.IsValid() {
		return "<nil>"
	}
	return v.Type().String()
}

func (e *specEnv) abstain(why string) { e.ok = false; e.why = why }

func specArgs(args []any) (map[string]specArg, bool) {
	m := map[string]specArg{}
	for _, a := range args {
		if a == nil {
			return nil, false
		}
		v := reflect.ValueOf(a)
		if v.Kind() == reflect.Pointer {
			if v.IsNil() {
				return nil, false
			}
			v = v.Elem()
		}
		t := v.Type()
		switch t.Kind() {
		case reflect.Struct, reflect.Map:
			if _, dup := m[t.Name()]; dup || t.Name() == "" {
				return nil, false
			}
			m[t.Name()] = specArg{single: v}
		case reflect.Slice:
			et := t.Elem()
			if et.Kind() == reflect.Pointer {
				et = et.Elem()
			}
			if t.Name() != "" {
				// a named slice: used with $S[:]
				if _, dup := m[t.Name()]; dup {
					return nil, false
				}
				m[t.Name()] = specArg{single: v}
			} else if et.Kind() == reflect.Struct || et.Kind() == reflect.Map {
				if _, dup := m[et.Name()]; dup || et.Name() == "" {
					return nil, false
				}
				m[et.Name()] = specArg{bulk: v}
			} else {
				return nil, false
			}
		default:
			return nil, false
		}
	}
	return m, true
}

// memberOf: the value of member name of v (struct: by db tag through embedded structs; map: by key)
func memberOf(v reflect.Value, name string) (reflect.Value, bool) {
	if v.Kind() == reflect.Pointer {
		if v.IsNil() {
			return reflect.Value{}, false
		}
		v = v.Elem()
	}
	switch v.Kind() {
	case reflect.Struct:
		return fieldByTag(v, name)
	case reflect.Map:
		if v.Type().Key().Kind() != reflect.String {
			return reflect.Value{}, false
		}
		mv := v.MapIndex(reflect.ValueOf(name).Convert(v.Type().Key()))
		if !mv.IsValid() {
			return reflect.Value{}, false
		}
		return mv, true
	}
	return reflect.Value{}, false
}

type specCol struct {
	name   string
	typ    string // providing type
	member string
	lit    *string
	star   bool // came from $T.* / a spare column of the map: omitempty may drop it
}

// values of a column for every row; bulk reports whether they come from a slice
func (e *specEnv) colValues(c specCol) (vals []reflect.Value, bulk bool, ok bool) {
	a, have := e.args[c.typ]
	if !have {
		return nil, false, false
	}
	if a.single.IsValid() {
		v, ok := memberOf(a.single, c.member)
		if !ok {
			return nil, false, false
		}
		return []reflect.Value{v}, false, true
	}
	for i := 0; i < a.bulk.Len(); i++ {
		v, ok := memberOf(a.bulk.Index(i), c.member)
		if !ok {
			return nil, false, false
		}
		vals = append(vals, v)
	}
	return vals, true, len(vals) > 0
}

func sampleType(samples []any, name string) (reflect.Type, bool) {
	for _, s := range samples {
		if s == nil {
			continue
		}
		t := reflect.TypeOf(s)
		if t.Name() == name {
			return t, true
		}
	}
	return nil, false
}

func sortedTags(t reflect.Type) []string {
	tags := append([]string{}, zooTags(t)...)
	sort.Strings(tags)
	return tags
}

func (e *specEnv) placeholder() string {
	s := fmt.Sprintf("@sqlair_%d", e.n)
	return s
}

func (e *specEnv) insert(cols []specCol) {
	// rows: the length of the slice(s) or one
	numRows := 1
	type bound struct {
		c     specCol
		vals  []reflect.Value
		bulk  bool
		first int
	}
	var bs []bound
	seenBulk := false
	for _, c := range cols {
		if c.lit != nil {
			bs = append(bs, bound{c: c})
			continue
		}
		vals, bulk, ok := e.colValues(c)
		if !ok {
			e.abstain("value of " + c.typ + "." + c.member + " not available")
			return
		}
		if bulk {
			if seenBulk && len(vals) != numRows {
				e.abstain("must-reject: slices of different lengths")
				return
			}
			seenBulk = true
			numRows = len(vals)
		}
		// omitempty: dropped when zero in every row
		t, _ := sampleTypeOfArg(e.args[c.typ])
		omit := false
		if t != nil && t.Kind() == reflect.Struct && tagOmit(t, c.member) {
			all, any := true, false
			for _, v := range vals {
				if v.IsZero() {
					any = true
				} else {
					all = false
				}
			}
			if any && !all {
				e.abstain("must-reject: mix of zero and non-zero under omitempty")
				return
			}
			omit = all
		}
		if omit {
			if !c.star {
				e.abstain("must-reject: explicit omitempty zero")
				return
			}
			continue
		}
		bs = append(bs, bound{c: c, vals: vals, bulk: bulk})
	}
	// column-major numbering
	for i := range bs {
		if bs[i].c.lit != nil {
			continue
		}
		bs[i].first = e.n
		e.n += len(bs[i].vals)
	}
	var names []string
	for _, b := range bs {
		names = append(names, b.c.name)
	}
	e.sql.WriteString("(" + strings.Join(names, ", ") + ") VALUES ")
	for r := 0; r < numRows; r++ {
		if r > 0 {
			e.sql.WriteString(", ")
		}
		var cells []string
		for _, b := range bs {
			switch {
			case b.c.lit != nil:
				cells = append(cells, *b.c.lit)
			case !b.bulk || len(b.vals) == 1:
				cells = append(cells, fmt.Sprintf("@sqlair_%d", b.first))
				if r == 0 {
					e.out = append(e.out, fmt.Sprintf("sqlair_%d=%s", b.first, printVal(b.vals[0])))
					e.typs = append(e.typs, dynType(b.vals[0]))
				}
			default:
				cells = append(cells, fmt.Sprintf("@sqlair_%d", b.first+r))
				e.out = append(e.out, fmt.Sprintf("sqlair_%d=%s", b.first+r, printVal(b.vals[r])))
				e.typs = append(e.typs, dynType(b.vals[r]))
			}
		}
		e.sql.WriteString("(" + strings.Join(cells, ", ") + ")")
	}
}

func sampleTypeOfArg(a specArg) (reflect.Type, bool) {
	if a.single.IsValid() {
		return a.single.Type(), true
	}
	if a.bulk.IsValid() {
		t := a.bulk.Type().Elem()
		if t.Kind() == reflect.Pointer {
			t = t.Elem()
		}
		return t, true
	}
	return nil, false
}

func colString(table, col string) string {
	if table == "" {
		return col
	}
	return table + "." + col
}

// specExpected computes the expected SQL and arguments, piece by piece; pieces[i] is the text of
// segment i and kinds[i] its kind.
func specExpected(dump string, samples []any, args []any) (pieces []string, kinds []string, out []string, typs []string, ok bool, why string) {
	am, good := specArgs(args)
	if !good {
		return nil, nil, nil, nil, false, "arguments outside the oracle's reach"
	}
	e := &specEnv{args: am, ok: true}
	for _, sg := range segmentsFull(dump) {
		e.sql.Reset()
		switch sg.kind {
		case "B":
			e.sql.WriteString(sg.raw)
		case "IN":
			a, have := am[sg.acc[0][0]]
			if !have || !a.single.IsValid() {
				return nil, nil, nil, nil, false, "input outside an insert without a single argument"
			}
			v, found := memberOf(a.single, sg.acc[0][1])
			if !found {
				return nil, nil, nil, nil, false, "member value not available"
			}
			if t := a.single.Type(); t.Kind() == reflect.Struct && tagOmit(t, sg.acc[0][1]) && v.IsZero() {
				return nil, nil, nil, nil, false, "must-reject: explicit omitempty zero"
			}
			e.sql.WriteString(fmt.Sprintf("@sqlair_%d", e.n))
			e.out = append(e.out, fmt.Sprintf("sqlair_%d=%s", e.n, printVal(v)))
			e.typs = append(e.typs, dynType(v))
			e.n++
		case "SL":
			a, have := am[sg.sliceType]
			if !have || !a.single.IsValid() || a.single.Kind() != reflect.Slice {
				return nil, nil, nil, nil, false, "slice argument not available"
			}
			var ps []string
			for i := 0; i < a.single.Len(); i++ {
				ps = append(ps, fmt.Sprintf("@sqlair_%d", e.n))
				e.out = append(e.out, fmt.Sprintf("sqlair_%d=%s", e.n, printVal(a.single.Index(i))))
				e.typs = append(e.typs, dynType(a.single.Index(i)))
				e.n++
			}
			e.sql.WriteString(strings.Join(ps, ", "))
		case "OUT":
			var cols []string
			nstarCols := 0
			for _, c := range sg.cols {
				if !c.fn && c.col == "*" {
					nstarCols++
				}
			}
			nstarTypes := 0
			for _, t := range sg.acc {
				if t[1] == "*" {
					nstarTypes++
				}
			}
			switch {
			case len(sg.cols) == 0 || (len(sg.cols) == 1 && nstarCols == 1):
				pref := ""
				if len(sg.cols) == 1 {
					pref = sg.cols[0].table
				}
				for _, t := range sg.acc {
					if t[1] == "*" {
						st, have := sampleType(samples, t[0])
						if !have || st.Kind() != reflect.Struct {
							return nil, nil, nil, nil, false, "sample not available"
						}
						for _, tg := range sortedTags(st) {
							cols = append(cols, colString(pref, tg))
						}
					} else {
						cols = append(cols, colString(pref, t[1]))
					}
				}
			default:
				for _, c := range sg.cols {
					if c.fn {
						cols = append(cols, c.raw)
					} else {
						cols = append(cols, colString(c.table, c.col))
					}
				}
			}
			var ps []string
			for _, c := range cols {
				ps = append(ps, fmt.Sprintf("%s AS _sqlair_%d", c, e.o))
				e.o++
			}
			e.sql.WriteString(strings.Join(ps, ", "))
		case "AI":
			var cols []specCol
			for _, s := range sg.acc {
				if s[1] == "*" {
					st, have := sampleType(samples, s[0])
					if !have || st.Kind() != reflect.Struct {
						return nil, nil, nil, nil, false, "sample not available"
					}
					for _, tg := range sortedTags(st) {
						cols = append(cols, specCol{name: tg, typ: s[0], member: tg, star: true})
					}
				} else {
					cols = append(cols, specCol{name: s[1], typ: s[0], member: s[1]})
				}
			}
			e.insert(cols)
		case "CI":
			// listed columns keep their order; each is matched to the member of that name; spare
			// columns come from the one map given with an asterisk
			mapType := ""
			for _, s := range sg.acc {
				if s[1] == "*" {
					if st, have := sampleType(samples, s[0]); have && st.Kind() == reflect.Map {
						mapType = s[0]
					}
				}
			}
			var cols []specCol
			for _, c := range sg.cols {
				name := colString(c.table, c.col)
				if c.fn {
					name = c.raw
				}
				var prov []string
				for _, s := range sg.acc {
					if s[1] == "*" {
						st, have := sampleType(samples, s[0])
						if have && st.Kind() == reflect.Struct {
							for _, tg := range zooTags(st) {
								if tg == name {
									prov = append(prov, s[0])
								}
							}
						}
					} else if s[1] == name {
						prov = []string{s[0]}
					}
				}
				switch {
				case len(prov) == 1:
					cols = append(cols, specCol{name: name, typ: prov[0], member: name})
				case len(prov) == 0 && mapType != "":
					cols = append(cols, specCol{name: name, typ: mapType, member: name})
				default:
					return nil, nil, nil, nil, false, "column provider not determined by the texts"
				}
			}
			e.insert(cols)
		case "BI":
			var cols []specCol
			if len(sg.cols) != len(sg.vals) {
				return nil, nil, nil, nil, false, "counts differ"
			}
			for i, c := range sg.cols {
				name := c.col
				if c.fn {
					name = c.raw
				}
				v := sg.vals[i]
				if v.lit != nil {
					cols = append(cols, specCol{name: name, lit: v.lit})
				} else {
					cols = append(cols, specCol{name: name, typ: v.typ, member: v.member})
				}
			}
			e.insert(cols)
		default:
			return nil, nil, nil, nil, false, "unknown segment kind"
		}
		if !e.ok {
			return nil, nil, nil, nil, false, e.why
		}
		pieces = append(pieces, e.sql.String())
		kinds = append(kinds, sg.kind)
	}
	return pieces, kinds, e.out, e.typs, true, ""
}

var propOfKind = map[string]string{"B": "C01", "IN": "C03", "SL": "C03", "AI": "C04", "CI": "C04", "BI": "C04", "OUT": "C05"}

// specOracle compares the implementation's accepted output with the expectation.
func specOracle(c bindCase, o bindObs, st *bindStats, add func(violation)) {
	if strings.Contains(c.query, "sqlair_") || o.panicked != "" {
		return
	}
	f := strings.Fields(o.line)
	accepted := o.sql != ""
	valueRejected := len(f) == 2 && f[0] == "QUERY-ERR" &&
		(f[1] == "mix-zero" || f[1] == "omit-explicit" || f[1] == "mismatch-bulk" || f[1] == "slice-len0")
	if !accepted && !valueRejected {
		return
	}
	dump, err := verifParse(c.query)
	if err != nil {
		return
	}
	pieces, kinds, want, wantTypes, ok, why := specExpected(dump, c.samples, c.args)
	qh := hx(c.query)
	if !ok {
		if accepted && strings.HasPrefix(why, "must-reject") {
			st.SpecChecked++
			add(violation{"C04", "accepted-what-the-property-rejects", qh, why + "; driver received " + o.sql})
			return
		}
		st.SpecAbstained++
		return
	}
	st.SpecChecked++
	if valueRejected {
		add(violation{"C04", "rejected-what-the-property-accepts", qh, o.line + " although the values are rectangular, non-empty and consistent under omitempty"})
		return
	}
	rest := o.sql
	for i, p := range pieces {
		if !strings.HasPrefix(rest, p) {
			prop := propOfKind[kinds[i]]
			add(violation{prop, "expansion-differs-from-the-property", qh,
				fmt.Sprintf("segment %d (%s): expected %q at %q; full SQL %q", i, kinds[i], p, trunc(rest, 80), o.sql)})
			if regs, _ := lexRegions(p); kinds[i] == "B" && len(regs) > 0 {
				// pass-through text holding a literal or a comment did not arrive unchanged
				add(violation{"C02", "literal-or-comment-text-changed", qh,
					fmt.Sprintf("segment %d: expected %q at %q", i, p, trunc(rest, 80))})
			}
			return
		}
		rest = rest[len(p):]
	}
	if rest != "" {
		add(violation{"C01", "expansion-differs-from-the-property", qh, fmt.Sprintf("text after the last segment: %q", rest)})
		return
	}
	got := strings.Join(o.args, " ")
	if got != strings.Join(want, " ") {
		prop := "C03"
		for _, k := range kinds {
			if k == "AI" || k == "CI" || k == "BI" {
				prop = "C04"
			}
		}
		add(violation{prop, "arguments-differ-from-the-property", qh, fmt.Sprintf("expected %v, driver received %v", want, o.args)})
		if prop == "C04" {
			add(violation{"C03", "arguments-differ-from-the-property", qh, fmt.Sprintf("expected %v, driver received %v", want, o.args)})
		}
		return
	}
	// the values print alike: they are also of the Go type the field, key or element holds (a named string handed
	// over as a plain string is another value to a driver: its Value method is gone)
	if len(wantTypes) == len(o.argTypes) {
		for i := range wantTypes {
			if wantTypes[i] != o.argTypes[i] {
				add(violation{"C03", "argument-type-differs-from-the-value-supplied", qh,
					fmt.Sprintf("%s: the value supplied is a %s, the driver received a %s", want[i], wantTypes[i], o.argTypes[i])})
				return
			}
		}
	}
}
