package main

// A recording, scriptable, gateable database/sql driver.  Every driver entry
// point appends an event to the log of the database it belongs to, consults
// the fault script (fail the n-th call) and passes through an optional gate so
// that the harness can hold goroutines inside the driver.

import (
	"context"
	"database/sql"
	"database/sql/driver"
	"errors"
	"fmt"
	"io"
	"regexp"
	"sync"
	"time"
)

type ctxKey struct{}

var markerKey = ctxKey{}

type event struct {
	Seq       int
	Kind      string // open prepare exec query stmtclose rowsnext rowsclose begin commit rollback connclose
	DB        string
	Conn      int
	Stmt      int
	SQL       string
	Args      []driver.NamedValue
	CtxMarker any
	CtxErr    error
	Deadline  bool
	HasCtx    bool
	Err       error // injected error returned by this call
}

type rowsScript struct {
	Cols     []string
	Rows     [][]driver.Value
	FailAt   int   // Next call index (0-based) at which to fail; -1 = never
	FailErr  error // error returned at FailAt
	CloseErr error
	// More: the driver reports a second (empty) result set after this one
	// (driver.RowsNextResultSet), as a stored procedure or a multi-statement
	// query would.
	More bool
}

type fakeDB struct {
	mu       sync.Mutex
	name     string
	events   []event
	nextConn int
	nextStmt int
	calls    int
	// failAt: call number (1-based, counting every driver entry point that
	// can fail) -> error to return.
	failAt map[int]error
	// rowsFor decides the result of a Query.
	rowsFor func(sql string, args []driver.NamedValue) *rowsScript
	// execResult decides the result of an Exec.
	execResult func(sql string, args []driver.NamedValue) (driver.Result, error)
	// gate, when set, is called (without the lock) at every driver entry.
	gate func(ev event)
	// prepareErr makes Prepare of a SQL matching fail
	closedStmts map[int]int // stmt id -> close count
	openRows    int
	rowsOpened  int
	rowsClosed  int
	failKinds   map[string]bool // restrict call counting to these kinds (nil = all)
	honourCtx   bool            // PrepareContext fails with ctx.Err() when the context ended while it was preparing
	closeDelay  time.Duration   // Rows.Close takes this long before the result set counts as closed
}

var fakeDBs = struct {
	mu sync.Mutex
	m  map[string]*fakeDB
}{m: map[string]*fakeDB{}}

type fakeDriver struct{}

func init() { sql.Register("verifake", fakeDriver{}) }

func newFakeDB(name string) *fakeDB {
	f := &fakeDB{name: name, failAt: map[int]error{}, closedStmts: map[int]int{}}
	fakeDBs.mu.Lock()
	fakeDBs.m[name] = f
	fakeDBs.mu.Unlock()
	return f
}

func dropFakeDB(name string) {
	fakeDBs.mu.Lock()
	delete(fakeDBs.m, name)
	fakeDBs.mu.Unlock()
}

func (fakeDriver) Open(name string) (driver.Conn, error) {
	fakeDBs.mu.Lock()
	f := fakeDBs.m[name]
	fakeDBs.mu.Unlock()
	if f == nil {
		return nil, fmt.Errorf("verifake: unknown database %q", name)
	}
	f.mu.Lock()
	f.nextConn++
	id := f.nextConn
	f.mu.Unlock()
	c := &fakeConn{db: f, id: id}
	if err := f.step(event{Kind: "open", Conn: id}, nil); err != nil {
		return nil, err
	}
	return c, nil
}

var failable = map[string]bool{"open": true, "prepare": true, "exec": true, "query": true, "rowsnext": true,
	"rowsclose": true, "begin": true, "commit": true, "rollback": true, "stmtclose": true}

// step records the event and returns the injected error for it, if any.
func (f *fakeDB) step(ev event, ctx context.Context) error {
	if ctx != nil {
		ev.HasCtx = true
		ev.CtxMarker = ctx.Value(markerKey)
		ev.CtxErr = ctx.Err()
		_, ev.Deadline = ctx.Deadline()
	}
	f.mu.Lock()
	ev.DB = f.name
	var err error
	if failable[ev.Kind] && (f.failKinds == nil || f.failKinds[ev.Kind]) {
		f.calls++
		if e, ok := f.failAt[f.calls]; ok {
			err = e
			ev.Err = e
		}
	}
	ev.Seq = len(f.events)
	f.events = append(f.events, ev)
	gate := f.gate
	f.mu.Unlock()
	if gate != nil {
		gate(ev)
	}
	return err
}

func (f *fakeDB) log() []event {
	f.mu.Lock()
	defer f.mu.Unlock()
	out := make([]event, len(f.events))
	copy(out, f.events)
	return out
}

func (f *fakeDB) reset() {
	f.mu.Lock()
	f.events = nil
	f.calls = 0
	f.failAt = map[int]error{}
	f.mu.Unlock()
}

type fakeConn struct {
	db     *fakeDB
	id     int
	closed bool
}

func (c *fakeConn) Prepare(query string) (driver.Stmt, error) {
	return c.PrepareContext(context.Background(), query)
}

func (c *fakeConn) PrepareContext(ctx context.Context, query string) (driver.Stmt, error) {
	c.db.mu.Lock()
	c.db.nextStmt++
	id := c.db.nextStmt
	c.db.mu.Unlock()
	if err := c.db.step(event{Kind: "prepare", Conn: c.id, Stmt: id, SQL: query}, ctx); err != nil {
		return nil, err
	}
	if c.db.honourCtx && ctx.Err() != nil {
		// a driver that notices, while preparing, that the caller's context has ended
		c.db.step(event{Kind: "prepare-aborted", Conn: c.id, Stmt: id, SQL: query}, ctx)
		return nil, ctx.Err()
	}
	return &fakeStmt{conn: c, id: id, sql: query}, nil
}

func (c *fakeConn) Close() error {
	c.closed = true
	c.db.step(event{Kind: "connclose", Conn: c.id}, nil)
	return nil
}

func (c *fakeConn) Begin() (driver.Tx, error) {
	return c.BeginTx(context.Background(), driver.TxOptions{})
}

func (c *fakeConn) BeginTx(ctx context.Context, opts driver.TxOptions) (driver.Tx, error) {
	if err := c.db.step(event{Kind: "begin", Conn: c.id, SQL: fmt.Sprintf("isolation=%d readonly=%v", opts.Isolation, opts.ReadOnly)}, ctx); err != nil {
		return nil, err
	}
	return &fakeTx{conn: c}, nil
}

// IsValid / ResetSession keep database/sql from discarding connections.
func (c *fakeConn) IsValid() bool { return !c.closed }

func (c *fakeConn) CheckNamedValue(nv *driver.NamedValue) error { return nil }

type fakeTx struct{ conn *fakeConn }

func (t *fakeTx) Commit() error { return t.conn.db.step(event{Kind: "commit", Conn: t.conn.id}, nil) }
func (t *fakeTx) Rollback() error {
	return t.conn.db.step(event{Kind: "rollback", Conn: t.conn.id}, nil)
}

type fakeStmt struct {
	conn   *fakeConn
	id     int
	sql    string
	closed bool
}

func (s *fakeStmt) Close() error {
	s.conn.db.mu.Lock()
	s.conn.db.closedStmts[s.id]++
	s.conn.db.mu.Unlock()
	s.closed = true
	return s.conn.db.step(event{Kind: "stmtclose", Conn: s.conn.id, Stmt: s.id, SQL: s.sql}, nil)
}

func (s *fakeStmt) NumInput() int { return -1 }

func (s *fakeStmt) CheckNamedValue(nv *driver.NamedValue) error { return nil }

func (s *fakeStmt) Exec(args []driver.Value) (driver.Result, error) {
	return nil, errors.New("verifake: Exec without context not supported")
}

func (s *fakeStmt) Query(args []driver.Value) (driver.Rows, error) {
	return nil, errors.New("verifake: Query without context not supported")
}

type fakeResult struct{ id, n int64 }

func (r fakeResult) LastInsertId() (int64, error) { return r.id, nil }
func (r fakeResult) RowsAffected() (int64, error) { return r.n, nil }

func (s *fakeStmt) ExecContext(ctx context.Context, args []driver.NamedValue) (driver.Result, error) {
	cp := make([]driver.NamedValue, len(args))
	copy(cp, args)
	ev := event{Kind: "exec", Conn: s.conn.id, Stmt: s.id, SQL: s.sql, Args: cp}
	if s.closed {
		ev.Kind = "exec-on-closed"
	}
	if err := s.conn.db.step(ev, ctx); err != nil {
		return nil, err
	}
	if s.conn.db.execResult != nil {
		return s.conn.db.execResult(s.sql, cp)
	}
	return fakeResult{id: int64(1000 + s.id), n: int64(len(args))}, nil
}

var reAlias = regexp.MustCompile(`AS (_sqlair_[0-9]+)`)

func defaultRows(sql string) *rowsScript {
	var cols []string
	for _, m := range reAlias.FindAllStringSubmatch(sql, -1) {
		cols = append(cols, m[1])
	}
	row := make([]driver.Value, len(cols))
	for i := range row {
		row[i] = int64(100 + i)
	}
	return &rowsScript{Cols: cols, Rows: [][]driver.Value{row}, FailAt: -1}
}

func (s *fakeStmt) QueryContext(ctx context.Context, args []driver.NamedValue) (driver.Rows, error) {
	cp := make([]driver.NamedValue, len(args))
	copy(cp, args)
	ev := event{Kind: "query", Conn: s.conn.id, Stmt: s.id, SQL: s.sql, Args: cp}
	if s.closed {
		ev.Kind = "query-on-closed"
	}
	if err := s.conn.db.step(ev, ctx); err != nil {
		return nil, err
	}
	var rs *rowsScript
	if s.conn.db.rowsFor != nil {
		rs = s.conn.db.rowsFor(s.sql, cp)
	}
	if rs == nil {
		rs = defaultRows(s.sql)
	}
	s.conn.db.mu.Lock()
	s.conn.db.openRows++
	s.conn.db.rowsOpened++
	s.conn.db.mu.Unlock()
	if rs.More {
		return &fakeRowsMulti{fakeRows: &fakeRows{stmt: s, script: rs}}, nil
	}
	return &fakeRows{stmt: s, script: rs}, nil
}

type fakeRows struct {
	stmt   *fakeStmt
	script *rowsScript
	next   int
	closed bool
}

// Columns hands out a copy: what the caller does with the slice must not change the script (nor what the
// harness reports as the columns the driver returned).
func (r *fakeRows) Columns() []string { return append([]string(nil), r.script.Cols...) }

func (r *fakeRows) Close() error {
	db := r.stmt.conn.db
	if db.closeDelay > 0 {
		time.Sleep(db.closeDelay)
	}
	db.mu.Lock()
	if !r.closed {
		db.openRows--
		db.rowsClosed++
	}
	db.mu.Unlock()
	kind := "rowsclose"
	if r.closed {
		kind = "rowsclose-again"
	}
	r.closed = true
	err := db.step(event{Kind: kind, Conn: r.stmt.conn.id, Stmt: r.stmt.id}, nil)
	if err == nil && r.script.CloseErr != nil {
		return r.script.CloseErr
	}
	return err
}

func (r *fakeRows) Next(dest []driver.Value) error {
	db := r.stmt.conn.db
	if err := db.step(event{Kind: "rowsnext", Conn: r.stmt.conn.id, Stmt: r.stmt.id}, nil); err != nil {
		return err
	}
	if r.script.FailAt >= 0 && r.next == r.script.FailAt {
		r.next++
		return r.script.FailErr
	}
	if r.next >= len(r.script.Rows) {
		return io.EOF
	}
	copy(dest, r.script.Rows[r.next])
	r.next++
	return nil
}

// fakeRowsMulti is a fakeRows that also implements driver.RowsNextResultSet.
type fakeRowsMulti struct {
	*fakeRows
	second bool
}

func (r *fakeRowsMulti) HasNextResultSet() bool { return !r.second }

func (r *fakeRowsMulti) NextResultSet() error {
	if r.second {
		return io.EOF
	}
	r.second = true
	r.fakeRows.script = &rowsScript{Cols: r.fakeRows.script.Cols, FailAt: -1, CloseErr: r.fakeRows.script.CloseErr}
	r.fakeRows.next = 0
	return nil
}

// openFake opens a sql.DB on a new fake database.
var fakeCounter struct {
	mu sync.Mutex
	n  int
}

func openFake() (*sql.DB, *fakeDB) {
	fakeCounter.mu.Lock()
	fakeCounter.n++
	name := fmt.Sprintf("fake%d", fakeCounter.n)
	fakeCounter.mu.Unlock()
	f := newFakeDB(name)
	db, err := sql.Open("verifake", name)
	if err != nil {
		panic(err)
	}
	return db, f
}

var errShutdown = errors.New("the application is shutting down")

// cancellable: a context that can be cancelled, made in one of the ways the standard library offers: with
// a plain cancel function, or with a cause (context.Cause then differs from ctx.Err(), which is what
// "the context's error" means).
func cancellable(parent context.Context, variant uint64) (context.Context, context.CancelFunc) {
	if variant%2 == 0 {
		return context.WithCancel(parent)
	}
	ctx, cc := context.WithCancelCause(parent)
	return ctx, func() { cc(errShutdown) }
}
