package main

import "strings"

// Query text generators for the parser layer (C01, C02, C18, C19).

var typeNames = []string{"T", "Person", "M", "S", "_x", "Ñame", "T1", "a", "Address", "π"}
var memberNames = []string{"id", "name", "*", "col_1", "\"quoted col\"", "'q'", "1", "x", "añb", "_"}
var colNames = []string{"id", "name", "t.id", "t.*", "*", "count(*)", "max(a, b)", "\"my col\"", "tbl.\"c\"", "f('x)', 1)", "c1", "t.name", "coalesce(x, 'a,b')"}
var literals = []string{"1", "'lit'", "'it''s'", "\"dq\"", "NULL", "(1+2)", "f(1, 'a)')", "'$T.x'", "/* c */ 2", "1 -- c\n", "'a,b'", "''", "'100% off'", "'%d%s'", "a % b", "'\\'", "'C:\\d\\'", "\"\\\"", "'a\\''b'"}
var blanksGen = []string{" ", "", "  ", "\n", "\t", " /* c */ ", "\r\n", " -- x\n"}
var sepTokens = []string{" ", "\t", "\n", "\r", "=", ",", "[", ">", "<", "+", "-", "/", "|", "%"}
var opTokens = []string{"&", "!", "~", "^", ";", "?", "@", "#", ":", "]", ".", ")", "(", "*", "$", "&&", "||", "<>", "!="}
var quoteTokens = []string{"'", "\"", "''", "\"\"", "'a'", "\"b\"", "'$T.x'", "\"&T.*\"", "'it''s'", "'(*) VALUES ($T.*)'", "'\\'", "\"\\\"", "'x\\'", "\\", "\\'", "'a\x00b'", "\"\x00\"", "'\x00$T.x'", "`", "`a'b`", "`x`", "`$T.x`"}
var commentTokens = []string{"--", "/*", "*/", "-- c\n", "/* $T.x */", "/**/", "/* ' */", "-- '\n", "/* (*) VALUES ($T.*) */", "-", "/", "*", "-- \x00 $T.x\n", "/* \x00 &T.* ' */", "-- \x00'\n", "/*c*/é", "/*c*/日", "/**/ñ", "/** d **/", "/***/", "/*****/", "/* x **/", "/**\n * t\n **/", "/****/"}
var kwTokens = []string{"AS", "as", "As", "VALUES", "values", "Values", "VALUEſ", "aſ", "AS&", "ASX", "SELECT", "FROM", "WHERE", "INSERT INTO t", "IN", "AND"}
var nonASCII = []string{"é", "日本", "\xff", "\xc3", "\xe2\x82", "ſ", "K", " ", " ", "٣", "\xf0\x9f\x98\x80", "\xed\xa0\x80", "\xc0\xaf",
	// characters that editors or other tools treat as line breaks or as invisible: only byte 10 ends a line
	"\ufeff", "\u2028", "\u2029", "\u0085", "\v", "\f", "\r", "\u200b", "\u00a0", "\x00", "\x00", "\x01", "\x7f"}

type parseGen struct {
	r    *rng
	mode string // c01 | c02 | c19 | soup
}

func (g *parseGen) bl() string { return g.r.pick(blanksGen) }

func (g *parseGen) typeName() string { return g.r.pick(typeNames) }

func (g *parseGen) member() string {
	if g.r.chance(1, 5) {
		return "*"
	}
	return g.r.pick(memberNames)
}

func (g *parseGen) acc(sigil string) string {
	r := g.r
	switch r.intn(12) {
	case 0:
		return sigil + g.typeName() // unqualified
	case 1:
		return sigil + g.typeName() + "." // missing member
	case 2:
		return sigil + g.typeName() + "[:]"
	case 3:
		return sigil + g.typeName() + "[" + g.bl() + ":" + g.bl() + "]"
	case 4:
		return sigil + g.typeName() + "[" + g.bl()
	default:
		return sigil + g.typeName() + "." + g.member()
	}
}

func (g *parseGen) list(item func() string) string {
	n := 1 + g.r.intn(3)
	var parts []string
	for i := 0; i < n; i++ {
		parts = append(parts, g.bl()+item()+g.bl())
	}
	s := "(" + strings.Join(parts, ",")
	if !g.r.chance(1, 12) {
		s += ")"
	}
	return s
}

func (g *parseGen) outputExpr() string {
	r := g.r
	as := g.r.pick([]string{"AS", "as", "As", "aS", "AS", "as", "aſ", "Aſ"})
	switch r.intn(8) {
	case 0, 1:
		return g.acc("&")
	case 2:
		return r.pick(colNames) + g.bl() + as + g.bl() + g.acc("&")
	case 3:
		return g.list(func() string { return r.pick(colNames) }) + g.bl() + as + g.bl() + g.list(func() string { return g.acc("&") })
	case 4:
		return g.list(func() string { return r.pick(colNames) }) + g.bl() + as + g.bl() + g.acc("&")
	case 5:
		return r.pick(colNames) + g.bl() + as + g.bl() + g.list(func() string { return g.acc("&") })
	case 6:
		return r.pick(colNames) + g.bl() + g.acc("&") // missing AS
	default:
		return g.list(func() string { return r.pick(colNames) }) + g.bl() + as + g.bl() + g.list(func() string {
			if r.chance(1, 4) {
				return r.pick(colNames)
			}
			return g.acc("&")
		})
	}
}

func (g *parseGen) insertExpr() string {
	r := g.r
	values := r.pick([]string{"VALUES", "values", "Values", "VALUES", "VALUE", "VALUESX", "VALUEſ", "valueſ"})
	switch r.intn(6) {
	case 0, 1:
		return "(" + g.bl() + "*" + g.bl() + ")" + g.bl() + values + g.bl() + g.list(func() string { return g.acc("$") })
	case 2:
		return g.list(func() string { return r.pick(colNames) }) + g.bl() + values + g.bl() + g.list(func() string { return g.acc("$") })
	case 3:
		return g.list(func() string { return r.pick(colNames) }) + g.bl() + values + g.bl() + g.list(func() string {
			if r.chance(1, 2) {
				return r.pick(literals)
			}
			return g.acc("$")
		})
	case 4:
		return "(*)" + g.bl() + values + g.bl() + g.acc("$") // missing parentheses
	default:
		return "(*)" + g.bl() + values + g.bl() + r.pick(literals)
	}
}

func (g *parseGen) expr() string {
	switch g.r.intn(6) {
	case 0, 1:
		return g.acc("$")
	case 2, 3:
		return g.outputExpr()
	default:
		return g.insertExpr()
	}
}

// neighbour returns text to put immediately before or after an expression.
func (g *parseGen) neighbour() string {
	r := g.r
	switch r.intn(10) {
	case 0:
		return r.pick(opTokens)
	case 1:
		return r.pick(sepTokens)
	case 2:
		return r.pick(quoteTokens)
	case 3:
		return r.pick(commentTokens)
	case 4:
		return r.pick(kwTokens)
	case 5:
		return r.pick(nonASCII)
	case 6:
		return r.pick(typeNames)
	case 7:
		return ""
	default:
		return " "
	}
}

func (g *parseGen) sqlText() string {
	r := g.r
	frags := []string{"SELECT ", " FROM t", " WHERE x = ", " AND ", "INSERT INTO t ", "UPDATE t SET a = ", " OR y IN (", ")", ", ", " x>", "flags", "1", " ORDER BY id", "DELETE FROM t", " LIMIT "}
	return r.pick(frags)
}

func (g *parseGen) statement() string {
	r := g.r
	var b strings.Builder
	n := 1 + r.intn(4)
	if r.chance(1, 10) {
		n = 0
	}
	b.WriteString(g.sqlText())
	for i := 0; i < n; i++ {
		b.WriteString(g.neighbour())
		b.WriteString(g.expr())
		b.WriteString(g.neighbour())
		b.WriteString(g.sqlText())
	}
	return b.String()
}

func (g *parseGen) soup(maxTok int) string {
	r := g.r
	var b strings.Builder
	n := 1 + r.intn(maxTok)
	for i := 0; i < n; i++ {
		switch r.intn(14) {
		case 0:
			b.WriteString(r.pick(opTokens))
		case 1:
			b.WriteString(r.pick(sepTokens))
		case 2, 3:
			b.WriteString(r.pick(quoteTokens))
		case 4, 5:
			b.WriteString(r.pick(commentTokens))
		case 6:
			b.WriteString(r.pick(kwTokens))
		case 7:
			b.WriteString(r.pick(nonASCII))
		case 8:
			b.WriteString(r.pick(typeNames))
		case 9:
			b.WriteString(g.acc(r.pick([]string{"$", "&"})))
		case 10:
			b.WriteString(r.pick(colNames))
		case 11:
			b.WriteString(r.pick(literals))
		case 12:
			b.WriteString(r.pick([]string{"(*) VALUES (", "(*)VALUES", "(a, b) VALUES (", ") VALUES ", "(", ")", ",", "(*", "*)"}))
		default:
			b.WriteString(g.expr())
		}
	}
	return b.String()
}

// mutate applies small byte level edits.
func (g *parseGen) mutate(s string) string {
	r := g.r
	b := []byte(s)
	n := 1 + r.intn(3)
	for i := 0; i < n && len(b) > 0; i++ {
		p := r.intn(len(b))
		switch r.intn(5) {
		case 0:
			b = append(b[:p], b[p+1:]...)
		case 1:
			ins := []byte(r.pick([]string{"'", "\"", "(", ")", "&", "$", "*", ",", "\n", "-", "/", ".", " ", "[", ":", "]"}))
			b = append(b[:p], append(ins, b[p:]...)...)
		case 2:
			b[p] = byte(r.intn(256))
		case 3:
			b = b[:p]
		default:
			q := r.intn(len(b))
			b[p], b[q] = b[q], b[p]
		}
	}
	return string(b)
}

func (g *parseGen) next() string {
	r := g.r
	var s string
	switch g.mode {
	case "c02":
		switch r.intn(10) {
		case 0, 1, 2, 3:
			s = g.statement()
		case 4, 5, 6, 7:
			s = g.soup(10)
		default:
			s = g.mutate(g.statement())
		}
	case "c19":
		switch r.intn(10) {
		case 0, 1, 2:
			s = g.statement()
		case 3, 4, 5, 6:
			s = g.mutate(g.statement())
		default:
			s = g.soup(8)
		}
		// sprinkle newlines
		if r.chance(1, 2) {
			b := []byte(s)
			k := r.intn(4)
			for i := 0; i < k && len(b) > 0; i++ {
				p := r.intn(len(b) + 1)
				b = append(b[:p], append([]byte("\n"), b[p:]...)...)
			}
			s = string(b)
		}
	default:
		switch r.intn(10) {
		case 0, 1, 2, 3, 4, 5:
			s = g.statement()
		case 6, 7:
			s = g.soup(12)
		default:
			s = g.mutate(g.statement())
		}
	}
	// deep nesting that is never closed (the scanner's work stays linear in the length)
	if r.chance(1, 150) {
		s = r.pick([]string{"SELECT max(", "x = count(", "INSERT INTO t (a) VALUES ($T.a, f(", "(", "SELECT f(1, ("}) +
			strings.Repeat(r.pick([]string{"(", "((", "( ", "(a,", "f("}), 30+r.intn(40)) + r.pick([]string{"", " FROM t", ")", "'"})
	}
	// a byte order mark or another invisible character in front (a query read from a file)
	if r.chance(1, 20) {
		s = r.pick([]string{"\ufeff", "\ufeff", "\u2028", "\u200b", "\ufeff\n", "\r"}) + s
	}
	// separators that are not line breaks inside the text
	if r.chance(1, 20) && len(s) > 0 {
		p := r.intn(len(s) + 1)
		s = s[:p] + r.pick([]string{"\u2028", "\u2029", "\u0085", "\v", "\f", "\r"}) + s[p:]
	}
	return s
}
