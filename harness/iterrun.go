package main

// Iterator / Get / GetAll protocol cases (C13, C14, C15): scripted driver
// results and faults, sequences of API calls, observed return values and
// driver-level accounting of the result set.

import (
	"bufio"
	"context"
	"database/sql/driver"
	"encoding/json"
	"errors"
	"flag"
	"fmt"
	"os"
	"regexp"
	"strings"
	"time"

	"github.com/canonical/sqlair"
)

type iterRow struct {
	id int
	ok bool
}

type iterScript struct {
	hasout   bool
	qerr     bool
	runKind  string // err ctxerr rows result
	runErr   int
	rows     []iterRow
	failK    int // -1 none
	failE    int
	closeErr int // -1 none
	resultID int
	more     bool
}

func (s iterScript) sexp() string {
	qe := "none"
	if s.qerr {
		qe = "1"
	}
	var run string
	switch s.runKind {
	case "err":
		run = fmt.Sprintf("(err %d)", s.runErr)
	case "ctxerr":
		run = "(ctxerr)"
	case "result":
		run = fmt.Sprintf("(result %d)", s.resultID)
	default:
		var rs []string
		for _, r := range s.rows {
			rs = append(rs, fmt.Sprintf("(%d %d)", r.id, b2i(r.ok)))
		}
		fail := "none"
		if s.failK >= 0 {
			fail = fmt.Sprintf("(%d %d)", s.failK, s.failE)
		}
		ce := "none"
		if s.closeErr >= 0 {
			ce = fmt.Sprint(s.closeErr)
		}
		run = fmt.Sprintf("(rows (%s) %s %s %d)", strings.Join(rs, " "), fail, ce, b2i(s.more))
	}
	return fmt.Sprintf("%d %s %s", b2i(s.hasout), qe, run)
}

var reInjected = regexp.MustCompile(`injected-([0-9]+)`)

func classifyIterErr(err error) string {
	if err == nil {
		return "nil"
	}
	msg := err.Error()
	switch {
	case reInjected.MatchString(msg):
		return "driver" + reInjected.FindStringSubmatch(msg)[1]
	case errors.Is(err, context.Canceled) || errors.Is(err, context.DeadlineExceeded):
		return "ctx"
	case strings.Contains(msg, "context canceled") || strings.Contains(msg, "context deadline exceeded"):
		// mentions the context's error but is not it (errors.Is fails): the caller cannot recognise it.
		// Only held against the implementation when the context was done before the query was run
		// (normCtxLost); after a cancellation in the middle of an iteration C14 asks for an error, not
		// for this one.
		return "ctxlost"
	case errors.Is(err, sqlair.ErrNoRows) || strings.Contains(msg, "no rows in result set"):
		return "norows"
	case strings.HasPrefix(msg, "invalid input parameter"):
		return "query1"
	case strings.Contains(msg, "transaction has already been committed or rolled back"):
		return "txdone"
	case strings.Contains(msg, "Scan error on column"):
		return "convert"
	case strings.Contains(msg, "Rows are closed"):
		return "rowsclosed"
	case strings.Contains(msg, "Scan called without calling Next"):
		return "scanbeforenext"
	case strings.Contains(msg, "cannot call Get before Next"):
		return "getbeforenext"
	case strings.Contains(msg, "iteration ended"):
		return "iterended"
	case strings.Contains(msg, "output variables provided but not referenced in query"):
		return "outputsnotreferenced"
	case strings.Contains(msg, "got nil pointer to Outcome") && !strings.HasPrefix(msg, "cannot get result: got nil pointer"):
		return "niloutcome"
	case strings.HasPrefix(msg, "cannot get result: got nil pointer to Outcome") && strings.Count(msg, "cannot get result") == 1:
		// before Next: the Outcome check of Iterator.Get; after Next: ValidateOutputs. Same wording;
		// the caller disambiguates by state.
		return "niloutcome-or-scanargs"
	case strings.HasPrefix(msg, "need pointer to slice") || strings.HasPrefix(msg, "need slice of structs/maps"):
		return "slicearg"
	case strings.HasPrefix(msg, "cannot get result:"):
		return "scanargs"
	}
	return "other:" + msg
}

type iterEnv struct {
	f      *fakeDB
	db     *sqlair.DB
	ctx    context.Context
	cancel context.CancelFunc
	q      *sqlair.Query
}

var stmtOut = sqlair.MustPrepare("SELECT &Person.* FROM person", Person{})
var stmtIn = sqlair.MustPrepare("UPDATE person SET name = $Person.name", Person{})

// setup prepares a Query according to the script.
func setupIter(s iterScript) *iterEnv {
	sqldb, f := openFake()
	sqldb.SetMaxOpenConns(1)
	e := &iterEnv{f: f, db: sqlair.NewDB(sqldb)}
	e.ctx, e.cancel = cancellable(context.Background(), uint64(s.resultID+len(s.rows)))
	f.rowsFor = func(sql string, _ []driver.NamedValue) *rowsScript {
		rs := &rowsScript{Cols: []string{"_sqlair_0", "_sqlair_1", "_sqlair_2"}, FailAt: -1}
		// a third of the scripts have plain result columns next to the generated ones (their values are of
		// no concern to sqlair, whatever their Go type)
		foreign := (s.resultID+len(s.rows))%3 == 0
		if foreign {
			rs.Cols = []string{"note", "_sqlair_0", "_sqlair_1", "extra", "_sqlair_2"}
		}
		for _, r := range s.rows {
			var id driver.Value = int64(r.id)
			if !r.ok {
				id = "notanint"
			}
			if foreign {
				rs.Rows = append(rs.Rows, []driver.Value{[]string{"a", "b"}, id, "n", map[string]int{"k": 1}, int64(7)})
			} else {
				rs.Rows = append(rs.Rows, []driver.Value{id, "n", int64(7)})
			}
		}
		if s.failK >= 0 {
			rs.FailAt = s.failK
			rs.FailErr = fmt.Errorf("injected-%d", s.failE)
			switch s.failE % 5 {
			case 3:
				// the driver's own error happens to be a cancellation (its connection, not the query's
				// context): an error that ended the iteration early like any other
				rs.FailErr = fmt.Errorf("injected-%d: %w", s.failE, context.Canceled)
			case 4:
				rs.FailErr = fmt.Errorf("injected-%d: %w", s.failE, context.DeadlineExceeded)
			}
		}
		if s.closeErr >= 0 {
			rs.CloseErr = fmt.Errorf("injected-%d", s.closeErr)
		}
		rs.More = s.more
		return rs
	}
	f.execResult = func(sql string, _ []driver.NamedValue) (driver.Result, error) {
		return fakeResult{id: int64(s.resultID), n: 1}, nil
	}
	switch s.runKind {
	case "err":
		f.failKinds = map[string]bool{"exec": true, "query": true}
		f.failAt[1] = fmt.Errorf("injected-%d", s.runErr)
	case "ctxerr":
		e.cancel()
	}
	stmt := stmtIn
	var args []any
	if s.hasout {
		stmt = stmtOut
		if s.qerr {
			args = []any{Person{ID: 1}} // argument not used by the query
		}
	} else {
		args = []any{Person{Name: "x"}}
		if s.qerr {
			args = nil // missing argument
		}
	}
	e.q = e.db.Query(e.ctx, stmt, args...)
	return e
}

func (e *iterEnv) account() string {
	e.f.mu.Lock()
	defer e.f.mu.Unlock()
	closes := 0
	for _, ev := range e.f.events {
		switch ev.Kind {
		case "rowsclose", "rowsclose-again":
			closes++
		}
	}
	if e.f.rowsOpened == 0 {
		return "norows"
	}
	return fmt.Sprintf("closes=%d,closed=%d,inuse=%d", closes, e.f.rowsClosed, e.inUse())
}

// inUse: connections of the pool that are in use, once the number has settled (database/sql returns
// the connection just after the driver's Rows.Close has returned).  Called with e.f.mu held.
func (e *iterEnv) inUse() int {
	closed := e.f.rowsClosed
	e.f.mu.Unlock()
	defer e.f.mu.Lock()
	n := e.db.PlainDB().Stats().InUse
	for i := 0; i < 25000 && closed > 0 && n > 0; i++ { // up to 5 s on a loaded machine
		time.Sleep(200 * time.Microsecond)
		n = e.db.PlainDB().Stats().InUse
	}
	return n
}

// closeAfterCancel: the context ends while rows are outstanding and Close is called straight away,
// while database/sql may still be closing the result set in the background (the driver's close is
// slow).  Whatever Close reports, when it returns the result set has been closed and the connection
// is back in the pool: the accounting is read at once, without settling.  (Rows.Close waits for a
// close in progress, so the unchanged code is deterministic here; only the error value of Close
// depends on who won, and is not compared.)
func closeAfterCancel(r *rng, addViol func(violation)) {
	s := iterScript{hasout: true, runKind: "rows", failK: -1, closeErr: -1}
	nrows := 1 + r.intn(7)
	for i := 0; i < nrows; i++ {
		s.rows = append(s.rows, iterRow{id: 10 + i, ok: true})
	}
	e := setupIter(s)
	defer e.finish()
	if r.chance(1, 3) {
		getAllCancelledByDriver(e, r, nrows, addViol)
		return
	}
	e.f.closeDelay = time.Duration(100+r.intn(400)) * time.Microsecond
	iter := e.q.Iter()
	k := r.intn(nrows + 1)
	for i := 0; i < k; i++ {
		iter.Next()
	}
	e.cancel()
	if w := r.intn(4); w > 0 {
		time.Sleep(time.Duration(w*50) * time.Microsecond)
	}
	// C14: the caller may go on fetching straight after the cancellation.  Either every row is still
	// delivered (the cancellation came too late to matter) or the iteration ends early and Close
	// reports why: an early end is never presented as the normal end of the result set.
	delivered := k
	drained := r.chance(1, 2)
	if drained {
		for iter.Next() {
			delivered++
		}
	}
	cerr := iter.Close()
	if drained && delivered < nrows && cerr == nil {
		addViol(violation{"C14", "iteration-ended-early-by-cancellation-reported-as-normal-end", hx(fmt.Sprintf("rows=%d next=%d cancel drain close", nrows, k)),
			fmt.Sprintf("context cancelled after %d of %d rows; Next then delivered %d rows in all and returned false; Close returned nil", k, nrows, delivered)})
	}
	e.f.mu.Lock()
	opened, closed := e.f.rowsOpened, e.f.rowsClosed
	e.f.mu.Unlock()
	inuse := e.db.PlainDB().Stats().InUse
	if opened != closed || inuse != 0 {
		addViol(violation{"C13", "close-returned-before-the-result-set-was-released", hx(fmt.Sprintf("rows=%d next=%d cancel close", nrows, k)),
			fmt.Sprintf("context cancelled after %d of %d rows, then Close: when Close returned opened=%d closed=%d connections in use=%d", k, nrows, opened, closed, inuse)})
	}
}

// getAllCancelledByDriver: the context ends while the driver is fetching a row in the middle of GetAll.
// GetAll returns all the rows, or an error.
func getAllCancelledByDriver(e *iterEnv, r *rng, nrows int, addViol func(violation)) {
	at := r.intn(nrows)
	n := 0
	e.f.mu.Lock()
	e.f.gate = func(ev event) {
		if ev.Kind == "rowsnext" {
			if n == at {
				e.cancel()
			}
			n++
		}
	}
	e.f.mu.Unlock()
	var ps []Person
	err := e.q.GetAll(&ps)
	e.f.mu.Lock()
	e.f.gate = nil
	e.f.mu.Unlock()
	if err == nil && len(ps) != nrows {
		addViol(violation{"C14", "iteration-ended-early-by-cancellation-reported-as-normal-end", hx(fmt.Sprintf("rows=%d getall, context cancelled while fetching row %d", nrows, at)),
			fmt.Sprintf("GetAll returned nil with %d of %d rows", len(ps), nrows)})
		addViol(violation{"C15", "getall-returned-nil-with-part-of-the-rows", hx(fmt.Sprintf("rows=%d getall, context cancelled while fetching row %d", nrows, at)),
			fmt.Sprintf("GetAll returned nil with %d of %d rows", len(ps), nrows)})
	}
}

func (e *iterEnv) waitRowsClosed() {
	deadline := time.Now().Add(20 * time.Second)
	for time.Now().Before(deadline) {
		e.f.mu.Lock()
		open := e.f.openRows
		e.f.mu.Unlock()
		if open == 0 {
			return
		}
		time.Sleep(200 * time.Microsecond)
	}
}

func (e *iterEnv) finish() {
	e.cancel()
	e.db.PlainDB().Close()
	dropFakeDB(e.f.name)
}

func invalidDests(n int) []any {
	switch n {
	case 2:
		return nil
	case 3:
		return []any{&Person{ID: -1}, &Address{}}
	case 4:
		return []any{Person{}}
	default:
		return []any{nil}
	}
}

func storedOf(p *Person) string {
	if p.ID == -1 {
		return "-"
	}
	return fmt.Sprintf("row%d", p.ID)
}

func outcomeOf(oc *sqlair.Outcome) string {
	if oc == nil || oc.Result() == nil {
		return "-"
	}
	id, _ := oc.Result().LastInsertId()
	return fmt.Sprint(id)
}

// runIterOps executes an op sequence on an Iterator.
func runIterOps(s iterScript, ops []string) (line string) {
	defer func() {
		if r := recover(); r != nil {
			line = "PANIC " + fmt.Sprintf("%q", fmt.Sprint(r))
		}
	}()
	e := setupIter(s)
	defer e.finish()
	iter := e.q.Iter()
	started := false
	var outs []string
	for _, op := range ops {
		switch {
		case op == "next":
			started = true
			if iter.Next() {
				outs = append(outs, "T")
			} else {
				outs = append(outs, "F")
			}
		case op == "close":
			started = true
			outs = append(outs, classifyIterErr(iter.Close())+"/-")
		case op == "cancel":
			e.cancel()
			e.waitRowsClosed()
			outs = append(outs, "_")
		case op == "(get valid)":
			p := Person{ID: -1}
			err := iter.Get(&p)
			st := "-"
			if err == nil {
				st = storedOf(&p)
			}
			outs = append(outs, fixNilOutcome(classifyIterErr(err), started)+"/"+st)
		case op == "(get outcome)":
			oc := sqlair.Outcome{}
			err := iter.Get(&oc)
			st := "-"
			if err == nil {
				st = "outcome" + outcomeOf(&oc)
			}
			outs = append(outs, fixNilOutcome(classifyIterErr(err), started)+"/"+st)
		case op == "(get niloutcome)":
			var oc *sqlair.Outcome
			err := iter.Get(oc)
			outs = append(outs, fixNilOutcome(classifyIterErr(err), started)+"/-")
		case strings.HasPrefix(op, "(get (invalid "):
			var n int
			fmt.Sscanf(op, "(get (invalid %d))", &n)
			err := iter.Get(invalidDests(n)...)
			outs = append(outs, fixNilOutcome(classifyIterErr(err), started)+"/-")
		}
	}
	outs = append(outs, e.account())
	return strings.Join(outs, " ")
}

func fixNilOutcome(class string, started bool) string {
	if class == "niloutcome-or-scanargs" {
		if started {
			return "scanargs"
		}
		return "niloutcome"
	}
	return class
}

func runGet(s iterScript, outcome string, dests string) (line string) {
	defer func() {
		if r := recover(); r != nil {
			line = "PANIC " + fmt.Sprintf("%q", fmt.Sprint(r))
		}
	}()
	e := setupIter(s)
	defer e.finish()
	var args []any
	oc := &sqlair.Outcome{}
	switch outcome {
	case "nonnil":
		args = append(args, oc)
	case "nil":
		args = append(args, (*sqlair.Outcome)(nil))
	}
	p := Person{ID: -1}
	switch {
	case dests == "valid":
		args = append(args, &p)
	case strings.HasPrefix(dests, "(invalid "):
		var n int
		fmt.Sscanf(dests, "(invalid %d)", &n)
		for _, d := range invalidDests(n) {
			if pp, ok := d.(*Person); ok {
				args = append(args, &p)
				_ = pp
			} else {
				args = append(args, d)
			}
		}
	}
	err := e.q.Get(args...)
	row := "-"
	if p.ID != -1 {
		row = fmt.Sprint(p.ID)
	}
	ocs := "-"
	if outcome == "nonnil" {
		ocs = outcomeOf(oc)
	}
	cls := classifyIterErr(err)
	if cls == "niloutcome-or-scanargs" {
		cls = "scanargs"
	}
	return fmt.Sprintf("err=%s row=%s outcome=%s %s", cls, row, ocs, e.accountGet())
}

func (e *iterEnv) accountGet() string { return e.account() }

type getAllArgs struct {
	outcome   string
	badSlice  int // -1 none
	hasSlices bool
	badElem   int // -1 none
	dests     string
}

func runGetAll(s iterScript, g getAllArgs) (line string) {
	defer func() {
		if r := recover(); r != nil {
			line = "PANIC " + fmt.Sprintf("%q", fmt.Sprint(r))
		}
	}()
	e := setupIter(s)
	defer e.finish()
	var args []any
	switch g.outcome {
	case "nonnil":
		args = append(args, &sqlair.Outcome{})
	case "nil":
		args = append(args, (*sqlair.Outcome)(nil))
	}
	people := []Person{{ID: 900}}
	ptrs := []*Person{{ID: 901}}
	usePtrs := s.resultID%2 == 1
	if g.hasSlices {
		switch {
		case g.badSlice == 1:
			args = append(args, []Person{})
		case g.badSlice == 2:
			args = append(args, (*[]Person)(nil))
		case g.badSlice == 3:
			args = append(args, &Person{})
		case g.badElem == 1:
			args = append(args, &[]int{})
		case g.badElem == 2:
			args = append(args, &[]*int{})
		case g.dests == "valid":
			if usePtrs {
				args = append(args, &ptrs)
			} else {
				args = append(args, &people)
			}
		default: // invalid destinations for ScanArgs: a slice of a type the query does not use
			switch s.resultID % 4 {
			case 0:
				args = append(args, &[]map[string]any{}) // unnamed map
			case 1:
				args = append(args, &[]map[int]any{}) // key type is not string
			case 2:
				args = append(args, &people, &[]BadMap{})
			default:
				args = append(args, &people, &[]Address{})
			}
		}
	}
	err := e.q.GetAll(args...)
	app := "untouched"
	if err == nil {
		var ids []string
		if usePtrs && g.hasSlices && g.dests == "valid" && g.badSlice < 0 && g.badElem < 0 {
			for _, p := range ptrs[1:] {
				ids = append(ids, fmt.Sprint(p.ID))
			}
			if ptrs[0].ID != 901 {
				ids = append(ids, "PRIOR-CONTENT-CHANGED")
			}
		} else {
			for _, p := range people[1:] {
				ids = append(ids, fmt.Sprint(p.ID))
			}
		}
		app = "(" + strings.Join(ids, " ") + ")"
	} else if len(people) != 1 || people[0].ID != 900 || len(ptrs) != 1 {
		app = "MODIFIED-ON-ERROR"
	}
	cls := classifyIterErr(err)
	if cls == "niloutcome-or-scanargs" {
		cls = "scanargs"
	}
	return fmt.Sprintf("err=%s appended=%s %s", cls, app, e.accountGet())
}

// ------------------------------------------------------------ generation --

func genScript(r *rng) iterScript {
	s := iterScript{failK: -1, closeErr: -1, resultID: 40 + r.intn(9)}
	s.hasout = r.chance(3, 4)
	s.qerr = r.chance(1, 15)
	switch k := r.intn(12); {
	case k == 0:
		s.runKind = "err"
		s.runErr = 1 + r.intn(5)
	case k == 1:
		s.runKind = "ctxerr"
	default:
		if s.hasout {
			s.runKind = "rows"
			n := r.intn(5)
			for i := 0; i < n; i++ {
				s.rows = append(s.rows, iterRow{id: 10 + i*3 + r.intn(3), ok: !r.chance(1, 8)})
			}
			if r.chance(1, 3) {
				s.failK = r.intn(n + 1)
				s.failE = 10 + r.intn(5)
			}
			if r.chance(1, 6) {
				s.closeErr = 20 + r.intn(5)
			}
			s.more = r.chance(1, 8)
		} else {
			s.runKind = "result"
		}
	}
	return s
}

var iterOps = []string{"next", "next", "next", "(get valid)", "(get valid)", "(get outcome)", "(get niloutcome)", "(get (invalid 2))", "(get (invalid 3))", "(get (invalid 4))", "(get (invalid 5))", "close", "close", "cancel"}

type iterStats struct {
	Cases      int            `json:"cases"`
	Kinds      map[string]int `json:"request_kinds"`
	RunKinds   map[string]int `json:"run_kinds"`
	ErrClasses map[string]int `json:"error_classes"`
	Distinct   int            `json:"distinct_cases"`
	NonTrivial int            `json:"distinct_nontrivial"`
	Samples    []string       `json:"samples"`
	Other      int            `json:"unknown_error_wordings"`
}

func cmdIter(args []string) int {
	fs := flag.NewFlagSet("iter", flag.ExitOnError)
	seed := fs.Uint64("seed", 1, "seed")
	n := fs.Int("n", 1000, "number of generated cases")
	outDir := fs.String("out", ".", "output directory")
	exh := fs.Int("exhaustive", 0, "enumerate all op sequences up to this length over the core ops")
	fs.Parse(args)
	violFile, _ := os.Create(*outDir + "/oracle.jsonl")
	defer violFile.Close()
	nviol := 0
	addViol := func(v violation) {
		nviol++
		b, _ := json.Marshal(v)
		violFile.Write(append(b, '\n'))
	}
	go watchdog(addViol)
	r := newRng(*seed)
	cases, _ := os.Create(*outDir + "/cases.txt")
	impl, _ := os.Create(*outDir + "/impl.txt")
	cw := bufio.NewWriter(cases)
	iw := bufio.NewWriter(impl)
	st := iterStats{Kinds: map[string]int{}, RunKinds: map[string]int{}, ErrClasses: map[string]int{}}
	seen := map[string]bool{}
	emit := func(req, out string, nontrivial bool) {
		fmt.Fprintln(cw, req)
		fmt.Fprintln(iw, out)
		st.Cases++
		if !seen[req] {
			seen[req] = true
			st.Distinct++
			if nontrivial {
				st.NonTrivial++
			}
		}
		for _, f := range strings.Fields(out) {
			f = strings.TrimPrefix(f, "err=")
			if i := strings.Index(f, "/"); i >= 0 {
				f = f[:i]
			}
			if strings.HasPrefix(f, "other:") {
				st.Other++
			}
			if regexp.MustCompile(`^(driver[0-9]+|ctx|norows|query1|convert|rowsclosed|scanargs|getbeforenext|iterended|outputsnotreferenced|niloutcome|slicearg)$`).MatchString(f) {
				st.ErrClasses[regexp.MustCompile(`[0-9]+$`).ReplaceAllString(f, "")]++
			}
		}
		if st.Cases <= 3 || (st.Cases%(*n/4+1) == 0 && len(st.Samples) < 8) {
			st.Samples = append(st.Samples, req+" -> "+out)
		}
		iterOracles(req, out, addViol)
	}
	if *exh > 0 {
		core := []string{"next", "(get valid)", "(get outcome)", "(get (invalid 2))", "close"}
		scripts := []iterScript{}
		for rows := 0; rows <= 2; rows++ {
			for fail := -1; fail <= rows; fail++ {
				s := iterScript{hasout: true, runKind: "rows", failK: fail, failE: 11, closeErr: -1}
				for i := 0; i < rows; i++ {
					s.rows = append(s.rows, iterRow{id: 10 + i, ok: true})
				}
				scripts = append(scripts, s)
			}
		}
		scripts = append(scripts, iterScript{hasout: false, runKind: "result", resultID: 44, failK: -1, closeErr: -1})
		var rec func(prefix []string)
		rec = func(prefix []string) {
			if len(prefix) > 0 {
				for _, s := range scripts {
					req := fmt.Sprintf("(iter %s (%s))", s.sexp(), strings.Join(prefix, " "))
					emit(req, normCtxLost(s, runIterOps(s, prefix)), true)
				}
			}
			if len(prefix) == *exh {
				return
			}
			for _, o := range core {
				rec(append(append([]string{}, prefix...), o))
			}
		}
		rec(nil)
	}
	for i := 0; i < *n/4+20; i++ {
		currentCase.Store("close after cancel")
		caseStart.Store(time.Now().UnixNano())
		closeAfterCancel(r, addViol)
		st.Kinds["close-after-cancel"]++
	}
	for i := 0; i < *n; i++ {
		s := genScript(r)
		st.RunKinds[s.runKind]++
		currentCase.Store(s.sexp())
		caseStart.Store(time.Now().UnixNano())
		switch r.intn(10) {
		case 0, 1, 2, 3, 4:
			k := 1 + r.intn(9)
			var ops []string
			for j := 0; j < k; j++ {
				op := iterOps[r.intn(len(iterOps))]
				if op == "cancel" && s.more {
					// cancelling at the end of a result set that is followed by another one is
					// nondeterministic in database/sql itself (awaitDone selects between the
					// context and a context derived from it): not generated
					op = "next"
				}
				ops = append(ops, op)
			}
			if r.chance(2, 3) {
				ops = append(ops, "close")
			}
			st.Kinds["iter"]++
			emit(fmt.Sprintf("(iter %s (%s))", s.sexp(), strings.Join(ops, " ")), normCtxLost(s, runIterOps(s, ops)), len(ops) > 1)
		case 5, 6, 7:
			oc := r.pick([]string{"none", "none", "none", "nonnil", "nil"})
			d := r.pick([]string{"valid", "valid", "valid", "none", "(invalid 3)", "(invalid 4)", "(invalid 5)"})
			if !s.hasout && r.chance(2, 3) {
				d = "none"
			}
			st.Kinds["get"]++
			emit(fmt.Sprintf("(get %s %s %s)", s.sexp(), oc, d), normCtxLost(s, runGet(s, oc, d)), true)
		default:
			g := getAllArgs{outcome: r.pick([]string{"none", "none", "none", "nonnil", "nil"}), badSlice: -1, badElem: -1, hasSlices: true, dests: "valid"}
			switch r.intn(12) {
			case 0:
				g.badSlice = 1 + r.intn(3)
			case 1:
				g.badElem = 1 + r.intn(2)
			case 2:
				g.dests = "(invalid 3)"
			case 3:
				g.hasSlices = false
				g.dests = "(invalid 2)"
			}
			if !s.hasout && r.chance(3, 4) {
				g.hasSlices = false
				g.dests = "(invalid 2)"
				g.badSlice, g.badElem = -1, -1
			}
			on := func(x int) string {
				if x < 0 {
					return "none"
				}
				return fmt.Sprint(x)
			}
			st.Kinds["getall"]++
			emit(fmt.Sprintf("(getall %s %s %s %d %s %s)", s.sexp(), g.outcome, on(g.badSlice), b2i(g.hasSlices), on(g.badElem), g.dests), normCtxLost(s, runGetAll(s, g)), true)
		}
		caseStart.Store(0)
	}
	cw.Flush()
	iw.Flush()
	cases.Close()
	impl.Close()
	sb, _ := json.MarshalIndent(st, "", " ")
	os.WriteFile(*outDir+"/stats.json", sb, 0o644)
	fmt.Printf("iter: %d cases %v, %d oracle violations\n", st.Cases, st.Kinds, nviol)
	return 0
}

// iterOracles evaluates the properties directly on the observed outputs.
// normCtxLost keeps the "ctxlost" class only for scripts whose context is done before the query is run.
func normCtxLost(s iterScript, line string) string {
	if s.runKind == "ctxerr" {
		return line
	}
	return strings.ReplaceAll(line, "ctxlost", "ctx")
}

func iterOracles(req, out string, add func(violation)) {
	v := func(prop, name, detail string) { add(violation{prop, name, hx(req), detail}) }
	if strings.HasPrefix(out, "PANIC") {
		v("C18", "iter-panic", out)
		v("C14", "iter-panic", out)
		return
	}
	f := strings.Fields(out)
	acct := f[len(f)-1]
	// C20 / C14: an operation that fails because of the context must fail with the context's error
	// (errors.Is), not with a new error that merely quotes its text
	if strings.Contains(out, "ctxlost") {
		v("C20", "context-error-not-returned", out)
	}
	// C13: after Get / GetAll return, or after a Close in an op sequence, an opened result set is closed exactly once
	endsWithClose := strings.HasPrefix(req, "(iter ") && strings.HasSuffix(req, "close))")
	if strings.HasPrefix(req, "(get ") || strings.HasPrefix(req, "(getall ") || endsWithClose {
		if strings.HasPrefix(acct, "closes=") && acct != "closes=1,closed=1,inuse=0" {
			v("C13", "rows-not-closed-exactly-once", acct)
		}
	}
	if strings.Contains(out, "MODIFIED-ON-ERROR") || strings.Contains(out, "PRIOR-CONTENT-CHANGED") {
		v("C15", "getall-not-all-or-nothing", out)
	}
	if strings.HasPrefix(req, "(iter ") {
		// C14: all Close results equal; Next false is sticky after a false
		var closes []string
		sawFalse := false
		ops := opsOf(req)
		for i, o := range ops {
			if i >= len(f)-1 {
				break
			}
			switch o {
			case "close":
				closes = append(closes, f[i])
				sawFalse = true
			case "next":
				if f[i] == "T" && sawFalse {
					v("C14", "next-true-after-end", out)
				}
				if f[i] == "F" {
					sawFalse = true
				}
			}
		}
		for _, c := range closes {
			if c != closes[0] {
				v("C14", "close-results-differ", out)
				break
			}
		}
		// a scripted fetch failure that was reached must be reported by Close
		if m := regexp.MustCompile(`\(rows \(([^)]*(?:\)[^)]*)*)\) \((\d+) (\d+)\) \w+ \d\)`).FindStringSubmatch(req); m != nil && len(closes) > 0 {
			var k, e int
			fmt.Sscan(m[2], &k)
			fmt.Sscan(m[3], &e)
			nexts := 0
			reached := false
			for i, o := range ops {
				if o == "close" || o == "cancel" {
					break
				}
				if o == "next" && i < len(f)-1 {
					nexts++
					if nexts <= k && f[i] != "T" {
						break
					}
					if nexts == k+1 && f[i] == "F" {
						reached = true
					}
				}
			}
			if reached && acct != "norows" && closes[0] != fmt.Sprintf("driver%d/-", e) {
				v("C14", "fetch-error-swallowed", out)
			}
		}
	}
}

func opsOf(req string) []string {
	i := strings.LastIndex(req, " (")
	body := strings.TrimSuffix(req[i+2:], "))")
	var ops []string
	depth := 0
	cur := ""
	for _, c := range body {
		switch {
		case c == '(':
			depth++
			cur += string(c)
		case c == ')':
			depth--
			cur += string(c)
		case c == ' ' && depth == 0:
			if cur != "" {
				ops = append(ops, cur)
			}
			cur = ""
		default:
			cur += string(c)
		}
	}
	if cur != "" {
		ops = append(ops, cur)
	}
	return ops
}

func init() { commands["iter"] = cmdIter }
