package main

// C17: insert-select round trips against a real SQL engine (SQLite, in memory).
// For a zoo struct type T a table is created with one untyped column per db
// tag; rows are written with SQLair insert expressions (single, bulk,
// omitempty, explicit columns, literals, maps), changed with UPDATE / DELETE
// using inputs and slices, and read back with SQLair output expressions.  The
// same work is done with hand-written SQL through plain database/sql on a
// second database; oracles: every generated statement is accepted by the
// engine; what is read back equals what was written; both databases end in
// the same state and both reads return the same rows.

import (
	"bufio"
	"bytes"
	"context"
	"database/sql"
	"encoding/json"
	"flag"
	"fmt"
	"os"
	"reflect"
	"strings"

	"github.com/canonical/sqlair"
	_ "github.com/mattn/go-sqlite3"
)

// types usable against SQLite (column names are valid identifiers or quoted)
var sqliteStructs = []string{"Person", "Address", "Manager", "Embed", "EmbedPtr", "Deep", "Deep4", "Contact", "AutoID", "Omit", "PtrFields", "Unicode", "Priced", "Mixed", "Doc", "BlobOpt", "Tracked", "Wide"}

func quoteCol(c string) string {
	if strings.HasPrefix(c, "\"") || strings.HasPrefix(c, "'") {
		return c
	}
	return c
}

type rtEnv struct {
	db1  *sql.DB // used through sqlair
	db2  *sql.DB // used through database/sql with hand-written SQL
	sdb  *sqlair.DB
	name string
	t    reflect.Type
	tags []string
}

var sqliteCounter int

func newRtEnv(name string) (*rtEnv, error) {
	sqliteCounter++
	t := reflect.TypeOf(zooByName(name))
	e := &rtEnv{name: name, t: t, tags: zooTags(t)}
	var err error
	e.db1, err = sql.Open("sqlite3", fmt.Sprintf("file:rt%da?mode=memory&cache=shared", sqliteCounter))
	if err != nil {
		return nil, err
	}
	e.db2, err = sql.Open("sqlite3", fmt.Sprintf("file:rt%db?mode=memory&cache=shared", sqliteCounter))
	if err != nil {
		return nil, err
	}
	e.db1.SetMaxOpenConns(1)
	e.db2.SetMaxOpenConns(1)
	create := "CREATE TABLE t (" + strings.Join(e.tags, ", ") + ")"
	if _, err := e.db1.Exec(create); err != nil {
		return nil, fmt.Errorf("create: %v", err)
	}
	if _, err := e.db2.Exec(create); err != nil {
		return nil, err
	}
	e.sdb = sqlair.NewDB(e.db1)
	return e, nil
}

func (e *rtEnv) close() {
	e.db1.Close()
	e.db2.Close()
}

// fieldByTag returns the (settable when v is addressable) field carrying the tag.
func fieldByTag(v reflect.Value, tag string) (reflect.Value, bool) {
	t := v.Type()
	for i := 0; i < t.NumField(); i++ {
		f := t.Field(i)
		tg := f.Tag.Get("db")
		if f.Anonymous && tg == "" {
			fv := v.Field(i)
			if fv.Kind() == reflect.Pointer {
				if fv.IsNil() {
					continue
				}
				fv = fv.Elem()
			}
			if fv.Kind() == reflect.Struct && f.IsExported() {
				if r, ok := fieldByTag(fv, tag); ok {
					return r, true
				}
			}
			continue
		}
		if tg == "" {
			continue
		}
		if strings.Split(tg, ",")[0] == tag {
			return v.Field(i), true
		}
	}
	return reflect.Value{}, false
}

func tagOmit(t reflect.Type, tag string) bool {
	for i := 0; i < t.NumField(); i++ {
		f := t.Field(i)
		tg := f.Tag.Get("db")
		if f.Anonymous && tg == "" {
			ft := f.Type
			if ft.Kind() == reflect.Pointer {
				ft = ft.Elem()
			}
			if ft.Kind() == reflect.Struct && tagOmit(ft, tag) {
				return true
			}
			continue
		}
		parts := strings.Split(tg, ",")
		if parts[0] == tag && len(parts) > 1 {
			return true
		}
	}
	return false
}

// allocEmbedded allocates every nil embedded struct pointer (recursively).
func allocEmbedded(v reflect.Value) {
	t := v.Type()
	for i := 0; i < t.NumField(); i++ {
		f := t.Field(i)
		if f.Anonymous && f.Tag.Get("db") == "" && f.IsExported() {
			fv := v.Field(i)
			if fv.Kind() == reflect.Pointer && fv.Type().Elem().Kind() == reflect.Struct {
				if fv.IsNil() {
					fv.Set(reflect.New(fv.Type().Elem()))
				}
				allocEmbedded(fv.Elem())
			} else if fv.Kind() == reflect.Struct {
				allocEmbedded(fv)
			}
		}
	}
}

// canon prints a struct value field by tag, in tag order, for comparison.
func (e *rtEnv) canon(v reflect.Value) string {
	var parts []string
	for _, tg := range e.tags {
		f, ok := fieldByTag(v, tg)
		if !ok {
			parts = append(parts, tg+"=?")
			continue
		}
		parts = append(parts, tg+"="+canonVal(f))
	}
	return strings.Join(parts, " ")
}

func canonVal(f reflect.Value) string {
	if f.Kind() == reflect.Pointer {
		if f.IsNil() {
			return "nil"
		}
		return "&" + canonVal(f.Elem())
	}
	if f.Kind() == reflect.Slice && f.Type().Elem().Kind() == reflect.Uint8 {
		if f.Len() == 0 {
			return "bytes()"
		}
		return fmt.Sprintf("bytes(%x)", f.Bytes())
	}
	if f.Kind() == reflect.Interface {
		if f.IsNil() {
			return "nil"
		}
		return canonVal(f.Elem())
	}
	if f.CanInterface() {
		if n, ok := f.Interface().(sql.NullInt64); ok && !n.Valid {
			return "null" // what it stands for, whatever Int64 holds
		}
		if c, ok := f.Interface().(Counted); ok {
			return fmt.Sprint(c.V) // the value it stands for; N only counts Scan calls
		}
		return fmt.Sprintf("%v", f.Interface())
	}
	return fmt.Sprintf("%v", f)
}

// dumpTable prints the table of a database in rowid order with typeof().
func dumpTable(db *sql.DB, tags []string) (string, error) {
	var sel []string
	for _, tg := range tags {
		sel = append(sel, "typeof("+tg+")", "quote("+tg+")")
	}
	rows, err := db.Query("SELECT " + strings.Join(sel, ", ") + " FROM t ORDER BY rowid")
	if err != nil {
		return "", err
	}
	defer rows.Close()
	var b strings.Builder
	for rows.Next() {
		vals := make([]any, len(sel))
		ptrs := make([]any, len(sel))
		for i := range vals {
			ptrs[i] = &vals[i]
		}
		if err := rows.Scan(ptrs...); err != nil {
			return "", err
		}
		for i, v := range vals {
			if i > 0 {
				b.WriteString("|")
			}
			switch x := v.(type) {
			case []byte:
				b.Write(x)
			default:
				fmt.Fprint(&b, x)
			}
		}
		b.WriteString("\n")
	}
	return b.String(), rows.Err()
}

// plain value for the hand-written SQL: what database/sql is given for a field
func plainArg(f reflect.Value) any {
	return f.Interface()
}

type rtScenario struct {
	zero   bool // every value left zero
	typ    string
	form   int
	rows   int
	update bool
	del    bool
	read   int
}

type rtResult struct {
	desc  string
	fails []string // oracle name: detail
	stmts []string
}

func (r *rtResult) fail(name, detail string) { r.fails = append(r.fails, name+": "+detail) }

func runRoundTrip(rg *rng, sc rtScenario) (res rtResult) {
	res.desc = fmt.Sprintf("%s form=%d rows=%d update=%v delete=%v read=%d", sc.typ, sc.form, sc.rows, sc.update, sc.del, sc.read)
	defer func() {
		if r := recover(); r != nil {
			res.fail("panic", fmt.Sprint(r))
		}
	}()
	e, err := newRtEnv(sc.typ)
	if err != nil {
		res.fail("setup", err.Error())
		return
	}
	defer e.close()
	ctx := context.Background()
	f := &filler{r: rg.fork(), zeroP: 3, nilP: 3}
	sample := zooByName(sc.typ)
	// the values to insert
	var vals []reflect.Value // pointers to T
	for i := 0; i < sc.rows; i++ {
		p := reflect.New(e.t)
		allocEmbedded(p.Elem())
		if !sc.zero {
			f.fill(p.Elem(), 0)
		}
		allocEmbedded(p.Elem())
		vals = append(vals, p)
	}
	prep := func(q string, samples ...any) *sqlair.Statement {
		st, err := sqlair.Prepare(q, samples...)
		res.stmts = append(res.stmts, q)
		if err != nil {
			res.fail("prepare-rejected", q+": "+err.Error())
			return nil
		}
		return st
	}
	// ---- insert through sqlair ------------------------------------------
	// columns a hand-written statement would name for row v: all tags, minus
	// omitempty ones that are zero (single) / zero in every row (bulk)
	omitted := map[string]bool{}
	for _, tg := range e.tags {
		if !tagOmit(e.t, tg) {
			continue
		}
		allZero, anyZero := true, false
		for _, v := range vals {
			fv, _ := fieldByTag(v.Elem(), tg)
			if fv.IsZero() {
				anyZero = true
			} else {
				allZero = false
			}
		}
		if allZero {
			omitted[tg] = true
		} else if anyZero {
			// mixed zero / non-zero under omitempty is rejected by design: make them all non-zero
			for _, v := range vals {
				fv, _ := fieldByTag(v.Elem(), tg)
				if fv.IsZero() {
					ff := &filler{r: rg.fork(), zeroP: 0, nilP: 0}
					ff.counter = 5000 + uint64(rg.intn(1000))
					ff.fill(fv, 0)
				}
			}
		}
	}
	var insertErr error
	switch sc.form {
	case 0: // (*) VALUES ($T.*), one statement per row, value or pointer
		st := prep("INSERT INTO t (*) VALUES ($"+sc.typ+".*)", sample)
		if st == nil {
			return
		}
		// per-row omission differs from the bulk rule: recompute per row below
		for i, v := range vals {
			var arg any = v.Interface()
			if i%2 == 1 {
				arg = v.Elem().Interface()
			}
			if err := e.sdb.Query(ctx, st, arg).Run(); err != nil {
				insertErr = err
				break
			}
		}
	case 1: // bulk: (*) VALUES ($T.*) with []T or []*T
		st := prep("INSERT INTO t (*) VALUES ($"+sc.typ+".*)", sample)
		if st == nil {
			return
		}
		var arg any
		if rg.chance(1, 2) {
			s := reflect.MakeSlice(reflect.SliceOf(e.t), 0, len(vals))
			for _, v := range vals {
				s = reflect.Append(s, v.Elem())
			}
			arg = s.Interface()
		} else {
			s := reflect.MakeSlice(reflect.SliceOf(reflect.PointerTo(e.t)), 0, len(vals))
			for _, v := range vals {
				s = reflect.Append(s, v)
			}
			arg = s.Interface()
		}
		insertErr = e.sdb.Query(ctx, st, arg).Run()
	case 2: // explicit columns with asterisk source: (c1, c2, ...) VALUES ($T.*), columns shuffled
		cols := append([]string{}, e.tags...)
		for i := len(cols) - 1; i > 0; i-- {
			j := rg.intn(i + 1)
			cols[i], cols[j] = cols[j], cols[i]
		}
		// explicitly listed omitempty columns must not be zero: drop the omitted ones
		var use []string
		for _, c := range cols {
			if !omitted[c] {
				use = append(use, c)
			}
		}
		if len(use) == 0 {
			res.desc += " [nothing to insert]"
			return
		}
		st := prep("INSERT INTO t ("+strings.Join(use, ", ")+") VALUES ($"+sc.typ+".*)", sample)
		if st == nil {
			return
		}
		s := reflect.MakeSlice(reflect.SliceOf(e.t), 0, len(vals))
		for _, v := range vals {
			s = reflect.Append(s, v.Elem())
		}
		insertErr = e.sdb.Query(ctx, st, s.Interface()).Run()
	default: // basic: (c1, c2) VALUES ($T.c1, $T.c2), member by member
		var use, srcs []string
		for _, c := range e.tags {
			if !omitted[c] {
				use = append(use, c)
				srcs = append(srcs, "$"+sc.typ+"."+c)
			}
		}
		if len(use) == 0 {
			res.desc += " [nothing to insert]"
			return
		}
		st := prep("INSERT INTO t ("+strings.Join(use, ", ")+") VALUES ("+strings.Join(srcs, ", ")+")", sample)
		if st == nil {
			return
		}
		for _, v := range vals {
			if err := e.sdb.Query(ctx, st, v.Interface()).Run(); err != nil {
				insertErr = err
				break
			}
		}
	}
	if insertErr != nil {
		msg := insertErr.Error()
		if strings.Contains(msg, "omitempty") || strings.Contains(msg, "mix of zero") {
			// a value-dependent rejection (C04), nothing reached the engine
			res.desc += " [rejected by sqlair: " + msg + "]"
			return
		}
		// every column omitted (all members omitempty and zero): the expansion is "() VALUES ()"
		allOmitted := false
		for _, v := range vals {
			n := 0
			for _, tg := range e.tags {
				fv, _ := fieldByTag(v.Elem(), tg)
				if !(tagOmit(e.t, tg) && fv.IsZero()) {
					n++
				}
			}
			if n == 0 {
				allOmitted = true
			}
		}
		if allOmitted && strings.Contains(msg, "syntax error") {
			res.fail("engine-rejected-empty-column-list", strings.Join(res.stmts[len(res.stmts)-1:], "")+" with every member omitempty and zero: "+msg)
			return
		}
		res.fail("engine-rejected-insert", strings.Join(res.stmts[len(res.stmts)-1:], "")+": "+msg)
		return
	}
	// ---- the same with hand-written SQL ---------------------------------
	for _, v := range vals {
		var cols, qs []string
		var args []any
		for _, tg := range e.tags {
			fv, _ := fieldByTag(v.Elem(), tg)
			om := omitted[tg]
			if sc.form == 0 {
				om = tagOmit(e.t, tg) && fv.IsZero() // single rows: omitted per row
			}
			if om {
				continue
			}
			cols = append(cols, tg)
			qs = append(qs, "?")
			args = append(args, plainArg(fv))
		}
		if _, err := e.db2.Exec("INSERT INTO t ("+strings.Join(cols, ", ")+") VALUES ("+strings.Join(qs, ", ")+")", args...); err != nil {
			res.fail("setup-handwritten-insert", err.Error())
			return
		}
	}
	// ---- update / delete with inputs ------------------------------------
	keyTag := e.tags[0]
	if sc.update && len(vals) > 0 && len(e.tags) > 1 {
		setTag := e.tags[len(e.tags)-1]
		src := vals[rg.intn(len(vals))]
		kf, _ := fieldByTag(src.Elem(), keyTag)
		sf, _ := fieldByTag(src.Elem(), setTag)
		if !(tagOmit(e.t, keyTag) && kf.IsZero()) && !(tagOmit(e.t, setTag) && sf.IsZero()) {
			st := prep("UPDATE t SET "+setTag+" = $"+sc.typ+"."+setTag+" WHERE "+keyTag+" = $"+sc.typ+"."+keyTag, sample)
			if st == nil {
				return
			}
			if err := e.sdb.Query(ctx, st, src.Interface()).Run(); err != nil {
				res.fail("engine-rejected-update", err.Error())
				return
			}
			if _, err := e.db2.Exec("UPDATE t SET "+setTag+" = ? WHERE "+keyTag+" = ?", plainArg(sf), plainArg(kf)); err != nil {
				res.fail("setup-handwritten-update", err.Error())
				return
			}
		}
	}
	if sc.del && len(vals) > 1 {
		// DELETE ... WHERE key IN ($S[:]) with the keys of some rows
		var keys sqlair.S
		for i, v := range vals {
			if i%2 == 0 {
				kf, _ := fieldByTag(v.Elem(), keyTag)
				if kf.Kind() != reflect.Pointer && kf.CanInterface() {
					keys = append(keys, kf.Interface())
				}
			}
		}
		st := prep("DELETE FROM t WHERE "+keyTag+" IN ($S[:])", sqlair.S{})
		if st == nil {
			return
		}
		if err := e.sdb.Query(ctx, st, keys).Run(); err != nil {
			res.fail("engine-rejected-delete", err.Error())
			return
		}
		if len(keys) > 0 {
			qs := strings.TrimSuffix(strings.Repeat("?, ", len(keys)), ", ")
			if _, err := e.db2.Exec("DELETE FROM t WHERE "+keyTag+" IN ("+qs+")", []any(keys)...); err != nil {
				res.fail("setup-handwritten-delete", err.Error())
				return
			}
		} else {
			if _, err := e.db2.Exec("DELETE FROM t WHERE " + keyTag + " IN ()"); err != nil {
				res.fail("setup-handwritten-delete", err.Error())
				return
			}
		}
	}
	// ---- same state -----------------------------------------------------
	d1, err1 := dumpTable(e.db1, e.tags)
	d2, err2 := dumpTable(e.db2, e.tags)
	if err1 != nil || err2 != nil {
		res.fail("setup-dump", fmt.Sprint(err1, err2))
		return
	}
	if d1 != d2 {
		res.fail("database-state-differs-from-handwritten", "sqlair:\n"+d1+"hand-written:\n"+d2)
	}
	// ---- read back through sqlair ---------------------------------------
	slicePtr := reflect.New(reflect.SliceOf(e.t))
	var q string
	switch sc.read {
	case 0:
		q = "SELECT &" + sc.typ + ".* FROM t ORDER BY rowid"
	case 1:
		q = "SELECT * AS &" + sc.typ + ".* FROM t ORDER BY rowid"
	case 2:
		q = "SELECT (" + strings.Join(e.tags, ", ") + ") AS (&" + sc.typ + ".*) FROM t ORDER BY rowid"
	default:
		var tys []string
		for _, tg := range e.tags {
			tys = append(tys, "&"+sc.typ+"."+tg)
		}
		q = "SELECT (" + strings.Join(e.tags, ", ") + ") AS (" + strings.Join(tys, ", ") + ") FROM t ORDER BY rowid"
	}
	st := prep(q, sample)
	if st == nil {
		return
	}
	var got []string
	needAlloc := false
	for i := 0; i < e.t.NumField(); i++ {
		ft := e.t.Field(i)
		if ft.Anonymous && ft.Type.Kind() == reflect.Pointer {
			needAlloc = true
		}
	}
	if needAlloc || hasDeepPtr(e.t) {
		// types with embedded struct pointers cannot be appended by GetAll (nil embedded pointer): iterate
		it := e.sdb.Query(ctx, st).Iter()
		for it.Next() {
			p := reflect.New(e.t)
			allocEmbedded(p.Elem())
			if err := it.Get(p.Interface()); err != nil {
				res.fail("engine-or-scan-rejected-select", q+": "+err.Error())
				it.Close()
				return
			}
			got = append(got, e.canon(p.Elem()))
		}
		if err := it.Close(); err != nil {
			res.fail("engine-rejected-select", q+": "+err.Error())
			return
		}
	} else {
		err := e.sdb.Query(ctx, st).GetAll(slicePtr.Interface())
		if err != nil && err != sqlair.ErrNoRows {
			res.fail("engine-or-scan-rejected-select", q+": "+err.Error())
			return
		}
		for i := 0; i < slicePtr.Elem().Len(); i++ {
			got = append(got, e.canon(slicePtr.Elem().Index(i)))
			// every element GetAll appends is a fresh value: a Scanner member saw at most one Scan
			if m := countedFresh(slicePtr.Elem().Index(i)); m != "" {
				res.fail("getall-element-not-fresh", fmt.Sprintf("row %d: %s", i, m))
			}
		}
	}
	// ---- the same read, hand-written ------------------------------------
	rows, err := e.db2.Query("SELECT " + strings.Join(e.tags, ", ") + " FROM t ORDER BY rowid")
	if err != nil {
		res.fail("setup-handwritten-select", err.Error())
		return
	}
	var want []string
	for rows.Next() {
		p := reflect.New(e.t)
		allocEmbedded(p.Elem())
		var ptrs []any
		var fixes []func()
		for _, tg := range e.tags {
			fv, _ := fieldByTag(p.Elem(), tg)
			if fv.Kind() != reflect.Pointer && !reflect.PointerTo(fv.Type()).Implements(scannerIface) {
				// NULL into a plain field: read through a pointer, nil means zero
				pp := reflect.New(reflect.PointerTo(fv.Type()))
				ptrs = append(ptrs, pp.Interface())
				fvc := fv
				fixes = append(fixes, func() {
					if !pp.Elem().IsNil() {
						fvc.Set(pp.Elem().Elem())
					}
				})
			} else {
				ptrs = append(ptrs, fv.Addr().Interface())
			}
		}
		if err := rows.Scan(ptrs...); err != nil {
			rows.Close()
			res.fail("setup-handwritten-scan", err.Error())
			return
		}
		for _, fx := range fixes {
			fx()
		}
		want = append(want, e.canon(p.Elem()))
	}
	rows.Close()
	if strings.Join(got, "\n") != strings.Join(want, "\n") {
		res.fail("result-rows-differ-from-handwritten", "sqlair:\n"+strings.Join(got, "\n")+"\nhand-written:\n"+strings.Join(want, "\n"))
	}
	// ---- round trip: rows come back equal to what was inserted -----------
	if !sc.update && !sc.del {
		var ins []string
		for _, v := range vals {
			ins = append(ins, e.canon(v.Elem()))
		}
		if strings.Join(got, "\n") != strings.Join(ins, "\n") {
			res.fail("round-trip", "read back:\n"+strings.Join(got, "\n")+"\ninserted:\n"+strings.Join(ins, "\n"))
		}
	}
	return
}

func hasDeepPtr(t reflect.Type) bool {
	for i := 0; i < t.NumField(); i++ {
		f := t.Field(i)
		if f.Anonymous && f.Tag.Get("db") == "" {
			ft := f.Type
			if ft.Kind() == reflect.Pointer {
				return true
			}
			if ft.Kind() == reflect.Struct && hasDeepPtr(ft) {
				return true
			}
		}
	}
	return false
}

// fixed scenarios that run first: zero values of every omitempty shape
var sqliteCorpus = []rtScenario{
	{zero: true, typ: "AutoID", form: 0, rows: 1},
	{zero: true, typ: "Omit", form: 0, rows: 1},
	{zero: true, typ: "Person", form: 1, rows: 2},
	{zero: true, typ: "PtrFields", form: 0, rows: 1, read: 1},
}

type sqliteStats struct {
	Cases      int            `json:"cases"`
	Types      map[string]int `json:"types"`
	Forms      map[string]int `json:"insert_forms"`
	Reads      map[string]int `json:"read_forms"`
	Rows       int            `json:"rows_inserted"`
	Statements int            `json:"statements_prepared"`
	Rejected   int            `json:"value_dependent_rejections"`
	Updates    int            `json:"with_update"`
	Deletes    int            `json:"with_delete"`
	Samples    []string       `json:"samples"`
}

func cmdSqlite(args []string) int {
	fs := flag.NewFlagSet("sqlite", flag.ExitOnError)
	seed := fs.Uint64("seed", 1, "seed")
	n := fs.Int("n", 300, "number of scenarios")
	outDir := fs.String("out", ".", "output directory")
	fs.Parse(args)
	violFile, _ := os.Create(*outDir + "/oracle.jsonl")
	defer violFile.Close()
	w := bufio.NewWriter(violFile)
	defer w.Flush()
	r := newRng(*seed)
	st := sqliteStats{Types: map[string]int{}, Forms: map[string]int{}, Reads: map[string]int{}}
	nviol := 0
	for i := 0; i < *n; i++ {
		sc := rtScenario{typ: r.pick(sqliteStructs), form: r.intn(4), rows: 1 + r.intn(4), update: r.chance(1, 4), del: r.chance(1, 5), read: r.intn(4)}
		if i < len(sqliteCorpus) {
			sc = sqliteCorpus[i] // fixed scenarios first
		}
		res := runRoundTrip(r.fork(), sc)
		st.Cases++
		st.Types[sc.typ]++
		st.Forms[fmt.Sprint(sc.form)]++
		st.Reads[fmt.Sprint(sc.read)]++
		st.Rows += sc.rows
		st.Statements += len(res.stmts)
		if strings.Contains(res.desc, "rejected by sqlair") {
			st.Rejected++
		}
		if sc.update {
			st.Updates++
		}
		if sc.del {
			st.Deletes++
		}
		if i < 3 || (i%(*n/4+1) == 0 && len(st.Samples) < 8) {
			st.Samples = append(st.Samples, res.desc+" | "+strings.Join(res.stmts, " ; "))
		}
		for _, fl := range res.fails {
			nviol++
			name := fl[:strings.Index(fl, ":")]
			b, _ := json.Marshal(map[string]any{"property": "C17", "oracle": name, "query_hex": hx(res.desc),
				"detail": fl, "scenario": res.desc, "statements": res.stmts, "layer": "sqlite", "seed": *seed, "index": i})
			w.Write(append(b, '\n'))
		}
	}
	sb, _ := json.MarshalIndent(st, "", " ")
	os.WriteFile(*outDir+"/stats.json", sb, 0o644)
	var buf bytes.Buffer
	fmt.Fprintf(&buf, "sqlite: %d scenarios, %d statements, %d oracle violations\n", st.Cases, st.Statements, nviol)
	os.Stdout.Write(buf.Bytes())
	return 0
}

func init() { commands["sqlite"] = cmdSqlite }
