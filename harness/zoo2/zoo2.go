// Package zoo2 holds types with the same names as types of the main zoo.
package zoo2

type Person struct {
	ID   int    `db:"id"`
	Name string `db:"name"`
}

type M map[string]any

type IntSlice []int
