package main

import (
	"bufio"
	"context"
	"encoding/hex"
	"encoding/json"
	"flag"
	"fmt"
	"os"
	"regexp"
	"strconv"
	"strings"
	"sync/atomic"
	"time"

	"github.com/canonical/sqlair"
)

// ---------------------------------------------------------------- impl --

type parseResult struct {
	ok       bool
	dump     string
	line     int
	col      int
	kind     string
	payload  string
	pos      bool
	hasLine  bool   // the error names a line
	raw      string // the whole error text
	msg      string // message without prefix and position
	panicked string
}

var reMissedInput = regexp.MustCompile(`[ (,=]\$[A-Za-z_][A-Za-z0-9_]*\.[A-Za-z_][A-Za-z0-9_]*`)
var rePos = regexp.MustCompile(`^cannot parse expression: (?:line (\d+), )?column (\d+): (.*)$`)

type kindPat struct {
	kind string
	re   *regexp.Regexp
	q    bool // payload is %q quoted
}

var kindPats = []kindPat{
	{"missing-quote", regexp.MustCompile(`^missing closing quote in string literal$`), false},
	{"missing-paren", regexp.MustCompile(`^missing closing parenthesis$`), false},
	{"slice-in-output", regexp.MustCompile(`^cannot use slice syntax "(.*)\[:\]" in output expression$`), false},
	{"slice-in-output2", regexp.MustCompile(`^cannot use slice syntax in output expression$`), false},
	{"invalid-slice", regexp.MustCompile(`^invalid slice: expected '(.*)\[:\]'$`), false},
	{"unqualified", regexp.MustCompile(`(?s)^unqualified type, expected (.*)\.\* or .*$`), false},
	{"invalid-suffix", regexp.MustCompile(`(?s)^invalid identifier suffix following (".*")$`), true},
	{"invalid-in-list", regexp.MustCompile(`^invalid expression in list$`), false},
	{"missing-parens", regexp.MustCompile(`^missing closing parentheses$`), false},
	{"missing-parens-as", regexp.MustCompile(`^missing parentheses around types after "AS"$`), false},
	{"unexpected-parens-as", regexp.MustCompile(`^unexpected parentheses around types after "AS"$`), false},
	{"func-into-star", regexp.MustCompile(`(?s)^cannot read function call (".*") into asterisk$`), true},
	{"star-input", regexp.MustCompile(`(?s)^invalid asterisk placement in input (".*")$`), true},
	{"missing-parens-values", regexp.MustCompile(`^missing parentheses around types after "VALUES"$`), false},
}

func classify(msg string) (kind, payload string) {
	for _, kp := range kindPats {
		if m := kp.re.FindStringSubmatch(msg); m != nil {
			p := ""
			if len(m) > 1 {
				p = m[1]
				if kp.q {
					u, err := strconv.Unquote(p)
					if err != nil {
						return "other", ""
					}
					p = u
				}
			}
			// "unqualified": the pattern is greedy over the three copies of the
			// name; recover the name from the exact message shape.
			if kp.kind == "unqualified" {
				p = unqualifiedName(msg)
			}
			return kp.kind, p
		}
	}
	return "other", ""
}

func unqualifiedName(msg string) string {
	// unqualified type, expected N.* or N.<db tag> or N[:]
	rest := strings.TrimPrefix(msg, "unqualified type, expected ")
	// total length = 3*len(N) + len(".* or ") + len(".<db tag> or ") + len("[:]")
	fixed := len(".* or ") + len(".<db tag> or ") + len("[:]")
	if (len(rest)-fixed)%3 != 0 || len(rest) < fixed {
		return ""
	}
	n := (len(rest) - fixed) / 3
	return rest[:n]
}

var rePosAnywhere = regexp.MustCompile(`(?:line (\d+), )?column (\d+): (.*)$`)

// prepareParse: what sqlair.Prepare (without type samples) says about the query text: ok when the
// parser accepted it (a later type error is not a parse error), else the position and the message
// the error names, wherever they stand in it.
func prepareParse(q string) (res parseResult) {
	defer func() {
		if r := recover(); r != nil {
			res = parseResult{panicked: fmt.Sprint(r), raw: "PANIC " + fmt.Sprint(r)}
		}
	}()
	_, err := sqlair.Prepare(q)
	if err == nil {
		return parseResult{ok: true}
	}
	msg := err.Error()
	if !strings.Contains(msg, "cannot parse expression") && rePosAnywhere.FindStringSubmatch(strings.ReplaceAll(msg, "\n", "\x00")) == nil {
		return parseResult{ok: true, raw: msg}
	}
	m := rePosAnywhere.FindStringSubmatch(strings.ReplaceAll(msg, "\n", "\x00"))
	if m == nil {
		return parseResult{pos: false, raw: msg}
	}
	r := parseResult{pos: true, line: 1, raw: msg}
	if m[1] != "" {
		r.line, _ = strconv.Atoi(m[1])
		r.hasLine = true
	}
	r.col, _ = strconv.Atoi(m[2])
	r.msg = strings.ReplaceAll(m[3], "\x00", "\n")
	return r
}

func implParse(q string) (res parseResult) {
	defer func() {
		if r := recover(); r != nil {
			res = parseResult{panicked: fmt.Sprint(r)}
		}
	}()
	dump, err := sqlair.VerifParse(q)
	if err == nil {
		return parseResult{ok: true, dump: dump}
	}
	msg := err.Error()
	if m := rePos.FindStringSubmatch(strings.ReplaceAll(msg, "\n", "\x00")); m != nil {
		r := parseResult{pos: true, line: 1, raw: msg}
		if m[1] != "" {
			r.line, _ = strconv.Atoi(m[1])
			r.hasLine = true
		}
		r.col, _ = strconv.Atoi(m[2])
		r.msg = strings.ReplaceAll(m[3], "\x00", "\n")
		r.kind, r.payload = classify(r.msg)
		return r
	}
	r := parseResult{pos: false, raw: msg}
	r.msg = strings.TrimPrefix(msg, "cannot parse expression: ")
	r.kind = "other"
	return r
}

func (r parseResult) String() string {
	if r.panicked != "" {
		return "PANIC " + strconv.Quote(r.panicked)
	}
	if r.ok {
		if r.dump == "" {
			return "OK"
		}
		return "OK " + r.dump
	}
	p := "nopos"
	if r.pos {
		p = "pos"
	}
	return fmt.Sprintf("ERR %d %d %s x%s %s", r.line, r.col, r.kind, hex.EncodeToString([]byte(r.payload)), p)
}

// -------------------------------------------------------------- segments --

type segment struct {
	kind string
	raw  string
}

var reSeg = regexp.MustCompile(`\((B|IN|SL|AI|CI|BI|OUT) x([0-9a-f]*)`)

func segmentsOf(dump string) []segment {
	var out []segment
	// top level segments start at depth 0
	depth := 0
	for i := 0; i < len(dump); i++ {
		switch dump[i] {
		case '(':
			if depth == 0 {
				m := reSeg.FindStringSubmatch(dump[i:])
				if m != nil {
					raw, _ := hex.DecodeString(m[2])
					out = append(out, segment{m[1], string(raw)})
				} else {
					out = append(out, segment{"?", ""})
				}
			}
			depth++
		case ')':
			depth--
		}
	}
	return out
}

// ------------------------------------------------- independent SQL lexer --

// lexRegions is an independent byte automaton for SQL string literals, quoted
// identifiers and comments. It returns the regions [a,b) they cover and
// whether the text ends inside a quote.
func lexRegions(q string) (regions [][2]int, openQuote bool) {
	i := 0
	n := len(q)
	for i < n {
		c := q[i]
		switch {
		case c == '\'' || c == '"':
			a := i
			i++
			closed := false
			for i < n {
				if q[i] == c {
					if i+1 < n && q[i+1] == c {
						i += 2
						continue
					}
					i++
					closed = true
					break
				}
				i++
			}
			if !closed {
				return append(regions, [2]int{a, n}), true
			}
			regions = append(regions, [2]int{a, i})
		case c == '-' && i+1 < n && q[i+1] == '-':
			a := i
			for i < n && q[i] != '\n' {
				i++
			}
			regions = append(regions, [2]int{a, i})
		case c == '/' && i+1 < n && q[i+1] == '*':
			a := i
			i += 2
			for i < n && !(q[i] == '*' && i+1 < n && q[i+1] == '/') {
				i++
			}
			if i < n {
				i += 2
			}
			regions = append(regions, [2]int{a, i})
		default:
			i++
		}
	}
	return regions, false
}

// ---------------------------------------------------------------- oracles --

type violation struct {
	Prop   string `json:"property"`
	Name   string `json:"oracle"`
	Query  string `json:"query_hex"`
	Detail string `json:"detail"`
}

func lineInfo(q string) (nlines int, lens []int) {
	ls := strings.Split(q, "\n")
	for _, l := range ls {
		lens = append(lens, len(l))
	}
	return len(ls), lens
}

func parseOracles(q string, r parseResult, shifts []int, add func(violation)) {
	qh := "x" + hex.EncodeToString([]byte(q))
	v := func(prop, name, detail string) { add(violation{prop, name, qh, detail}) }
	if r.panicked != "" {
		v("C18", "parse-panic", r.panicked)
		return
	}
	if r.ok {
		segs := segmentsOf(r.dump)
		// C01 tiling
		var b strings.Builder
		prevBypass := false
		hasExpr := false
		for _, s := range segs {
			b.WriteString(s.raw)
			if s.kind == "B" {
				if prevBypass {
					v("C01", "adjacent-bypass", r.dump)
				}
				if s.raw == "" {
					v("C01", "empty-bypass", r.dump)
				}
				prevBypass = true
			} else {
				prevBypass = false
				hasExpr = true
				if !strings.ContainsAny(s.raw, "$&") {
					v("C01", "expr-without-sigil", s.raw)
				}
			}
		}
		if b.String() != q {
			v("C01", "tiling", "segments concatenate to "+strconv.Quote(b.String()))
		}
		if !strings.ContainsAny(q, "$&") && hasExpr {
			v("C01", "no-expression", r.dump)
		}
		// C02
		regions, open := lexRegions(q)
		if open {
			v("C02", "unclosed-accepted", "query ends inside a quote but was accepted")
		}
		off := 0
		for _, s := range segs {
			end := off + len(s.raw)
			if s.kind != "B" {
				for _, rg := range regions {
					if (rg[0] < off && off < rg[1]) || (rg[0] < end && end < rg[1]) {
						v("C02", "boundary-inside-region", fmt.Sprintf("segment [%d,%d) %q vs region [%d,%d) %q", off, end, s.raw, rg[0], rg[1], q[rg[0]:rg[1]]))
					}
				}
			}
			off = end
		}
		// an expression that stands outside every literal and comment, after a blank, '(' , ',' or '=',
		// is recognised: it is not left in the pass-through text (the parser's idea of where a
		// literal ends would otherwise differ from SQL's)
		off = 0
		for _, s := range segs {
			if s.kind == "B" {
				for _, m := range reMissedInput.FindAllStringIndex(s.raw, -1) {
					a := off + m[0] + 1
					inside := false
					for _, rg := range regions {
						if rg[0] <= a && a < rg[1] {
							inside = true
						}
					}
					if !inside {
						v("C01", "expression-outside-literals-left-in-pass-through-text", fmt.Sprintf("%q at byte %d", q[a:off+m[1]], a))
						// a matter of C02 when a literal or comment ends before it: the parser took it to go on
						for _, rg := range regions {
							if rg[1] <= a {
								v("C02", "expression-outside-literals-left-in-pass-through-text", fmt.Sprintf("%q at byte %d, after the literal or comment %q", q[a:off+m[1]], a, q[rg[0]:rg[1]]))
								break
							}
						}
					}
				}
			}
			off += len(s.raw)
		}
	} else if r.kind == "missing-quote" {
		if _, open := lexRegions(q); !open {
			v("C02", "closed-literal-reported-as-unclosed", fmt.Sprintf("line %d col %d", r.line, r.col))
		}
	}
	if !r.ok {
		// the same through the public entry point (Prepare, called for one query after the other in this
		// process, as an application does): its error names a position inside the query, and k newlines
		// in front move the line by k and nothing else.  (How Prepare wraps the error is its business.)
		p0 := prepareParse(q)
		n, lens := lineInfo(q)
		switch {
		case p0.ok:
			// Prepare did not report a parse error here: nothing to hold against C19
		case !p0.pos:
			v("C19", "parse-error-without-position", "Prepare: "+p0.raw)
		default:
			if p0.col < 1 || p0.line < 1 || p0.line > n || p0.col > lens[p0.line-1]+1 {
				v("C19", "position-out-of-range", fmt.Sprintf("Prepare: line %d col %d (lines %d): %s", p0.line, p0.col, n, p0.raw))
			}
			if n > 1 && !p0.hasLine {
				v("C19", "no-line-for-a-query-of-several-lines", "Prepare: "+p0.raw)
			}
			for _, k := range shifts {
				pk := prepareParse(strings.Repeat("\n", k) + q)
				if pk.ok || !pk.pos || pk.msg != p0.msg || pk.col != p0.col || pk.line != p0.line+k {
					v("C19", "shift", fmt.Sprintf("Prepare, k=%d: line %d col %d %q  vs  line %d col %d %q", k, p0.line, p0.col, p0.msg, pk.line, pk.col, pk.msg))
				}
			}
		}
	}
	if !r.ok && r.pos {
		// C19 in range
		n, lens := lineInfo(q)
		if r.col < 1 || r.line < 1 || r.line > n || r.col > lens[r.line-1]+1 {
			v("C19", "position-out-of-range", fmt.Sprintf("line %d col %d (lines %d)", r.line, r.col, n))
		}
		if n > 1 && !r.hasLine {
			v("C19", "no-line-for-a-query-of-several-lines", fmt.Sprintf("col %d (lines %d): %s", r.col, n, r.msg))
		}
	} else if !r.ok {
		// C19: every parse error names a column (and a line when the query has several)
		v("C19", "parse-error-without-position", r.msg)
	}
	// C19 shift (metamorphic)
	for _, k := range shifts {
		q2 := strings.Repeat("\n", k) + q
		r2 := implParse(q2)
		if r2.panicked != "" {
			v("C18", "parse-panic", "with newline prefix: "+r2.panicked)
			continue
		}
		if r.ok != r2.ok {
			v("C19", "acceptance-depends-on-leading-newlines", fmt.Sprintf("k=%d: %v vs %v", k, r.String(), r2.String()))
			continue
		}
		if r.ok {
			// same expression segments, bypass text shifted
			s1 := segmentsOf(r.dump)
			s2 := segmentsOf(r2.dump)
			var e1, e2 []string
			for _, s := range s1 {
				if s.kind != "B" {
					e1 = append(e1, s.kind+":"+s.raw)
				}
			}
			for _, s := range s2 {
				if s.kind != "B" {
					e2 = append(e2, s.kind+":"+s.raw)
				}
			}
			if strings.Join(e1, "\x00") != strings.Join(e2, "\x00") {
				v("C19", "segments-depend-on-leading-newlines", fmt.Sprintf("k=%d", k))
			}
			continue
		}
		if r.pos != r2.pos || r.msg != r2.msg || (r.pos && (r.col != r2.col || r.line+k != r2.line)) {
			v("C19", "shift", fmt.Sprintf("k=%d: line %d col %d %q  vs  line %d col %d %q", k, r.line, r.col, r.msg, r2.line, r2.col, r2.msg))
		}
	}
}

// ---------------------------------------------------------------- command --

type parseStats struct {
	Cases         int            `json:"cases"`
	Accepted      int            `json:"accepted"`
	Rejected      int            `json:"rejected"`
	WithExpr      int            `json:"accepted_with_expression"`
	Kinds         map[string]int `json:"error_kinds"`
	SegKinds      map[string]int `json:"segment_kinds"`
	LenHist       map[string]int `json:"length_histogram"`
	Distinct      int            `json:"distinct_queries"`
	NonTrivial    int            `json:"distinct_nontrivial"`
	MultiLine     int            `json:"multi_line"`
	NonASCII      int            `json:"non_ascii"`
	Corpus        int            `json:"corpus_cases"`
	Samples       []string       `json:"samples"`
	ShiftChecks   int            `json:"shift_checks"`
	OtherWordings int            `json:"unknown_error_wordings"`
	PlainViaAPI   int            `json:"plain_queries_run_through_prepare"`
}

func bucket(n int) string {
	switch {
	case n < 8:
		return "0-7"
	case n < 32:
		return "8-31"
	case n < 128:
		return "32-127"
	default:
		return "128+"
	}
}

var currentCase atomic.Value
var caseStart atomic.Int64

func watchdog(viol func(violation)) { watchdogFor("C18", "hang", viol) }

// watchdogFor ends the process when a case does not return within 60 s (the
// implementation hangs), after recording the case as a violation.
func watchdogFor(prop, name string, viol func(violation)) {
	for {
		time.Sleep(500 * time.Millisecond)
		st := caseStart.Load()
		if st != 0 && time.Since(time.Unix(0, st)) > 60*time.Second {
			q, _ := currentCase.Load().(string)
			viol(violation{prop, name, "x" + hex.EncodeToString([]byte(q)), "no result after 60s"})
			fmt.Fprintln(os.Stderr, "HANG on case", strconv.Quote(q))
			os.Exit(4)
		}
	}
}

func readCorpus(dir string) []string {
	var out []string
	ents, err := os.ReadDir(dir)
	if err != nil {
		return nil
	}
	for _, e := range ents {
		if e.IsDir() {
			continue
		}
		data, err := os.ReadFile(dir + "/" + e.Name())
		if err != nil {
			continue
		}
		for _, l := range strings.Split(string(data), "\n") {
			l = strings.TrimSpace(l)
			if l == "" || strings.HasPrefix(l, "#") {
				continue
			}
			if strings.HasPrefix(l, "x") {
				if b, err := hex.DecodeString(l[1:]); err == nil {
					out = append(out, string(b))
				}
			} else if strings.HasPrefix(l, "\"") {
				if s, err := strconv.Unquote(l); err == nil {
					out = append(out, s)
				}
			}
		}
	}
	return out
}

// cmdParse: generate queries, run the implementation, evaluate the oracles.
func cmdParse(args []string) int {
	fs := flag.NewFlagSet("parse", flag.ExitOnError)
	seed := fs.Uint64("seed", 1, "seed")
	n := fs.Int("n", 1000, "number of generated cases")
	mode := fs.String("mode", "c01", "generator mode: c01|c02|c19")
	outDir := fs.String("out", ".", "output directory")
	corpus := fs.String("corpus", "", "comma separated corpus directories")
	replay := fs.String("replay", "", "replay a single query given as x<hex>")
	exh := fs.Int("exhaustive", 0, "enumerate all strings of up to this many tokens over the small alphabet")
	fs.Parse(args)

	var violations []violation
	violFile, _ := os.Create(*outDir + "/oracle.jsonl")
	defer violFile.Close()
	addViol := func(v violation) {
		violations = append(violations, v)
		b, _ := json.Marshal(v)
		violFile.Write(append(b, '\n'))
	}
	go watchdog(addViol)

	var queries []string
	ncorpus := 0
	if *replay != "" {
		b, err := hex.DecodeString(strings.TrimPrefix(*replay, "x"))
		if err != nil {
			fmt.Fprintln(os.Stderr, "bad replay hex")
			return 2
		}
		queries = []string{string(b)}
	} else {
		for _, d := range strings.Split(*corpus, ",") {
			if d != "" {
				queries = append(queries, readCorpus(d)...)
			}
		}
		ncorpus = len(queries)
		if *exh > 0 {
			queries = append(queries, enumerateTokens(*mode, *exh)...)
		}
		g := &parseGen{r: newRng(*seed), mode: *mode}
		for i := 0; i < *n; i++ {
			q := g.next()
			queries = append(queries, q)
			if (*mode == "c01" || *mode == "c02") && i%5 == 0 {
				// the same query without sigils (no SQLair expression: must reach the driver unchanged),
				// followed by a copy that differs from it only in white space
				plain := strings.NewReplacer("$", "", "&", "").Replace(q)
				queries = append(queries, plain, wsVariant(plain, g.r))
			}
		}
	}

	// very long queries (lengths around 2^16, 10^6 and 2^20: limits of buffers and of database engines),
	// on the implementation only (the extracted model is quadratic in the length): the oracles, including
	// the shift by leading newlines, which carries some of them across each boundary
	if *replay == "" {
		lr := newRng(*seed + 4242)
		for _, n := range []int{65535, 65536, 65537, 999995, 999999, 1000000, 1000001, 1048575, 1048576, 1048577} {
			for _, core := range []string{"SELECT foo FROM t WHERE x = $Address", "SELECT &Person.* FROM person WHERE id = $Person.id", "SELECT 1"} {
				pad := n - len(core)
				var q string
				switch lr.intn(3) {
				case 0:
					q = core + strings.Repeat(" ", pad)
				case 1:
					q = core + " /*" + strings.Repeat("x", pad-5) + "*/"
				default:
					q = core + " AND y = '" + strings.Repeat("a", pad-10) + "'"
				}
				currentCase.Store(fmt.Sprintf("query of %d bytes", len(q)))
				caseStart.Store(time.Now().UnixNano())
				parseOracles(q, implParse(q), []int{1, 2, 5}, addViol)
				caseStart.Store(0)
			}
		}
	}

	cases, _ := os.Create(*outDir + "/cases.txt")
	impl, _ := os.Create(*outDir + "/impl.txt")
	cw := bufio.NewWriter(cases)
	iw := bufio.NewWriter(impl)
	st := parseStats{Kinds: map[string]int{}, SegKinds: map[string]int{}, LenHist: map[string]int{}, Corpus: ncorpus}
	seen := map[string]bool{}
	shiftRng := newRng(*seed + 77)
	shrunk := 0
	for i, q := range queries {
		currentCase.Store(q)
		caseStart.Store(time.Now().UnixNano())
		r := implParse(q)
		fmt.Fprintf(cw, "(parse x%s)\n", hex.EncodeToString([]byte(q)))
		fmt.Fprintln(iw, r.String())
		var shifts []int
		if *mode == "c19" || shiftRng.chance(1, 4) || *replay != "" {
			shifts = []int{1, 2, 5}
			st.ShiftChecks += 3
		}
		nBefore := len(violations)
		parseOracles(q, r, shifts, addViol)
		if len(violations) > nBefore && shrunk < 12 && *replay == "" {
			// shrink the first failing input of this case (delta debugging on bytes, same oracle must still fail)
			shrunk++
			v0 := violations[nBefore]
			fails := func(c string) bool {
				hit := false
				parseOracles(c, implParse(c), shifts, func(v violation) {
					if v.Prop == v0.Prop && v.Name == v0.Name {
						hit = true
					}
				})
				return hit
			}
			if m := shrinkBytes(q, fails); m != q {
				// the minimised input is reported as a failing input of its own (its replay runs it alone)
				mv := v0
				mv.Query = "x" + hex.EncodeToString([]byte(m))
				mv.Detail = "minimised from " + v0.Query + ": " + strconv.Quote(m)
				addViol(mv)
			}
		}
		if r.ok && !strings.ContainsAny(q, "$&") && len(q) > 0 {
			// C01 through the public API: a query without SQLair expressions is sent unchanged
			st.PlainViaAPI++
			if got, err := driverSQLOfPlain(q); err != nil {
				addViol(violation{"C01", "plain-query-not-runnable", "x" + hex.EncodeToString([]byte(q)), err.Error()})
			} else if got != q {
				addViol(violation{"C01", "plain-query-changed", "x" + hex.EncodeToString([]byte(q)), fmt.Sprintf("driver received %q", got)})
				if regs, _ := lexRegions(q); len(regs) > 0 {
					// the query has literals or comments: their text must pass through unchanged
					addViol(violation{"C02", "text-with-literals-or-comments-changed", "x" + hex.EncodeToString([]byte(q)), fmt.Sprintf("driver received %q", got)})
				}
			}
		}
		caseStart.Store(0)

		st.Cases++
		st.LenHist[bucket(len(q))]++
		if strings.Contains(q, "\n") {
			st.MultiLine++
		}
		for _, c := range []byte(q) {
			if c >= 0x80 {
				st.NonASCII++
				break
			}
		}
		nontrivial := false
		if r.ok {
			st.Accepted++
			has := false
			for _, s := range segmentsOf(r.dump) {
				st.SegKinds[s.kind]++
				if s.kind != "B" {
					has = true
				}
			}
			if has {
				st.WithExpr++
				nontrivial = true
			}
		} else {
			st.Rejected++
			st.Kinds[r.kind]++
			if r.kind == "other" {
				st.OtherWordings++
			}
			nontrivial = true
		}
		if !seen[q] {
			seen[q] = true
			st.Distinct++
			if nontrivial {
				st.NonTrivial++
			}
		}
		if i < 3 || (i%(len(queries)/5+1) == 0 && len(st.Samples) < 8) {
			st.Samples = append(st.Samples, q)
		}
	}
	cw.Flush()
	iw.Flush()
	cases.Close()
	impl.Close()
	sb, _ := json.MarshalIndent(st, "", " ")
	os.WriteFile(*outDir+"/stats.json", sb, 0o644)
	fmt.Printf("parse: %d cases, %d accepted (%d with expressions), %d rejected, %d oracle violations\n", st.Cases, st.Accepted, st.WithExpr, st.Rejected, len(violations))
	return 0
}

// shrinkBytes: ddmin on the bytes of q for the predicate fails (at most a few hundred evaluations).
func shrinkBytes(q string, fails func(string) bool) string {
	cur := q
	budget := 400
	for n := 2; len(cur) > 1 && budget > 0; {
		chunk := (len(cur) + n - 1) / n
		reduced := false
		for i := 0; i < len(cur) && budget > 0; i += chunk {
			j := i + chunk
			if j > len(cur) {
				j = len(cur)
			}
			cand := cur[:i] + cur[j:]
			budget--
			if len(cand) > 0 && fails(cand) {
				cur = cand
				if n > 2 {
					n--
				}
				reduced = true
				break
			}
		}
		if !reduced {
			if chunk == 1 {
				break
			}
			n *= 2
			if n > len(cur) {
				n = len(cur)
			}
		}
	}
	return cur
}

// wsVariant returns q with one run of white space changed (doubled, or a blank turned into a tab or
// a newline), wherever it stands: between tokens, inside a literal, inside a comment.
func wsVariant(q string, r *rng) string {
	var idx []int
	for i := 0; i < len(q); i++ {
		if q[i] == ' ' || q[i] == '\t' || q[i] == '\n' {
			idx = append(idx, i)
		}
	}
	if len(idx) == 0 {
		return q + " "
	}
	i := idx[r.intn(len(idx))]
	switch r.intn(3) {
	case 0:
		return q[:i] + string(q[i]) + q[i:]
	case 1:
		return q[:i] + "\t" + q[i+1:]
	default:
		return q[:i] + " " + q[i:]
	}
}

// driverSQLOfPlain prepares and runs a query through the public API on the fake driver and returns
// the SQL text the driver was asked to prepare.
func driverSQLOfPlain(q string) (string, error) {
	stmt, err := sqlair.Prepare(q)
	if err != nil {
		return "", fmt.Errorf("Prepare: %v", err)
	}
	sqldb, f := openFake()
	defer dropFakeDB(f.name)
	defer sqldb.Close()
	db := sqlair.NewDB(sqldb)
	if err := db.Query(context.Background(), stmt).Run(); err != nil {
		return "", fmt.Errorf("Run: %v", err)
	}
	for _, ev := range f.log() {
		if ev.Kind == "prepare" {
			return ev.SQL, nil
		}
	}
	return "", fmt.Errorf("no prepare event")
}

// enumerateTokens enumerates all strings of 1..k tokens over a small alphabet.
func enumerateTokens(mode string, k int) []string {
	alpha := []string{"&", "$", "T.x", "T", ".", "*", "(", ")", ",", " ", "'", "-", "/", "\n", "AS ", "VALUES "}
	if mode == "c02" {
		alpha = []string{"'", "\"", "--", "/*", "*/", "\n", "$T.x", "(", ")", "&T.*", " "}
	}
	var out []string
	var rec func(prefix string, depth int)
	rec = func(prefix string, depth int) {
		if depth > 0 {
			out = append(out, prefix)
		}
		if depth == k {
			return
		}
		for _, a := range alpha {
			rec(prefix+a, depth+1)
		}
	}
	rec("", 0)
	return out
}

func init() { commands["parse"] = cmdParse }
