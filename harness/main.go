package main

import (
	"fmt"
	"os"
)

func usage() {
	fmt.Fprintln(os.Stderr, "usage: harness gen <coqdir> <repo> | parse-gen ... | parse-run ...")
	os.Exit(2)
}

func main() {
	if len(os.Args) < 2 {
		usage()
	}
	switch os.Args[1] {
	case "gen":
		if len(os.Args) != 4 {
			usage()
		}
		os.Exit(cmdGen(os.Args[2], os.Args[3]))
	default:
		if f, ok := commands[os.Args[1]]; ok {
			os.Exit(f(os.Args[2:]))
		}
		usage()
	}
}

var commands = map[string]func([]string) int{}
