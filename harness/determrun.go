package main

// C16: statements are immutable values.  For generated (query, samples,
// arguments A, arguments B of the same types but another shape):
//   - running A repeatedly on one Statement gives byte-identical SQL and
//     arguments (Go's map iteration order is re-randomised on every range);
//   - a separately prepared Statement gives the same;
//   - running B in between does not change what A produces afterwards;
//   - goroutines preparing the same query at the same time, and goroutines
//     running A and B on one shared Statement at the same time, all get the
//     sequential result.
// Built with -race (thorough tier) a data race is reported by the runtime and
// recorded as a violation with the report as detail.

import (
	"bufio"
	"context"
	"database/sql/driver"
	"encoding/json"
	"flag"
	"fmt"
	"os"
	"reflect"
	"strings"
	"sync"
	"time"

	"github.com/canonical/sqlair"
)

// runOnce runs stmt with args on a fresh fake database and returns the
// canonical observation: "OK kind sql args..." or "ERR class".
func runOnce(stmt *sqlair.Statement, args []any) (line string) {
	p := buildPending(stmt, args)
	return p.run()
}

// pending: a Query that has been built (arguments bound) but not run yet.
type pending struct {
	q     *sqlair.Query
	f     *fakeDB
	close func()
}

func buildPending(stmt *sqlair.Statement, args []any) *pending {
	sqldb, f := openFake()
	f.rowsFor = func(sql string, _ []driver.NamedValue) *rowsScript {
		rs := defaultRows(sql)
		rs.Rows = nil
		return rs
	}
	db := sqlair.NewDB(sqldb)
	p := &pending{f: f, close: func() { sqldb.Close(); dropFakeDB(f.name) }}
	func() {
		defer func() { recover() }()
		p.q = db.Query(context.Background(), stmt, args...)
	}()
	return p
}

func (p *pending) run() (line string) {
	defer p.close()
	defer func() {
		if r := recover(); r != nil {
			line = "PANIC " + fmt.Sprint(r)
		}
	}()
	if p.q == nil {
		return "PANIC in Query"
	}
	err := p.q.Run()
	var prep, run *event
	evs := p.f.log()
	for i := range evs {
		switch evs[i].Kind {
		case "prepare":
			if prep == nil {
				prep = &evs[i]
			}
		case "exec", "query":
			if run == nil {
				run = &evs[i]
			}
		}
	}
	if prep == nil {
		if err == nil {
			return "NO-EVENTS-NO-ERROR"
		}
		return "ERR " + classifyBindErr(err.Error())
	}
	parts := []string{"OK", prep.SQL}
	if run != nil {
		parts = append(parts, run.Kind)
		for _, a := range run.Args {
			parts = append(parts, a.Name+"="+printVal(reflect.ValueOf(a.Value)))
		}
	}
	return strings.Join(parts, " \x1f ")
}

// emptied builds an argument of the same type that contributes no value: an empty slice, a struct
// or map left zero / empty.
func emptied(a any) any {
	if a == nil {
		return nil
	}
	v := reflect.ValueOf(a)
	t := v.Type()
	if t.Kind() == reflect.Pointer {
		return reflect.New(t.Elem()).Interface()
	}
	switch t.Kind() {
	case reflect.Slice:
		return reflect.MakeSlice(t, 0, 0).Interface()
	case reflect.Map:
		return reflect.MakeMap(t).Interface()
	}
	return reflect.Zero(t).Interface()
}

// rotateOmit: the same argument with the zero / non-zero pattern of its omitempty members rotated by one
// member: as many columns are omitted as before, but other ones.  False when the type has fewer than
// two omitempty members or all of them are alike.
func rotateOmit(a any, r *rng) (any, bool) {
	if a == nil {
		return a, false
	}
	v := reflect.ValueOf(a)
	t := v.Type()
	rot := func(sv reflect.Value) bool {
		var idx []int
		for i := 0; i < sv.NumField(); i++ {
			if strings.Contains(sv.Type().Field(i).Tag.Get("db"), "omitempty") && sv.Field(i).CanSet() {
				idx = append(idx, i)
			}
		}
		if len(idx) < 2 {
			return false
		}
		flags := make([]bool, len(idx))
		same := true
		for i, fi := range idx {
			flags[i] = sv.Field(fi).IsZero()
			if flags[i] != flags[0] {
				same = false
			}
		}
		if same {
			return false
		}
		ff := &filler{r: r, counter: 5000, zeroP: 0, nilP: 0}
		for i, fi := range idx {
			fld := sv.Field(fi)
			if flags[(i+1)%len(idx)] {
				fld.Set(reflect.Zero(fld.Type()))
			} else if fld.IsZero() {
				ff.fill(fld, 0)
				if fld.IsZero() {
					return false
				}
			}
		}
		return true
	}
	switch {
	case t.Kind() == reflect.Struct:
		nv := reflect.New(t).Elem()
		nv.Set(v)
		ok := rot(nv)
		return nv.Interface(), ok
	case t.Kind() == reflect.Pointer && !v.IsNil() && t.Elem().Kind() == reflect.Struct:
		nv := reflect.New(t.Elem())
		nv.Elem().Set(v.Elem())
		ok := rot(nv.Elem())
		return nv.Interface(), ok
	}
	return a, false
}

// rebulk: a single struct becomes a slice of two of it, a slice of structs its first element: the
// other row layout of a bulk insert.
func rebulk(a any) (any, bool) {
	if a == nil {
		return a, false
	}
	v := reflect.ValueOf(a)
	t := v.Type()
	switch {
	case t.Kind() == reflect.Struct || (t.Kind() == reflect.Pointer && !v.IsNil() && t.Elem().Kind() == reflect.Struct):
		s := reflect.MakeSlice(reflect.SliceOf(t), 0, 3)
		s = reflect.Append(s, v, v, v)
		return s.Interface(), true
	case t.Kind() == reflect.Slice && t.Name() == "" && v.Len() > 0 &&
		(t.Elem().Kind() == reflect.Struct || (t.Elem().Kind() == reflect.Pointer && t.Elem().Elem().Kind() == reflect.Struct)):
		return v.Index(0).Interface(), true
	}
	return a, false
}

// reshape builds another argument of the same type with other contents (other
// zero pattern, other slice length).
func reshape(r *rng, a any, salt int) any {
	if a == nil {
		return nil
	}
	v := reflect.ValueOf(a)
	t := v.Type()
	f := &filler{r: r.fork(), zeroP: (salt * 3) % 10, nilP: 2}
	f.counter = uint64(20000 + salt*100)
	mk := func(t reflect.Type) reflect.Value {
		p := reflect.New(t)
		switch t.Kind() {
		case reflect.Map:
			m := reflect.MakeMap(t)
			if t.Key().Kind() == reflect.String {
				for _, k := range mapKeys {
					kv := reflect.ValueOf(k).Convert(t.Key())
					ev := reflect.New(t.Elem()).Elem()
					f.fill(ev, 0)
					m.SetMapIndex(kv, ev)
				}
			}
			p.Elem().Set(m)
		case reflect.Slice:
			n := 1 + r.intn(4)
			s := reflect.MakeSlice(t, n, n)
			for i := 0; i < n; i++ {
				el := s.Index(i)
				if el.Kind() == reflect.Pointer {
					np := reflect.New(el.Type().Elem())
					f.fill(np.Elem(), 0)
					el.Set(np)
				} else {
					f.fill(el, 0)
				}
			}
			p.Elem().Set(s)
		default:
			f.fill(p.Elem(), 0)
		}
		return p
	}
	if t.Kind() == reflect.Pointer {
		if v.IsNil() {
			return a
		}
		return mk(t.Elem()).Interface()
	}
	return mk(t).Elem().Interface()
}

// enlargeArgs: the same arguments with every non-empty slice argument stretched to a few hundred
// elements (element i is a copy of element i mod len, rotated by salt): nil when no argument is such a
// slice.
func enlargeArgs(args []any, salt int) []any {
	var out []any
	found := false
	for _, a := range args {
		if a == nil {
			out = append(out, a)
			continue
		}
		v := reflect.ValueOf(a)
		if v.Kind() == reflect.Slice && v.Len() > 0 {
			n := 300 + 17*salt
			s := reflect.MakeSlice(v.Type(), n, n)
			for i := 0; i < n; i++ {
				s.Index(i).Set(v.Index((i + salt) % v.Len()))
			}
			out = append(out, s.Interface())
			found = true
		} else {
			out = append(out, a)
		}
	}
	if !found {
		return nil
	}
	return out
}

// sameStarOtherTail: two statements whose generated-columns output starts with the same `&P.*` and goes
// on differently are prepared one after the other: the first still sends its own columns.
func sameStarOtherTail(viol func(prop, name, q, detail string)) {
	tails := [][2]string{{"&Address.id", "&Person.name"}, {"&Person.id, &Address.street", "&Address.id, &Person.name"}, {"&Address.*", "&Person.*"}}
	for _, n := range goodStructs {
		if n == "Person" || n == "Address" {
			continue
		}
		sample := zooByName(n)
		for _, tl := range tails {
			q1 := "SELECT (*) AS (&" + n + ".*, " + tl[0] + ") FROM t"
			q2 := "SELECT (*) AS (&" + n + ".*, " + tl[1] + ") FROM t"
			s1, err := sqlair.Prepare(q1, sample, Person{}, Address{})
			if err != nil {
				continue
			}
			ref := runOnce(s1, nil)
			if s2, err := sqlair.Prepare(q2, sample, Person{}, Address{}); err == nil {
				runOnce(s2, nil)
			}
			if got := runOnce(s1, nil); got != ref {
				d := "when new: " + trunc(ref, 250) + "  after preparing " + q2 + ": " + trunc(got, 250)
				for _, p := range []string{"C05", "C16", "C17", "C01"} {
					viol(p, "statement-sends-something-else-after-other-statements-were-prepared", q1, d)
				}
				return
			}
		}
	}
}

// wideInsertTwice: an INSERT of a struct with 70 optional columns is run twice on one Statement with as many
// omitted columns, but other ones, among the columns beyond the 64th (and among the first ones): the second
// run sends what a fresh Statement sends.
func wideInsertTwice(viol func(prop, name, q, detail string)) {
	q := "INSERT INTO t (*) VALUES ($HugeOmit.*)"
	mk := func(zero ...int) HugeOmit {
		var h HugeOmit
		v := reflect.ValueOf(&h).Elem()
		for i := 0; i < v.NumField(); i++ {
			v.Field(i).SetInt(int64(100 + i))
		}
		for _, z := range zero {
			v.Field(z).SetInt(0)
		}
		return h
	}
	for _, pair := range [][2][]int{{{65}, {64}}, {{69}, {66}}, {{3}, {4}}, {{1, 65}, {2, 66}}, {{63}, {64}}} {
		used, err := sqlair.Prepare(q, HugeOmit{})
		fresh, err2 := sqlair.Prepare(q, HugeOmit{})
		if err != nil || err2 != nil {
			viol("C07", "well-typed-statement-rejected", q, fmt.Sprint(err, err2))
			return
		}
		runOnce(used, []any{mk(pair[0]...)})
		got, want := runOnce(used, []any{mk(pair[1]...)}), runOnce(fresh, []any{mk(pair[1]...)})
		if got != want {
			d := fmt.Sprintf("columns %v zero in the first run, %v in the second; fresh Statement: %s  used Statement: %s", pair[0], pair[1], trunc(want, 200), trunc(got, 200))
			viol("C16", "depends-on-previous-run", q, d)
			viol("C04", "depends-on-previous-run", q, d)
		}
	}
}

// firstUseConcurrent: a struct type that is known to the library only through a member (its list of
// members has not been asked for yet) is used with an asterisk for the first time by several goroutines
// at once.  Every such Prepare succeeds, and afterwards the type's columns are its tags, each once, in
// sorted order, as for a type that was first used alone.
func firstUseConcurrent(viol func(prop, name, q, detail string)) int {
	done := 0
	for i, sample := range hugeSamples {
		name := hugeName(i)
		// every other type is not known to the library at all when the goroutines start (half of them
		// name a member, half the asterisk)
		unseen := i%2 == 1
		if !unseen {
			if _, err := sqlair.Prepare("SELECT &"+name+".c000 FROM t", sample); err != nil {
				viol("C07", "well-typed-statement-rejected", "SELECT &"+name+".c000 FROM t", err.Error())
				continue
			}
		}
		q := "SELECT &" + name + ".* FROM t"
		var wg sync.WaitGroup
		var mu sync.Mutex
		bad := ""
		start := make(chan struct{})
		for g := 0; g < 8; g++ {
			wg.Add(1)
			g := g
			go func() {
				defer wg.Done()
				defer func() {
					if rec := recover(); rec != nil {
						mu.Lock()
						bad = fmt.Sprintf("panic: %v", rec)
						mu.Unlock()
					}
				}()
				<-start
				qq := q
				if unseen && g%2 == 1 {
					qq = "SELECT &" + name + ".c007 FROM t"
				}
				if _, err := sqlair.Prepare(qq, sample); err != nil {
					mu.Lock()
					bad = err.Error()
					mu.Unlock()
				}
			}()
		}
		close(start)
		wg.Wait()
		if bad == "" {
			// alone, afterwards: accepted, and the generated columns are the sorted tags
			stmt, err := sqlair.Prepare(q, sample)
			if err != nil {
				bad = "afterwards, alone: " + err.Error()
			} else {
				got := runOnce(stmt, nil)
				var want []string
				for k := 0; k < 120; k++ {
					want = append(want, fmt.Sprintf("c%03d AS _sqlair_%d", k, k))
				}
				if !strings.Contains(got, "SELECT "+strings.Join(want, ", ")+" FROM t") {
					bad = "afterwards, alone: generated " + trunc(got, 300)
				}
			}
		}
		if bad != "" {
			viol("C07", "concurrent-prepare-differs", q, "first use of the type's member list by 8 goroutines at once: "+bad)
			viol("C16", "concurrent-prepare-differs", q, "first use of the type's member list by 8 goroutines at once: "+bad)
			viol("C05", "concurrent-prepare-differs", q, "first use of the type's member list by 8 goroutines at once: "+bad)
		}
		done++
	}
	return done
}

type determStats struct {
	Cases      int            `json:"cases"`
	Prepared   int            `json:"prepared"`
	Results    map[string]int `json:"result_kinds"`
	Reshaped   int            `json:"second_argument_shape_differs"`
	Concurrent int            `json:"concurrent_groups"`
	BigSlices  int            `json:"concurrent_groups_with_long_slices"`
	FirstUse   int            `json:"types_first_used_by_concurrent_prepares"`
	Runs       int            `json:"runs"`
	Samples    []string       `json:"samples"`
}

func cmdDeterm(args []string) int {
	fs := flag.NewFlagSet("determ", flag.ExitOnError)
	seed := fs.Uint64("seed", 1, "seed")
	n := fs.Int("n", 300, "number of generated cases")
	outDir := fs.String("out", ".", "output directory")
	fs.Parse(args)
	violFile, _ := os.Create(*outDir + "/oracle.jsonl")
	defer violFile.Close()
	w := bufio.NewWriter(violFile)
	defer w.Flush()
	nviol := 0
	viol := func(name, q, detail string) {
		props := []string{"C16"}
		switch name {
		case "query-built-earlier-runs-with-other-arguments":
			props = append(props, "C03") // the value behind a placeholder is not the one its expression names
		case "rejection-depends-on-previous-run":
			props = append(props, "C08") // arguments that must be rejected were accepted (or the reverse)
		}
		for _, p := range props {
			nviol++
			b, _ := json.Marshal(violation{p, name, hx(q), detail})
			w.Write(append(b, '\n'))
		}
	}
	viol2 := func(prop, name, q, detail string) {
		nviol++
		b, _ := json.Marshal(violation{prop, name, hx(q), detail})
		w.Write(append(b, '\n'))
	}
	go watchdogFor("C16", "concurrent-or-repeated-use-hangs", func(v violation) {
		nviol++
		b, _ := json.Marshal(v)
		w.Write(append(b, '\n'))
		w.Flush()
	})
	r := newRng(*seed)
	g := &bindGen{r: r, f: &filler{r: r.fork(), zeroP: 2, nilP: 1}}
	st := determStats{Results: map[string]int{}}
	st.FirstUse = firstUseConcurrent(viol2)
	wideInsertTwice(viol2)
	sameStarOtherTail(viol2)
	var prevQ, prevA1 string
	var prevSamples, prevArgs []any
	for st.Cases < *n {
		c := g.next()
		stmt1, err := sqlair.Prepare(c.query, c.samples...)
		if err != nil {
			continue
		}
		st.Cases++
		st.Prepared++
		currentCase.Store(c.query)
		caseStart.Store(time.Now().UnixNano())
		argsA := c.args
		var argsB []any
		for i, a := range argsA {
			argsB = append(argsB, reshape(r, a, st.Cases+i))
		}
		a1 := runOnce(stmt1, argsA)
		st.Results[strings.Fields(a1)[0]]++
		// repeated runs (map iteration order differs from run to run)
		for k := 0; k < 4; k++ {
			if a := runOnce(stmt1, argsA); a != a1 {
				viol("repeated-run-differs", c.query, a1+"  vs  "+a)
				break
			}
		}
		b1 := runOnce(stmt1, argsB)
		if b1 != a1 {
			st.Reshaped++
		}
		if a := runOnce(stmt1, argsA); a != a1 {
			viol("depends-on-previous-run", c.query, "before: "+a1+"  after running another shape: "+a)
		}
		if b := runOnce(stmt1, argsB); b != b1 {
			viol("depends-on-previous-run", c.query, "before: "+b1+"  after: "+b)
		}
		stmt2, err := sqlair.Prepare(c.query, c.samples...)
		if err != nil {
			viol("second-prepare-fails", c.query, err.Error())
			caseStart.Store(0)
			continue
		}
		if a := runOnce(stmt2, argsA); a != a1 {
			viol("separately-prepared-statement-differs", c.query, a1+"  vs  "+a)
		}
		// the other order on a fresh Statement: B first, then A
		stmt3, err := sqlair.Prepare(c.query, c.samples...)
		if err != nil {
			viol("third-prepare-fails", c.query, err.Error())
			caseStart.Store(0)
			continue
		}
		if b := runOnce(stmt3, argsB); b != b1 {
			viol("depends-on-previous-run", c.query, "on a fresh Statement: "+b+"  after running another shape first: "+b1)
		}
		if a := runOnce(stmt3, argsA); a != a1 {
			viol("depends-on-previous-run", c.query, "first run on a Statement: "+a1+"  after running another shape first: "+a)
		}
		st.Runs += 11
		// queries built first and run later: each must run with its own arguments
		p1 := buildPending(stmt1, argsA)
		p2 := buildPending(stmt1, argsB)
		p3 := buildPending(stmt2, argsA)
		if a := p1.run(); a != a1 {
			viol("query-built-earlier-runs-with-other-arguments", c.query, "built with A, then another query was built with B: want "+a1+"  got "+a)
		}
		if b := p2.run(); b != b1 {
			viol("query-built-earlier-runs-with-other-arguments", c.query, "want "+b1+"  got "+b)
		}
		if a := p3.run(); a != a1 {
			viol("query-built-earlier-runs-with-other-arguments", c.query, "want "+a1+"  got "+a)
		}
		// rejections must not depend on what ran before: no arguments at all, and after a run whose
		// inputs contributed nothing (empty slices, zero omitempty members)
		fresh, err := sqlair.Prepare(c.query, c.samples...)
		if err == nil {
			none := runOnce(fresh, nil)
			if x := runOnce(stmt1, nil); x != none {
				viol("rejection-depends-on-previous-run", c.query, "no arguments on a fresh Statement: "+none+"  after other runs: "+x)
			}
			var argsE []any
			for _, a := range argsA {
				argsE = append(argsE, emptied(a))
			}
			stE, err := sqlair.Prepare(c.query, c.samples...)
			if err == nil {
				runOnce(stE, argsE)
				if x := runOnce(stE, nil); x != none {
					viol("rejection-depends-on-previous-run", c.query, "no arguments on a fresh Statement: "+none+"  after a run with empty arguments: "+x)
				}
			}
		}
		st.Runs += 7
		// concurrent: fresh Prepare + run, and shared statement with A and B alternating
		if st.Cases%3 == 0 {
			st.Concurrent++
			var wg sync.WaitGroup
			var mu sync.Mutex
			bad := ""
			for gi := 0; gi < 8; gi++ {
				wg.Add(1)
				go func(gi int) {
					defer wg.Done()
					defer func() {
						if rec := recover(); rec != nil {
							mu.Lock()
							bad = "panic in goroutine: " + fmt.Sprint(rec)
							mu.Unlock()
						}
					}()
					var got, want string
					switch gi % 4 {
					case 0:
						s3, err := sqlair.Prepare(c.query, c.samples...)
						if err != nil {
							got, want = "prepare error: "+err.Error(), a1
						} else {
							got, want = runOnce(s3, argsA), a1
						}
					case 1:
						got, want = runOnce(stmt1, argsB), b1
					case 3:
						// meanwhile another query (the previous case) is being prepared and run
						if prevQ == "" {
							got, want = runOnce(stmt1, argsA), a1
							break
						}
						sp, err := sqlair.Prepare(prevQ, prevSamples...)
						if err != nil {
							got, want = "prepare error: "+err.Error(), prevA1
						} else {
							got, want = runOnce(sp, prevArgs), prevA1
						}
					default:
						got, want = runOnce(stmt1, argsA), a1
					}
					if got != want {
						mu.Lock()
						bad = "want " + want + "  got " + got
						mu.Unlock()
					}
				}(gi)
			}
			wg.Wait()
			st.Runs += 8
			if bad != "" {
				viol("concurrent-use-differs", c.query, bad)
			}
		}
		// concurrent binds of one Statement with long slices of different contents: every call must
		// get the elements of its own slice, in order
		if big := enlargeArgs(argsA, 0); big != nil && st.Cases%2 == 0 {
			st.BigSlices++
			const ng = 6
			var bigArgs [ng][]any
			var want [ng]string
			for gi := 0; gi < ng; gi++ {
				bigArgs[gi] = enlargeArgs(argsA, gi)
				want[gi] = runOnce(stmt1, bigArgs[gi])
			}
			var wg sync.WaitGroup
			var mu sync.Mutex
			bad := ""
			for gi := 0; gi < ng; gi++ {
				wg.Add(1)
				go func(gi int) {
					defer wg.Done()
					defer func() {
						if rec := recover(); rec != nil {
							mu.Lock()
							bad = "panic in goroutine: " + fmt.Sprint(rec)
							mu.Unlock()
						}
					}()
					for k := 0; k < 4; k++ {
						if got := runOnce(stmt1, bigArgs[gi]); got != want[gi] {
							mu.Lock()
							bad = "want " + trunc(want[gi], 300) + "  got " + trunc(got, 300)
							mu.Unlock()
							return
						}
					}
				}(gi)
			}
			wg.Wait()
			st.Runs += ng * 5
			if bad != "" {
				viol("concurrent-use-differs", c.query, "long slices: "+bad)
				viol2("C03", "concurrent-use-differs", c.query, "long slices: "+bad)
			}
		}
		// Prepare of this query and of the previous one from many goroutines at once: each call accepts or
		// rejects as it does alone, with the same error
		if prevQ != "" && st.Cases%2 == 1 {
			outcomeWith := func(q string, samples, args []any) string {
				stmt, err := sqlair.Prepare(q, samples...)
				if err != nil {
					return "ERR " + err.Error()
				}
				// what the prepared statement sends to the driver (the query's own text, expanded)
				return "OK " + runOnce(stmt, args)
			}
			outcome := func(q string, samples []any) string {
				if q == prevQ {
					return outcomeWith(q, samples, prevArgs)
				}
				return outcomeWith(q, samples, argsA)
			}
			wantCur, wantPrev := outcome(c.query, c.samples), outcome(prevQ, prevSamples)
			var wg sync.WaitGroup
			var mu sync.Mutex
			bad := ""
			for gi := 0; gi < 8; gi++ {
				wg.Add(1)
				go func(gi int) {
					defer wg.Done()
					defer func() {
						if rec := recover(); rec != nil {
							mu.Lock()
							bad = "panic in goroutine: " + fmt.Sprint(rec)
							mu.Unlock()
						}
					}()
					for k := 0; k < 25; k++ {
						var got, want string
						if (gi+k)%2 == 0 {
							got, want = outcome(c.query, c.samples), wantCur
						} else {
							got, want = outcome(prevQ, prevSamples), wantPrev
						}
						if got != want {
							mu.Lock()
							bad = "alone: " + trunc(want, 200) + "  among concurrent Prepare calls: " + trunc(got, 200)
							mu.Unlock()
							return
						}
					}
				}(gi)
			}
			wg.Wait()
			if bad != "" {
				viol("concurrent-prepare-differs", c.query, bad)
				viol2("C07", "concurrent-prepare-differs", c.query, bad)
				viol2("C01", "concurrent-prepare-differs", c.query, bad)
				viol2("C05", "concurrent-prepare-differs", c.query, bad)
			}
		}
		caseStart.Store(0)
		prevQ, prevSamples, prevArgs, prevA1 = c.query, c.samples, argsA, a1
		if st.Cases <= 2 || (st.Cases%(*n/4+1) == 0 && len(st.Samples) < 6) {
			st.Samples = append(st.Samples, c.query+" -> "+trunc(strings.ReplaceAll(a1, "\x1f", "|"), 160))
		}
	}
	sb, _ := json.MarshalIndent(st, "", " ")
	os.WriteFile(*outDir+"/stats.json", sb, 0o644)
	fmt.Printf("determ: %d cases, %d runs, %d oracle violations\n", st.Cases, st.Runs, nviol)
	return 0
}

func init() { commands["determ"] = cmdDeterm }
