package main

// C16: statements are immutable values.  For generated (query, samples,
// arguments A, arguments B of the same types but another shape):
//   - running A repeatedly on one Statement gives byte-identical SQL and
//     arguments (Go's map iteration order is re-randomised on every range);
//   - a separately prepared Statement gives the same;
//   - running B in between does not change what A produces afterwards;
//   - goroutines preparing the same query at the same time, and goroutines
//     running A and B on one shared Statement at the same time, all get the
//     sequential result.
// Built with -race (thorough tier) a data race is reported by the runtime and
// recorded as a violation with the report as detail.

import (
	"bufio"
	"context"
	"database/sql/driver"
	"encoding/json"
	"flag"
	"fmt"
	"os"
	"reflect"
	"strings"
	"sync"
	"time"

	"github.com/canonical/sqlair"
)

// runOnce runs stmt with args on a fresh fake database and returns the
// canonical observation: "OK kind sql args..." or "ERR class".
func runOnce(stmt *sqlair.Statement, args []any) (line string) {
	defer func() {
		if r := recover(); r != nil {
			line = "PANIC " + fmt.Sprint(r)
		}
	}()
	sqldb, f := openFake()
	defer dropFakeDB(f.name)
	defer sqldb.Close()
	f.rowsFor = func(sql string, _ []driver.NamedValue) *rowsScript {
		rs := defaultRows(sql)
		rs.Rows = nil
		return rs
	}
	db := sqlair.NewDB(sqldb)
	err := db.Query(context.Background(), stmt, args...).Run()
	var prep, run *event
	evs := f.log()
	for i := range evs {
		switch evs[i].Kind {
		case "prepare":
			if prep == nil {
				prep = &evs[i]
			}
		case "exec", "query":
			if run == nil {
				run = &evs[i]
			}
		}
	}
	if prep == nil {
		if err == nil {
			return "NO-EVENTS-NO-ERROR"
		}
		return "ERR " + classifyBindErr(err.Error())
	}
	parts := []string{"OK", prep.SQL}
	if run != nil {
		parts = append(parts, run.Kind)
		for _, a := range run.Args {
			parts = append(parts, a.Name+"="+printVal(reflect.ValueOf(a.Value)))
		}
	}
	return strings.Join(parts, " \x1f ")
}

// reshape builds another argument of the same type with other contents (other
// zero pattern, other slice length).
func reshape(r *rng, a any, salt int) any {
	if a == nil {
		return nil
	}
	v := reflect.ValueOf(a)
	t := v.Type()
	f := &filler{r: r.fork(), zeroP: (salt * 3) % 10, nilP: 2}
	f.counter = uint64(20000 + salt*100)
	mk := func(t reflect.Type) reflect.Value {
		p := reflect.New(t)
		switch t.Kind() {
		case reflect.Map:
			m := reflect.MakeMap(t)
			if t.Key().Kind() == reflect.String {
				for _, k := range mapKeys {
					kv := reflect.ValueOf(k).Convert(t.Key())
					ev := reflect.New(t.Elem()).Elem()
					f.fill(ev, 0)
					m.SetMapIndex(kv, ev)
				}
			}
			p.Elem().Set(m)
		case reflect.Slice:
			n := 1 + r.intn(4)
			s := reflect.MakeSlice(t, n, n)
			for i := 0; i < n; i++ {
				el := s.Index(i)
				if el.Kind() == reflect.Pointer {
					np := reflect.New(el.Type().Elem())
					f.fill(np.Elem(), 0)
					el.Set(np)
				} else {
					f.fill(el, 0)
				}
			}
			p.Elem().Set(s)
		default:
			f.fill(p.Elem(), 0)
		}
		return p
	}
	if t.Kind() == reflect.Pointer {
		if v.IsNil() {
			return a
		}
		return mk(t.Elem()).Interface()
	}
	return mk(t).Elem().Interface()
}

type determStats struct {
	Cases      int            `json:"cases"`
	Prepared   int            `json:"prepared"`
	Results    map[string]int `json:"result_kinds"`
	Reshaped   int            `json:"second_argument_shape_differs"`
	Concurrent int            `json:"concurrent_groups"`
	Runs       int            `json:"runs"`
	Samples    []string       `json:"samples"`
}

func cmdDeterm(args []string) int {
	fs := flag.NewFlagSet("determ", flag.ExitOnError)
	seed := fs.Uint64("seed", 1, "seed")
	n := fs.Int("n", 300, "number of generated cases")
	outDir := fs.String("out", ".", "output directory")
	fs.Parse(args)
	violFile, _ := os.Create(*outDir + "/oracle.jsonl")
	defer violFile.Close()
	w := bufio.NewWriter(violFile)
	defer w.Flush()
	nviol := 0
	viol := func(name, q, detail string) {
		nviol++
		b, _ := json.Marshal(violation{"C16", name, hx(q), detail})
		w.Write(append(b, '\n'))
	}
	go watchdogFor("C16", "concurrent-or-repeated-use-hangs", func(v violation) {
		nviol++
		b, _ := json.Marshal(v)
		w.Write(append(b, '\n'))
		w.Flush()
	})
	r := newRng(*seed)
	g := &bindGen{r: r, f: &filler{r: r.fork(), zeroP: 2, nilP: 1}}
	st := determStats{Results: map[string]int{}}
	for st.Cases < *n {
		c := g.next()
		stmt1, err := sqlair.Prepare(c.query, c.samples...)
		if err != nil {
			continue
		}
		st.Cases++
		st.Prepared++
		currentCase.Store(c.query)
		caseStart.Store(time.Now().UnixNano())
		argsA := c.args
		var argsB []any
		for i, a := range argsA {
			argsB = append(argsB, reshape(r, a, st.Cases+i))
		}
		a1 := runOnce(stmt1, argsA)
		st.Results[strings.Fields(a1)[0]]++
		// repeated runs (map iteration order differs from run to run)
		for k := 0; k < 4; k++ {
			if a := runOnce(stmt1, argsA); a != a1 {
				viol("repeated-run-differs", c.query, a1+"  vs  "+a)
				break
			}
		}
		b1 := runOnce(stmt1, argsB)
		if b1 != a1 {
			st.Reshaped++
		}
		if a := runOnce(stmt1, argsA); a != a1 {
			viol("depends-on-previous-run", c.query, "before: "+a1+"  after running another shape: "+a)
		}
		if b := runOnce(stmt1, argsB); b != b1 {
			viol("depends-on-previous-run", c.query, "before: "+b1+"  after: "+b)
		}
		stmt2, err := sqlair.Prepare(c.query, c.samples...)
		if err != nil {
			viol("second-prepare-fails", c.query, err.Error())
			caseStart.Store(0)
			continue
		}
		if a := runOnce(stmt2, argsA); a != a1 {
			viol("separately-prepared-statement-differs", c.query, a1+"  vs  "+a)
		}
		// the other order on a fresh Statement: B first, then A
		stmt3, err := sqlair.Prepare(c.query, c.samples...)
		if err != nil {
			viol("third-prepare-fails", c.query, err.Error())
			caseStart.Store(0)
			continue
		}
		if b := runOnce(stmt3, argsB); b != b1 {
			viol("depends-on-previous-run", c.query, "on a fresh Statement: "+b+"  after running another shape first: "+b1)
		}
		if a := runOnce(stmt3, argsA); a != a1 {
			viol("depends-on-previous-run", c.query, "first run on a Statement: "+a1+"  after running another shape first: "+a)
		}
		st.Runs += 11
		// concurrent: fresh Prepare + run, and shared statement with A and B alternating
		if st.Cases%3 == 0 {
			st.Concurrent++
			var wg sync.WaitGroup
			var mu sync.Mutex
			bad := ""
			for gi := 0; gi < 8; gi++ {
				wg.Add(1)
				go func(gi int) {
					defer wg.Done()
					defer func() {
						if rec := recover(); rec != nil {
							mu.Lock()
							bad = "panic in goroutine: " + fmt.Sprint(rec)
							mu.Unlock()
						}
					}()
					var got, want string
					switch gi % 4 {
					case 0:
						s3, err := sqlair.Prepare(c.query, c.samples...)
						if err != nil {
							got, want = "prepare error: "+err.Error(), a1
						} else {
							got, want = runOnce(s3, argsA), a1
						}
					case 1:
						got, want = runOnce(stmt1, argsB), b1
					default:
						got, want = runOnce(stmt1, argsA), a1
					}
					if got != want {
						mu.Lock()
						bad = "want " + want + "  got " + got
						mu.Unlock()
					}
				}(gi)
			}
			wg.Wait()
			st.Runs += 8
			if bad != "" {
				viol("concurrent-use-differs", c.query, bad)
			}
		}
		caseStart.Store(0)
		if st.Cases <= 2 || (st.Cases%(*n/4+1) == 0 && len(st.Samples) < 6) {
			st.Samples = append(st.Samples, c.query+" -> "+trunc(strings.ReplaceAll(a1, "\x1f", "|"), 160))
		}
	}
	sb, _ := json.MarshalIndent(st, "", " ")
	os.WriteFile(*outDir+"/stats.json", sb, 0o644)
	fmt.Printf("determ: %d cases, %d runs, %d oracle violations\n", st.Cases, st.Runs, nviol)
	return 0
}

func init() { commands["determ"] = cmdDeterm }
