package main

// A fingerprint of every function of the sqlair source the model mirrors: the
// SHA-256 of the comment-free printed declaration.  A changed fingerprint is
// not an alarm: the check lists the function in the evidence and generates
// more cases for the properties whose model mirrors that file.

import (
	"bytes"
	"crypto/sha256"
	"encoding/hex"
	"encoding/json"
	"fmt"
	"go/ast"
	"go/parser"
	"go/printer"
	"go/token"
	"os"
	"path/filepath"
	"sort"
	"strings"
)

func fingerprints(repo string) (map[string]string, error) {
	out := map[string]string{}
	for _, dir := range []string{".", "internal/expr", "internal/typeinfo"} {
		fset := token.NewFileSet()
		pkgs, err := parser.ParseDir(fset, filepath.Join(repo, dir), func(fi os.FileInfo) bool {
			n := fi.Name()
			return !strings.HasSuffix(n, "_test.go") && n != "verif_hooks.go"
		}, 0) // mode 0: comments are not kept
		if err != nil {
			return nil, err
		}
		for _, pkg := range pkgs {
			for fname, file := range pkg.Files {
				for _, d := range file.Decls {
					fd, ok := d.(*ast.FuncDecl)
					if !ok {
						continue
					}
					name := fd.Name.Name
					if fd.Recv != nil && len(fd.Recv.List) > 0 {
						var rb bytes.Buffer
						printer.Fprint(&rb, fset, fd.Recv.List[0].Type)
						name = strings.TrimPrefix(rb.String(), "*") + "." + name
					}
					var b bytes.Buffer
					printer.Fprint(&b, fset, fd)
					sum := sha256.Sum256(b.Bytes())
					rel, _ := filepath.Rel(repo, fname)
					out[rel+":"+name] = hex.EncodeToString(sum[:8])
				}
			}
		}
	}
	return out, nil
}

func cmdFingerprint(args []string) int {
	if len(args) != 2 {
		fmt.Fprintln(os.Stderr, "usage: harness fingerprint <repo> <out.json>")
		return 2
	}
	fp, err := fingerprints(args[0])
	if err != nil {
		fmt.Println("ERROR", err)
		return 2
	}
	keys := make([]string, 0, len(fp))
	for k := range fp {
		keys = append(keys, k)
	}
	sort.Strings(keys)
	var b bytes.Buffer
	b.WriteString("{\n")
	for i, k := range keys {
		kb, _ := json.Marshal(k)
		fmt.Fprintf(&b, " %s: %q", kb, fp[k])
		if i < len(keys)-1 {
			b.WriteString(",")
		}
		b.WriteString("\n")
	}
	b.WriteString("}\n")
	if err := os.WriteFile(args[1], b.Bytes(), 0o644); err != nil {
		fmt.Println("ERROR", err)
		return 2
	}
	fmt.Printf("fingerprint: %d functions\n", len(keys))
	return 0
}

func init() { commands["fingerprint"] = cmdFingerprint }
