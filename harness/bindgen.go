package main

// Typed statement / sample / argument generators for the binding layer
// (C03, C04, C05, C07, C08, C16).

import (
	"fmt"
	"os"
	"reflect"
	"strings"

	"github.com/canonical/sqlair"
	"verifharness/zoo2"
)

// zooTags returns the db tag names reachable in a struct type (through
// embedded structs), for generation only.
func zooTags(t reflect.Type) []string { return zooTagsSeen(t, map[reflect.Type]bool{}) }

func zooTagsSeen(t reflect.Type, seen map[reflect.Type]bool) []string {
	if seen[t] {
		return nil // a cycle of embedded pointers: Prepare rejects the type anyway
	}
	seen[t] = true
	defer delete(seen, t)
	var out []string
	for i := 0; i < t.NumField(); i++ {
		f := t.Field(i)
		tag := f.Tag.Get("db")
		if f.Anonymous && tag == "" {
			ft := f.Type
			if ft.Kind() == reflect.Pointer {
				ft = ft.Elem()
			}
			if ft.Kind() == reflect.Struct && f.IsExported() {
				out = append(out, zooTagsSeen(ft, seen)...)
			}
			continue
		}
		if tag == "" {
			continue
		}
		name := strings.Split(tag, ",")[0]
		if name != "" {
			out = append(out, name)
		}
	}
	return out
}

type bindCase struct {
	query   string
	samples []any
	args    []any
}

type bindGen struct {
	r     *rng
	f     *filler
	twin  *bindCase
	count int
}

// struct types that Prepare rejects (or that are odd): used now and then so that every statement form meets them
var badStructs = []string{"NoTags", "Unexported", "BadFlag", "BadEmpty", "BadQuote", "BadChar", "BadDigit", "DupTag", "DupEmbed", "Rec", "RecA", "RecRoot", "Page", "Page",
	"TagLoneQuote", "TagLoneDQuote", "TagLoneQuoteFlag", "TagEmptyQuoted", "TagEmptyDQuoted", "TagQuoteInside", "TagSpace", "TagTrailingComma", "TagTwoFlags", "TagDash", "TagStar", "TagUnderscore", "TagMixedQuotes"}

func (g *bindGen) structName() string {
	if g.r.chance(1, 15) {
		return g.r.pick(badStructs)
	}
	return g.r.pick(goodStructs)
}

func (g *bindGen) tagOf(name string) string {
	tags := zooTags(reflect.TypeOf(zooByName(name)))
	if len(tags) == 0 || g.r.chance(1, 25) {
		return g.r.pick([]string{"nosuch", "id", "x", "ID"})
	}
	return g.r.pick(tags)
}

var mapKeys = []string{"k1", "k2", "name", "id", "x", "\"q k\"", "añb", "7", "'it''s'", "Id", "NAME"}

type stmtPlan struct {
	parts []string
	types map[string]bool // type names used in the statement
	ins   map[string]bool // type names contributing inputs
}

func (p *stmtPlan) use(name string, input bool) {
	p.types[name] = true
	if input {
		p.ins[name] = true
	}
}

func (g *bindGen) inputExpr(p *stmtPlan) string {
	r := g.r
	switch r.intn(6) {
	case 0, 1, 2:
		n := g.structName()
		p.use(n, true)
		return "$" + n + "." + g.tagOf(n)
	case 3:
		n := r.pick(goodMaps)
		p.use(n, true)
		return "$" + n + "." + r.pick(mapKeys)
	case 4:
		n := r.pick(goodSlices)
		p.use(n, true)
		return "$" + n + "[:]"
	default:
		// a form applied to the wrong kind
		n := r.pick(append(append(append([]string{}, goodSlices...), goodMaps...), "Person", "Address", "Omit"))
		p.use(n, true)
		if r.chance(1, 2) {
			return "$" + n + ".x"
		}
		return "$" + n + "[:]"
	}
}

func (g *bindGen) insertExpr(p *stmtPlan) string {
	r := g.r
	switch r.intn(7) {
	case 0, 1:
		// (*) VALUES ($T.*, $M.k, $U.tag)
		var srcs []string
		n := 1 + r.intn(3)
		for i := 0; i < n; i++ {
			switch r.intn(4) {
			case 0, 1:
				t := g.structName()
				p.use(t, true)
				srcs = append(srcs, "$"+t+".*")
			case 2:
				t := g.structName()
				p.use(t, true)
				srcs = append(srcs, "$"+t+"."+g.tagOf(t))
			default:
				t := r.pick(goodMaps)
				if r.chance(1, 10) {
					t = r.pick(goodSlices) // a slice where a struct or map is expected
				}
				p.use(t, true)
				if r.chance(1, 6) {
					srcs = append(srcs, "$"+t+".*")
				} else {
					srcs = append(srcs, "$"+t+"."+r.pick(mapKeys))
				}
			}
		}
		return "(*) VALUES (" + strings.Join(srcs, ", ") + ")"
	case 2, 3, 4:
		// (cols) VALUES ($T.*, $M.*, $U.tag): columns from the types' tags, in a shuffled order
		var srcs []string
		var cols []string
		n := 1 + r.intn(3)
		mapUsed := 0
		for i := 0; i < n; i++ {
			switch r.intn(5) {
			case 0, 1, 2:
				t := g.structName()
				p.use(t, true)
				srcs = append(srcs, "$"+t+".*")
				tags := zooTags(reflect.TypeOf(zooByName(t)))
				for _, tg := range tags {
					if r.chance(2, 3) {
						cols = append(cols, tg)
					}
				}
			case 3:
				t := r.pick(goodMaps)
				p.use(t, true)
				srcs = append(srcs, "$"+t+".*")
				mapUsed++
				k := r.intn(3)
				for j := 0; j < k; j++ {
					cols = append(cols, r.pick(mapKeys))
				}
			default:
				t := g.structName()
				p.use(t, true)
				tg := g.tagOf(t)
				srcs = append(srcs, "$"+t+"."+tg)
				if r.chance(4, 5) {
					cols = append(cols, tg)
				}
			}
		}
		if len(cols) == 0 {
			cols = append(cols, "id")
		}
		// shuffle columns
		for i := len(cols) - 1; i > 0; i-- {
			j := r.intn(i + 1)
			cols[i], cols[j] = cols[j], cols[i]
		}
		if r.chance(1, 10) {
			cols = append(cols, "spare")
		}
		// a column that differs from a tag / key only by letter case is another column
		if r.chance(1, 8) {
			i := r.intn(len(cols))
			if r.chance(1, 2) {
				cols[i] = strings.ToUpper(cols[i])
			} else {
				cols[i] = strings.ToUpper(cols[i][:1]) + cols[i][1:]
			}
		}
		// shuffle sources
		for i := len(srcs) - 1; i > 0; i-- {
			j := r.intn(i + 1)
			srcs[i], srcs[j] = srcs[j], srcs[i]
		}
		return "(" + strings.Join(cols, ", ") + ") VALUES (" + strings.Join(srcs, ", ") + ")"
	default:
		// basic: (c1, c2) VALUES ($T.a, 'lit', $M.k)
		n := 1 + r.intn(4)
		var cols, vals, usedIn []string
		inputs := 0
		for i := 0; i < n; i++ {
			cols = append(cols, r.pick([]string{"c1", "c2", "name", "id", "t.c3", "\"q c\"", "c٣", "t٢.x", "/*pk*/çid", "/*id*/識別子", "`q'c`", "`a`"}))
			switch r.intn(4) {
			case 0:
				if len(usedIn) > 0 && r.chance(1, 3) {
					// a literal that mentions an input of this very statement inside a string, a quoted
					// identifier, a function argument or a comment: opaque text
					e := r.pick(usedIn)
					vals = append(vals, r.pick([]string{"'" + e + "'", "\"" + e + "\"", "f('" + e + "')", "/* " + e + " */ 1", "'a''" + e + "'", "2 -- " + e + "\n"}))
					break
				}
				vals = append(vals, r.pick([]string{"'lit'", "1", "NULL", "f(1, 'a,b')", "(1+2)", "'it''s'", "/* c */ 2",
					"'100% off'", "'%d %s %%'", "'a\x00b'", "/* \x00 */ 1", "/* 50%d */ 1", "'%!v(MISSING)'", "a % 2",
					"7 -- seven\n", "'x' -- k\r\n ", "1 ", "2\t", "3 /* three */ ", "now( )  "}))
			case 1:
				t := r.pick(goodMaps)
				p.use(t, true)
				vals = append(vals, "$"+t+"."+r.pick(mapKeys))
				usedIn = append(usedIn, vals[len(vals)-1], "$"+t+".*")
				inputs++
			default:
				t := g.structName()
				p.use(t, true)
				vals = append(vals, "$"+t+"."+g.tagOf(t))
				usedIn = append(usedIn, vals[len(vals)-1], "$"+t+".*")
				inputs++
			}
		}
		if inputs == 0 {
			t := g.structName()
			p.use(t, true)
			vals[0] = "$" + t + "." + g.tagOf(t)
		}
		if r.chance(1, 12) {
			cols = append(cols, "extra")
		}
		return "(" + strings.Join(cols, ", ") + ") VALUES (" + strings.Join(vals, ", ") + ")"
	}
}

func (g *bindGen) outputExpr(p *stmtPlan) string {
	r := g.r
	tbl := r.pick([]string{"", "", "t.", "p."})
	switch r.intn(9) {
	case 0, 1:
		t := g.structName()
		p.use(t, false)
		return "&" + t + ".*"
	case 2:
		t := g.structName()
		p.use(t, false)
		return "&" + t + "." + g.tagOf(t)
	case 3:
		t := r.pick(goodMaps)
		if r.chance(1, 10) {
			t = r.pick(goodSlices) // a slice as an output destination
			p.use(t, false)
			if r.chance(1, 2) {
				return "&" + t + ".*"
			}
		}
		p.use(t, false)
		return "&" + t + "." + r.pick(mapKeys)
	case 4:
		t := g.structName()
		p.use(t, false)
		return tbl + "* AS &" + t + ".*"
	case 5:
		t := g.structName()
		p.use(t, false)
		return tbl + r.pick([]string{"col", "name", "count(*)", "max(a, b)", "v٢", "f('50% off')"}) + " AS &" + t + "." + g.tagOf(t)
	case 6:
		// (a, b) AS &T.*  : columns must be tags of T
		t := g.structName()
		p.use(t, false)
		tags := zooTags(reflect.TypeOf(zooByName(t)))
		var cols []string
		for _, tg := range tags {
			if r.chance(1, 2) {
				cols = append(cols, tbl+tg)
			}
		}
		if len(cols) == 0 {
			cols = []string{"id"}
		}
		if r.chance(1, 3) {
			t = r.pick(goodMaps)
			p.use(t, false)
			if r.chance(1, 12) {
				// very many output columns into one map: aliases with two and three digits
				n := []int{63, 64, 65, 66, 127, 128, 129, 255, 256, 257}[r.intn(10)]
				cols = cols[:0]
				for i := 0; i < n; i++ {
					cols = append(cols, fmt.Sprintf("c%d", i))
				}
			}
		}
		return "(" + strings.Join(cols, ", ") + ") AS (&" + t + ".*)"
	case 7:
		// pairwise
		n := 1 + r.intn(3)
		var cols, tys []string
		for i := 0; i < n; i++ {
			cols = append(cols, tbl+r.pick([]string{"a", "b", "c", "name", "count(*)", "v٢", "日٣", "/*k*/ñ", "`b'`"}))
			if r.chance(1, 4) {
				t := r.pick(goodMaps)
				p.use(t, false)
				tys = append(tys, "&"+t+"."+r.pick(mapKeys))
			} else {
				t := g.structName()
				p.use(t, false)
				tys = append(tys, "&"+t+"."+g.tagOf(t))
			}
		}
		if r.chance(1, 10) {
			cols = append(cols, "extra")
		}
		// misplaced asterisks: one among several columns, one among several member types
		if r.chance(1, 8) {
			cols[r.intn(len(cols))] = tbl + "*"
		}
		if r.chance(1, 8) {
			t := g.structName()
			p.use(t, false)
			tys[r.intn(len(tys))] = "&" + t + ".*"
		}
		return "(" + strings.Join(cols, ", ") + ") AS (" + strings.Join(tys, ", ") + ")"
	default:
		// several types: * AS (&P.*, &A.id)
		n := 1 + r.intn(3)
		var tys []string
		for i := 0; i < n; i++ {
			t := g.structName()
			p.use(t, false)
			if r.chance(1, 2) {
				tys = append(tys, "&"+t+".*")
			} else {
				tys = append(tys, "&"+t+"."+g.tagOf(t))
			}
		}
		return "(" + tbl + "*) AS (" + strings.Join(tys, ", ") + ")"
	}
}

// argFor builds an argument for the named zoo type in one of many forms.
func (g *bindGen) argFor(name string, allowBulk bool) any {
	r := g.r
	sample := zooByName(name)
	t := reflect.TypeOf(sample)
	mk := func() reflect.Value {
		v := reflect.New(t)
		switch t.Kind() {
		case reflect.Map:
			m := reflect.MakeMap(t)
			for _, k := range mapKeys {
				if r.chance(4, 5) {
					kv := reflect.ValueOf(k).Convert(t.Key())
					ev := reflect.New(t.Elem()).Elem()
					g.f.fill(ev, 0)
					// a value that is itself a list (one placeholder, one argument: the list)
					if t.Elem().Kind() == reflect.Interface && t.Elem().NumMethod() == 0 && r.chance(1, 12) {
						ev.Set(reflect.ValueOf(r.pick2(any(sqlair.S{1, 2}), any(IntSlice{3, 5, 8}), any([]string{"a"}), any(Person{ID: 9}))))
					}
					m.SetMapIndex(kv, ev)
				} else if len(k) > 2 && (k[0] == '"' || k[0] == '\'') {
					// the key is missing, but its unquoted spelling is there: another key
					u := strings.ReplaceAll(strings.ReplaceAll(k[1:len(k)-1], "''", "'"), "\"\"", "\"")
					ev := reflect.New(t.Elem()).Elem()
					g.f.fill(ev, 0)
					m.SetMapIndex(reflect.ValueOf(u).Convert(t.Key()), ev)
				}
			}
			v.Elem().Set(m)
		case reflect.Slice:
			n := r.intn(4)
			if r.chance(1, 60) {
				// lengths around the powers of two (tables, packed keys and caches have such bounds)
				n = []int{63, 64, 65, 255, 256, 257, 1023, 1024, 1025, 4095, 4096, 4097}[r.intn(12)]
				if thoroughTier && r.chance(1, 300) {
					// (the extracted model is quadratic in the number of elements: a handful of these per run)
					n = []int{16383, 16384, 16385}[r.intn(3)]
				}
			}
			s := reflect.MakeSlice(t, n, n)
			for i := 0; i < n; i++ {
				g.f.fill(s.Index(i), 0)
			}
			v.Elem().Set(s)
		default:
			g.f.fill(v.Elem(), 0)
		}
		return v // pointer to the value
	}
	form := r.intn(20)
	switch {
	case form < 9:
		return mk().Elem().Interface()
	case form < 13:
		return mk().Interface()
	case form < 16 && allowBulk && t.Kind() != reflect.Slice:
		n := 1 + r.intn(3)
		if r.chance(1, 10) {
			n = 0
		}
		s := reflect.MakeSlice(reflect.SliceOf(t), 0, n)
		allZero := t.Kind() == reflect.Struct && r.chance(1, 5) // every omitempty member zero in every row
		for i := 0; i < n; i++ {
			if allZero {
				s = reflect.Append(s, reflect.Zero(t))
			} else {
				s = reflect.Append(s, mk().Elem())
			}
		}
		return s.Interface()
	case form < 18 && allowBulk && t.Kind() != reflect.Slice:
		n := 1 + r.intn(3)
		if r.chance(1, 10) {
			n = 0
		}
		if r.chance(1, 25) {
			return reflect.Zero(reflect.SliceOf(reflect.PointerTo(t))).Interface() // a nil []*T
		}
		s := reflect.MakeSlice(reflect.SliceOf(reflect.PointerTo(t)), 0, n)
		for i := 0; i < n; i++ {
			if r.chance(1, 12) {
				s = reflect.Append(s, reflect.Zero(reflect.PointerTo(t)))
			} else {
				s = reflect.Append(s, mk())
			}
		}
		return s.Interface()
	case form == 18:
		// nil variants
		switch r.intn(4) {
		case 0:
			return reflect.Zero(reflect.PointerTo(t)).Interface() // typed nil pointer
		case 1:
			return reflect.Zero(t).Interface() // zero value (nil map / nil slice / zero struct)
		case 2:
			p := mk()
			pp := reflect.New(p.Type())
			pp.Elem().Set(p)
			return pp.Interface() // **T
		default:
			return nil
		}
	default:
		// the zero value: every omitempty member is zero
		if t.Kind() == reflect.Struct {
			return reflect.Zero(t).Interface()
		}
		return mk().Elem().Interface()
	}
}

var oddArgs = []any{nil, 5, "str", struct{ X int }{}, map[string]any{"a": 1}, []int{1}, (*Person)(nil), 3.5, []any{1}, [][]int{}, &[]Person{{ID: 1}}, sqlair.M(nil), zoo2.Person{ID: 4, Name: "v9"}, zoo2.M{"k1": 1}, []zoo2.Person{{ID: 1}}, &sqlair.S{1, 2}}

// next returns the next case.  Every eighth case is followed by a twin that differs from it only by
// white space inside a string literal and inside a comment of the pass-through text.
func (g *bindGen) next() bindCase {
	if g.twin != nil {
		c := *g.twin
		g.twin = nil
		return c
	}
	c := g.next1()
	g.count++
	if g.count%8 == 0 && !strings.Contains(c.query, "\x00") {
		a := c
		a.query = c.query + " AND note = 'it''s a b' /* keep  this */"
		b := c
		b.query = c.query + " AND note = 'it''s a  b' /* keep this */"
		g.twin = &b
		return a
	}
	return c
}

// bulkPair: an asterisk insert from two bulk slices, the second of a type whose members are all
// omitempty (so that its columns disappear when every row is zero), of equal or different lengths.
func (g *bindGen) bulkPair() bindCase {
	r := g.r
	t1 := r.pick([]string{"Person", "Address", "Omit", "PtrFields"})
	first, second := t1, "AutoID"
	if r.chance(1, 3) {
		first, second = "AutoID", t1
	}
	c := bindCase{query: "INSERT INTO t (*) VALUES ($" + first + ".*, $" + second + ".*)"}
	c.samples = []any{zooByName(first), zooByName(second)}
	mkSlice := func(name string, n int, zero bool) any {
		t := reflect.TypeOf(zooByName(name))
		s := reflect.MakeSlice(reflect.SliceOf(t), 0, n)
		for i := 0; i < n; i++ {
			el := reflect.New(t).Elem()
			if !zero {
				ff := &filler{r: r.fork(), zeroP: 0, nilP: 0}
				ff.counter = uint64(3000 + 10*i)
				ff.fill(el, 0)
			}
			s = reflect.Append(s, el)
		}
		return s.Interface()
	}
	n1 := 1 + r.intn(3)
	n2 := n1
	if r.chance(2, 3) {
		n2 = 1 + r.intn(3)
	}
	z1 := first == "AutoID" && r.chance(2, 3)
	z2 := second == "AutoID" && r.chance(2, 3)
	c.args = []any{mkSlice(first, n1, z1), mkSlice(second, n2, z2)}
	return c
}

// lay varies the layout of a piece of pass-through text that ends in a blank: in one case out of five
// the last blank becomes a newline, a tab, CRLF, or a comment (a `--` comment ends at its newline, so
// what follows starts in column 1).
func (g *bindGen) lay(s string) string {
	i := strings.LastIndexByte(s, ' ')
	if i < 0 || !g.r.chance(1, 5) {
		return s
	}
	return s[:i] + g.r.pick([]string{"\n", "\t", "\r\n", " -- c\n", " /* c */ ", "\n-- $T.x 'q\n", " /* ' */", " -- \x00 $Person.id 'q\n", " /* \x00 $M.k1 */ ", " /** d **/ ", " /***/ ", "/* x **/", " /****/ "}) + s[i+1:]
}

// manyTypes: a statement that names exactly k types (k around the powers of two), one output each, with
// exactly those samples.
func (g *bindGen) manyTypes() bindCase {
	r := g.r
	k := []int{7, 8, 9, 15, 16, 17}[r.intn(6)]
	if r.chance(1, 12) {
		return g.veryManyTypes()
	}
	names := append([]string{}, goodStructs...)
	for i := len(names) - 1; i > 0; i-- {
		j := r.intn(i + 1)
		names[i], names[j] = names[j], names[i]
	}
	seen := map[string]bool{}
	var outs []string
	c := bindCase{}
	for _, n := range names {
		if seen[n] || len(outs) == k {
			continue
		}
		seen[n] = true
		tags := zooTags(reflect.TypeOf(zooByName(n)))
		if len(tags) == 0 {
			continue
		}
		outs = append(outs, "x AS &"+n+"."+tags[0])
		c.samples = append(c.samples, zooByName(n))
	}
	c.query = "SELECT " + strings.Join(outs, ", ") + " FROM t"
	return c
}

// veryManyTypes: a statement naming 63..66 types (the 48 generated wide types and zoo types), one member each.
func (g *bindGen) veryManyTypes() bindCase {
	r := g.r
	k := []int{63, 64, 65, 66}[r.intn(4)]
	c := bindCase{}
	var outs []string
	for i := range hugeSamples {
		outs = append(outs, "x AS &"+hugeName(i)+".c000")
		c.samples = append(c.samples, hugeSamples[i])
	}
	seen := map[string]bool{}
	for _, n := range goodStructs {
		if len(outs) >= k {
			break
		}
		tags := zooTags(reflect.TypeOf(zooByName(n)))
		if seen[n] || len(tags) == 0 {
			continue
		}
		seen[n] = true
		outs = append(outs, "x AS &"+n+"."+tags[0])
		c.samples = append(c.samples, zooByName(n))
	}
	c.query = "SELECT " + strings.Join(outs, ", ") + " FROM t"
	return c
}

// thoroughTier: the deep tier also probes sizes around 2^14 .. 2^16.
var thoroughTier = os.Getenv("VERIF_TIER") == "thorough"

// wideSelect: a statement with very many output columns (into a map, plus a wide struct), and sometimes as
// many inputs: alias and placeholder numbers with two and three digits.
func (g *bindGen) wideSelect() bindCase {
	r := g.r
	n := []int{62, 63, 64, 65, 66, 127, 128, 129, 255, 256, 257}[r.intn(11)]
	if r.chance(1, 10) {
		n = []int{1023, 1024, 1025, 1026}[r.intn(4)]
	}
	var cols []string
	for i := 0; i < n; i++ {
		cols = append(cols, fmt.Sprintf("c%d", i))
	}
	q := "SELECT (" + strings.Join(cols, ", ") + ") AS (&M.*)"
	c := bindCase{samples: []any{sqlair.M{}}}
	if r.chance(1, 2) {
		q += ", &Wide.*"
		c.samples = append(c.samples, Wide{})
	}
	q += " FROM t"
	if r.chance(1, 2) {
		q += " WHERE id IN ($IntSlice[:])"
		c.samples = append(c.samples, IntSlice{})
		c.args = append(c.args, make(IntSlice, n))
	}
	c.query = q
	return c
}

func (g *bindGen) next1() bindCase {
	r := g.r
	if r.chance(1, 40) {
		return g.bulkPair()
	}
	if r.chance(1, 100) {
		return g.wideSelect()
	}
	if r.chance(1, 80) {
		return g.manyTypes()
	}
	p := &stmtPlan{types: map[string]bool{}, ins: map[string]bool{}}
	var b strings.Builder
	hasInsert := false
	kind := r.intn(10)
	switch {
	case kind < 3: // select with outputs and inputs
		b.WriteString(g.lay("SELECT "))
		n := 1 + r.intn(2)
		for i := 0; i < n; i++ {
			if i > 0 {
				b.WriteString(g.lay(", "))
			}
			if r.chance(1, 10) {
				// an ordinary SQL alias after a call that contains an input: no output expression here
				in := g.inputExpr(p)
				b.WriteString(r.pick([]string{"coalesce(nick, " + in + ") AS display, ", "CAST(" + in + " AS INTEGER) AS factor, ", "max(" + in + ") AS top, ", "(lower(" + in + "), b) AS x, "}))
			}
			b.WriteString(g.outputExpr(p))
		}
		b.WriteString(g.lay(" FROM t"))
		k := r.intn(3)
		for i := 0; i < k; i++ {
			if i == 0 {
				b.WriteString(g.lay(" WHERE x = "))
			} else {
				b.WriteString(g.lay(" AND y IN ("))
			}
			b.WriteString(g.inputExpr(p))
			if i > 0 {
				b.WriteString(")")
			}
		}
	case kind < 7: // insert
		hasInsert = true
		b.WriteString(g.lay("INSERT INTO t "))
		b.WriteString(g.insertExpr(p))
		if r.chance(1, 5) {
			b.WriteString(g.lay(" RETURNING "))
			b.WriteString(g.outputExpr(p))
		}
	case kind < 9: // update / delete with inputs
		b.WriteString(g.lay("UPDATE t SET a = "))
		b.WriteString(g.inputExpr(p))
		k := r.intn(3)
		for i := 0; i < k; i++ {
			b.WriteString(g.lay(" , b = "))
			b.WriteString(g.inputExpr(p))
		}
	default: // mixture
		n := 1 + r.intn(4)
		for i := 0; i < n; i++ {
			b.WriteString(g.lay(" x "))
			switch r.intn(3) {
			case 0:
				b.WriteString(g.inputExpr(p))
			case 1:
				b.WriteString(g.outputExpr(p))
			default:
				hasInsert = true
				b.WriteString(g.insertExpr(p))
			}
		}
	}
	c := bindCase{query: b.String()}
	// samples
	for name := range p.types {
		_ = name
	}
	names := sortedKeys(p.types)
	for _, n := range names {
		if r.chance(1, 30) {
			continue // missing sample
		}
		c.samples = append(c.samples, zooByName(n))
		if r.chance(1, 40) {
			c.samples = append(c.samples, zooByName(n)) // duplicate
		}
	}
	if r.chance(1, 25) {
		c.samples = append(c.samples, zooSamples[r.intn(len(zooSamples))].sample) // extra / bad sample
	}
	if r.chance(1, 30) {
		c.samples = append(c.samples, oddSamples[r.intn(len(oddSamples))])
	}
	// shuffle samples
	for i := len(c.samples) - 1; i > 0; i-- {
		j := r.intn(i + 1)
		c.samples[i], c.samples[j] = c.samples[j], c.samples[i]
	}
	// args
	inNames := sortedKeys(p.ins)
	for _, n := range inNames {
		if r.chance(1, 25) {
			continue // missing argument
		}
		c.args = append(c.args, g.argFor(n, hasInsert || r.chance(1, 8)))
		if r.chance(1, 40) {
			c.args = append(c.args, g.argFor(n, hasInsert))
		}
	}
	if r.chance(1, 20) {
		c.args = append(c.args, oddArgs[r.intn(len(oddArgs))])
	}
	if r.chance(1, 25) {
		c.args = append(c.args, g.argFor(r.pick(goodStructs), false)) // argument of an unused type
	}
	// a different type that merely has the same name as an input type, passed next to the real one
	if r.chance(1, 12) {
		for _, n := range inNames {
			switch n {
			case "Person":
				c.args = append(c.args, zoo2.Person{ID: 4, Name: "v9"})
			case "M":
				c.args = append(c.args, zoo2.M{"k1": 1, "name": 2, "id": 3})
			case "IntSlice":
				c.args = append(c.args, zoo2.IntSlice{5, 6})
			}
		}
	}
	// a named slice type (or a slice of a named pointer type) over the struct an insert takes, in place of
	// the argument: not an argument the statement uses
	if hasInsert && r.chance(1, 12) {
		for i, a := range c.args {
			switch x := a.(type) {
			case Person:
				c.args[i] = r.pick2(any(PersonSlice{x, x}), any(PersonPtrs{&x}), any([]PersonPtr{&x}))
			case *Person:
				if x != nil {
					c.args[i] = r.pick2(any(PersonSlice{*x}), any(PersonPtrs{x, x}), any([]PersonPtr{x}))
				}
			case []Person:
				c.args[i] = PersonSlice(x)
			case []*Person:
				c.args[i] = PersonPtrs(x)
			case Address:
				c.args[i] = AddressSlice{x, x}
			case []Address:
				c.args[i] = AddressSlice(x)
			}
		}
	}
	// a fixed-size array of the struct (or of pointers to it) in place of the argument: not a form an insert takes
	if hasInsert && r.chance(1, 15) {
		for i, a := range c.args {
			if a == nil {
				continue
			}
			v := reflect.ValueOf(a)
			if v.Kind() == reflect.Struct || (v.Kind() == reflect.Pointer && !v.IsNil() && v.Elem().Kind() == reflect.Struct) {
				arr := reflect.New(reflect.ArrayOf(2, v.Type())).Elem()
				arr.Index(0).Set(v)
				arr.Index(1).Set(v)
				if r.chance(1, 2) {
					c.args[i] = arr.Interface()
				} else {
					c.args[i] = arr.Addr().Interface()
				}
				break
			}
		}
	}
	// a bulk slice given both as []T and as []*T (with other values) in one call
	if hasInsert && r.chance(1, 5) {
		for _, a := range c.args {
			if a == nil {
				continue
			}
			v := reflect.ValueOf(a)
			t := v.Type()
			if t.Kind() != reflect.Slice || t.Name() != "" || v.Len() == 0 {
				continue
			}
			switch {
			case t.Elem().Kind() == reflect.Struct:
				o := reflect.MakeSlice(reflect.SliceOf(reflect.PointerTo(t.Elem())), 0, v.Len())
				for i := 0; i < v.Len(); i++ {
					p := reflect.New(t.Elem())
					g.f.fill(p.Elem(), 0)
					o = reflect.Append(o, p)
				}
				c.args = append(c.args, o.Interface())
			case t.Elem().Kind() == reflect.Pointer && t.Elem().Elem().Kind() == reflect.Struct:
				o := reflect.MakeSlice(reflect.SliceOf(t.Elem().Elem()), v.Len(), v.Len())
				for i := 0; i < v.Len(); i++ {
					g.f.fill(o.Index(i), 0)
				}
				c.args = append(c.args, o.Interface())
			}
			break
		}
	}
	for i := len(c.args) - 1; i > 0; i-- {
		j := r.intn(i + 1)
		c.args[i], c.args[j] = c.args[j], c.args[i]
	}
	return c
}

func sortedKeys(m map[string]bool) []string {
	var out []string
	for k := range m {
		out = append(out, k)
	}
	for i := 0; i < len(out); i++ {
		for j := i + 1; j < len(out); j++ {
			if out[j] < out[i] {
				out[i], out[j] = out[j], out[i]
			}
		}
	}
	return out
}
