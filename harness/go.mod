module verifharness

go 1.18

require (
	github.com/canonical/sqlair v0.0.0
	github.com/mattn/go-sqlite3 v1.14.16
)

replace github.com/canonical/sqlair => /repo
