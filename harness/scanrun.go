package main

// C06: the result-scanning path.  A statement with output expressions is
// prepared and run with Get on the fake driver, which answers with one row
// whose columns are the generated aliases in a seeded permutation, with
// foreign columns interleaved, an alias dropped / duplicated / out of range,
// and NULL cells.  Observable: the error class and every destination value
// afterwards (deep dump).  The same request goes to the model (Model/Scan.v).

import (
	"bufio"
	"context"
	"database/sql"
	"database/sql/driver"
	"encoding/hex"
	"encoding/json"
	"errors"
	"flag"
	"fmt"
	"os"
	"reflect"
	"regexp"
	"strconv"
	"strings"
	"sync"
	"sync/atomic"
	"time"

	"github.com/canonical/sqlair"
	"verifharness/zoo2"
)

// scanLeaf: types whose pointer implements sql.Scanner are leaves in the scan
// view: (identity of the raw value their Scan stored, IsZero).
func scanLeaf(v reflect.Value) (uint64, bool) {
	if v.Kind() == reflect.Pointer || !v.CanInterface() || !reflect.PointerTo(v.Type()).Implements(scannerIface) {
		return 0, false
	}
	switch x := v.Interface().(type) {
	case Money:
		return uint64(x.cents), true
	case Amount:
		return uint64(x.Cents), true
	case PtrValuer:
		return uint64(x.N), true
	case sql.NullInt64:
		return uint64(x.Int64), true
	case Counted:
		return uint64(x.V), true
	}
	return 0, true
}

// scanLeafZero: whether a Scanner-typed leaf holds "nothing" (what the model's zero flag means)
func scanLeafZero(v reflect.Value) bool {
	if c, ok := v.Interface().(Counted); ok {
		return c.V == 0
	}
	if a, ok := v.Interface().(Amount); ok {
		return a.Cents == 0 // (the currency is not part of what Scan stores)
	}
	return v.IsZero()
}

// dumpDestVal: dumpVal with scanner types as leaves.
func dumpDestVal(v reflect.Value) string {
	if !v.IsValid() {
		return "(leaf 0 1)"
	}
	if id, ok := scanLeaf(v); ok {
		return fmt.Sprintf("(leaf %d %d)", id, b2i(scanLeafZero(v)))
	}
	switch v.Kind() {
	case reflect.Struct:
		s := "(struct"
		for i := 0; i < v.NumField(); i++ {
			s += " " + dumpDestVal(v.Field(i))
		}
		return s + ")"
	case reflect.Pointer:
		if v.IsNil() {
			return "nilptr"
		}
		return "(ptr " + dumpDestVal(v.Elem()) + ")"
	case reflect.Interface:
		if v.IsNil() {
			return "(leaf 0 1)"
		}
		return dumpDestVal(v.Elem())
	case reflect.Map:
		if v.Type().Key().Kind() != reflect.String {
			return fmt.Sprintf("(leaf 0 %d)", b2i(v.IsZero()))
		}
		s := fmt.Sprintf("(map %d", b2i(v.IsNil()))
		for _, k := range sortedMapKeys(v) {
			s += fmt.Sprintf(" (%s %s)", hx(k.String()), dumpDestVal(v.MapIndex(k)))
		}
		return s + ")"
	case reflect.Slice:
		s := fmt.Sprintf("(slice %d", b2i(v.IsNil()))
		for i := 0; i < v.Len(); i++ {
			s += " " + dumpDestVal(v.Index(i))
		}
		return s + ")"
	}
	return fmt.Sprintf("(leaf %d %d)", leafID(v), b2i(v.IsZero()))
}

func sortedMapKeys(v reflect.Value) []reflect.Value {
	keys := v.MapKeys()
	for i := 0; i < len(keys); i++ {
		for j := i + 1; j < len(keys); j++ {
			if keys[j].String() < keys[i].String() {
				keys[i], keys[j] = keys[j], keys[i]
			}
		}
	}
	return keys
}

// printDest: the format of the model's print_dest.
func printDest(v reflect.Value) string {
	if !v.IsValid() {
		return "z"
	}
	if id, ok := scanLeaf(v); ok {
		if scanLeafZero(v) {
			return "z"
		}
		return "l" + strconv.FormatUint(id, 10)
	}
	switch v.Kind() {
	case reflect.Struct:
		var parts []string
		for i := 0; i < v.NumField(); i++ {
			parts = append(parts, printDest(v.Field(i)))
		}
		return "s(" + strings.Join(parts, ",") + ")"
	case reflect.Pointer:
		if v.IsNil() {
			return "nil"
		}
		return "p(" + printDest(v.Elem()) + ")"
	case reflect.Interface:
		if v.IsNil() {
			return "z"
		}
		return printDest(v.Elem())
	case reflect.Map:
		if v.Type().Key().Kind() != reflect.String {
			if v.IsZero() {
				return "z"
			}
			return "l0"
		}
		if v.IsNil() {
			return "nilmap"
		}
		var parts []string
		for _, k := range sortedMapKeys(v) {
			parts = append(parts, hx(k.String())+"="+printDest(v.MapIndex(k)))
		}
		return "m(" + strings.Join(parts, ",") + ")"
	case reflect.Slice:
		if v.IsNil() {
			return "nilslice"
		}
		var parts []string
		for i := 0; i < v.Len(); i++ {
			parts = append(parts, printDest(v.Index(i)))
		}
		return "v(" + strings.Join(parts, ",") + ")"
	}
	if v.IsZero() {
		return "z"
	}
	return "l" + strconv.FormatUint(leafID(v), 10)
}

// the inner value of a destination argument (what ValidateOutputs keeps)
func destInner(a any) (reflect.Value, bool) {
	v := reflect.ValueOf(a)
	if !v.IsValid() {
		return v, false
	}
	if v.Kind() == reflect.Pointer {
		if v.IsNil() {
			return v, false
		}
		return v.Elem(), true
	}
	return v, true
}

func dumpDestArgs(env *typeEnv, dests []any) string {
	var parts []string
	for _, a := range dests {
		if a == nil {
			parts = append(parts, "nil")
			continue
		}
		v := reflect.ValueOf(a)
		parts = append(parts, fmt.Sprintf("(%d %s)", env.id(v.Type()), dumpDestVal(v)))
	}
	return "(" + strings.Join(parts, " ") + ")"
}

func printDests(dests []any) string {
	var parts []string
	for _, a := range dests {
		if v, ok := destInner(a); ok {
			parts = append(parts, printDest(v))
		} else {
			parts = append(parts, "?")
		}
	}
	return strings.Join(parts, " ")
}

var scanErrPats = []errPat{
	{"need-ptr-to-struct", regexp.MustCompile(`need map or pointer to struct, got pointer to`)},
	{"need-map-or-ptr", regexp.MustCompile(`need map or pointer to struct, got`)},
	{"nil-arg", regexp.MustCompile(`got nil argument`)},
	{"nil-pointer", regexp.MustCompile(`got nil pointer to`)},
	{"dup-arg", regexp.MustCompile(`provided more than once`)},
	{"few-columns", regexp.MustCompile(`column\(s\) in the query results, got`)},
	{"column-not-in-outputs", regexp.MustCompile(`sqlair column not in outputs`)},
	{"output-column-missing", regexp.MustCompile(`not found in query results`)},
	{"output-arg-unused", regexp.MustCompile(`not referenced in query$`)},
	{"same-name-arg", regexp.MustCompile(`missing, have type with same name`)},
	{"arg-missing", regexp.MustCompile(`parameter with type ".*" missing`)},
	{"nil-embedded", regexp.MustCompile(`nil pointer to embedded struct`)},
	{"conv", regexp.MustCompile(`sql: Scan error|converting|unsupported Scan|cannot scan`)},
	{"nil-map", regexp.MustCompile(`got nil \S*$`)},
	{"INTERNAL", regexp.MustCompile(`internal error`)},
}

func classifyScanErr(msg string) string {
	for _, p := range scanErrPats {
		if p.re.MatchString(msg) {
			return p.class
		}
	}
	return "other"
}

type scanCase struct {
	query    string
	samples  []any
	inargs   []any
	dests    []any
	mode     int        // column script mode
	colSeed  uint64     // seed for the permutation / foreign columns / cells
	cols     []string   // filled by the driver callback
	cells    []string   // "null" or the id
	rowCells [][]string // GetAll: the cells of every row
}

var foreignNames = []string{"0", "1", "7", "+2", "id", "name", "x", "count(*)", "_sqlair_", "_sqlair_x", "_sqlair_-1", "_SQLAIR_0", "sqlair_0", "_sqlair_1x", "col", "", "t._sqlair_0", "audit._sqlair_1", "x.y._sqlair_2", "._sqlair_0", "_sqlair_0.", "t.id",
	// numbers no int holds (strconv.Atoi: value out of range): not aliases
	"_sqlair_9223372036854775808", "_sqlair_18446744073709551615", "_sqlair_18446744073709551616", "_sqlair_99999999999999999999",
	"_sqlair_-9223372036854775809", "_sqlair_9223372036854775808000", "_sqlair_12345678901234567890"}
var aliasLike = []string{"_sqlair_+0", "_sqlair_00", "_sqlair_-0", "_sqlair_01", "_sqlair_000000000000000000000000", "_sqlair_+00000000000000000000001"}

// colScript builds the columns and the row for a statement with n outputs.
func colScript(mode int, seed uint64, n int) (cols []string, row []driver.Value, cells []string) {
	r := newRng(seed)
	var names []string
	for i := 0; i < n; i++ {
		names = append(names, "_sqlair_"+strconv.Itoa(i))
	}
	switch mode {
	case 1: // an alias is missing, replaced by a foreign column
		if n > 0 {
			names[r.intn(n)] = r.pick(foreignNames)
		}
	case 2: // an alias twice
		if n > 0 {
			names = append(names, names[r.intn(n)])
		}
	case 3: // an alias beyond the outputs
		names = append(names, "_sqlair_"+strconv.Itoa(n+r.intn(2)))
	case 4: // fewer columns than outputs
		if n > 0 {
			k := r.intn(n)
			names = append(names[:k], names[k+1:]...)
		}
	case 5: // names that parse as an alias in unusual spellings
		names = append(names, r.pick(aliasLike))
	}
	// foreign columns
	if mode != 4 {
		k := r.intn(4)
		for i := 0; i < k; i++ {
			names = append(names, r.pick(foreignNames))
		}
	}
	// permutation
	for i := len(names) - 1; i > 0; i-- {
		j := r.intn(i + 1)
		names[i], names[j] = names[j], names[i]
	}
	if mode == 6 { // no permutation at all: aliases in order (the tests' case)
		names = names[:0]
		for i := 0; i < n; i++ {
			names = append(names, "_sqlair_"+strconv.Itoa(i))
		}
	}
	next := 2 + r.intn(20)
	for range names {
		if r.chance(1, 6) {
			row = append(row, nil)
			cells = append(cells, "null")
		} else {
			row = append(row, int64(next))
			cells = append(cells, strconv.Itoa(next))
			next++
			if next > 120 {
				next = 2
			}
		}
	}
	return names, row, cells
}

type scanGen struct {
	g *bindGen
}

var reOutType = regexp.MustCompile(`&([A-Za-z0-9_]+)\.`)

func (sg *scanGen) destFor(name string) any {
	r := sg.g.r
	sample := zooByName(name)
	t := reflect.TypeOf(sample)
	p := reflect.New(t)
	switch t.Kind() {
	case reflect.Map:
		m := reflect.MakeMap(t)
		for _, k := range mapKeys {
			if r.chance(1, 3) {
				kv := reflect.ValueOf(k).Convert(t.Key())
				ev := reflect.New(t.Elem()).Elem()
				sg.g.f.fill(ev, 0)
				m.SetMapIndex(kv, ev)
			}
		}
		p.Elem().Set(m)
		switch r.intn(40) {
		case 0, 3, 4, 5:
			return p.Interface() // *M
		case 1:
			return reflect.Zero(t).Interface() // nil map
		case 2:
			return reflect.New(t).Interface() // pointer to nil map
		}
		return m.Interface()
	default:
		sg.g.f.fill(p.Elem(), 0)
		switch r.intn(60) {
		case 0:
			return p.Elem().Interface() // struct by value
		case 1:
			return reflect.Zero(reflect.PointerTo(t)).Interface() // typed nil pointer
		case 2:
			pp := reflect.New(reflect.PointerTo(t))
			pp.Elem().Set(p)
			return pp.Interface() // **T
		}
		return p.Interface()
	}
}

var oddDests = []any{nil, 5, "str", &[]int{1}, []Person{{ID: 1}}, new(int), &zoo2.Person{ID: 3}, zoo2.M{"k1": 1}, struct{ X int }{}, &struct{ X int }{}}

func (sg *scanGen) next() scanCase {
	g := sg.g
	r := g.r
	pOut := &stmtPlan{types: map[string]bool{}, ins: map[string]bool{}}
	pIn := &stmtPlan{types: map[string]bool{}, ins: map[string]bool{}}
	var b strings.Builder
	b.WriteString("SELECT ")
	n := 1
	if r.chance(1, 3) {
		n = 2 + r.intn(2)
	}
	for i := 0; i < n; i++ {
		if i > 0 {
			b.WriteString(", ")
		}
		b.WriteString(g.outputExpr(pOut))
	}
	b.WriteString(" FROM t")
	if r.chance(1, 3) {
		b.WriteString(" WHERE x = ")
		b.WriteString(g.inputExpr(pIn))
	}
	if r.chance(1, 50) {
		// very many columns into one map destination (bookkeeping per output: bit masks, tables)
		nc := []int{63, 64, 65, 66, 127, 128, 129, 130}[r.intn(8)]
		var cols []string
		for i := 0; i < nc; i++ {
			cols = append(cols, fmt.Sprintf("c%d", i))
		}
		b.Reset()
		b.WriteString("SELECT (" + strings.Join(cols, ", ") + ") AS (&M.*) FROM t")
		pOut = &stmtPlan{types: map[string]bool{"M": true}, ins: map[string]bool{}}
		pIn = &stmtPlan{types: map[string]bool{}, ins: map[string]bool{}}
	}
	c := scanCase{query: b.String()}
	all := map[string]bool{}
	for k := range pOut.types {
		all[k] = true
	}
	for k := range pIn.types {
		all[k] = true
	}
	for _, name := range sortedKeys(all) {
		c.samples = append(c.samples, zooByName(name))
	}
	if r.chance(1, 40) {
		c.samples = append(c.samples, zooSamples[r.intn(len(zooSamples))].sample)
	}
	for _, name := range sortedKeys(pIn.ins) {
		c.inargs = append(c.inargs, g.argFor(name, false))
	}
	for _, name := range sortedKeys(pOut.types) {
		if r.chance(1, 30) {
			continue // missing destination
		}
		c.dests = append(c.dests, sg.destFor(name))
		if r.chance(1, 50) {
			c.dests = append(c.dests, sg.destFor(name)) // twice
		}
	}
	if r.chance(1, 25) {
		c.dests = append(c.dests, sg.destFor(r.pick(goodStructs))) // destination of an unused type
	}
	if r.chance(1, 30) {
		c.dests = append(c.dests, oddDests[r.intn(len(oddDests))])
	}
	for i := len(c.dests) - 1; i > 0; i-- {
		j := r.intn(i + 1)
		c.dests[i], c.dests[j] = c.dests[j], c.dests[i]
	}
	m := r.intn(20)
	switch {
	case m < 11:
		c.mode = 0
	case m < 17:
		c.mode = m - 10 // 1..6
	default:
		c.mode = 0
	}
	c.colSeed = r.next()
	return c
}

// ------------------------------------------------------- GetAll, values --

type allDest struct {
	ptr   reflect.Value // pointer to the slice
	prior int           // elements present before the call
	sexp  string        // (struct pt t) | (ptr pt t) | (map mt)
}

// sliceDestFor builds a destination slice for the named zoo type with 0-2 prior elements.
func (sg *scanGen) sliceDestFor(env *typeEnv, name string) allDest {
	r := sg.g.r
	t := reflect.TypeOf(zooByName(name))
	var st reflect.Type
	var sx string
	switch {
	case t.Kind() == reflect.Map:
		st = reflect.SliceOf(t)
		sx = fmt.Sprintf("(map %d)", env.id(t))
	case r.chance(1, 2):
		st = reflect.SliceOf(t)
		sx = fmt.Sprintf("(struct %d %d)", env.id(reflect.PointerTo(t)), env.id(t))
	default:
		st = reflect.SliceOf(reflect.PointerTo(t))
		sx = fmt.Sprintf("(ptr %d %d)", env.id(reflect.PointerTo(t)), env.id(t))
	}
	p := reflect.New(st)
	n := r.intn(3)
	// spare capacity that is NOT zero: the slice is a prefix of a longer, filled one (a recycled buffer)
	hidden := r.intn(4)
	sl := reflect.MakeSlice(st, 0, n+hidden)
	for i := 0; i < n+hidden; i++ {
		el := reflect.New(st.Elem()).Elem()
		switch el.Kind() {
		case reflect.Pointer:
			np := reflect.New(t)
			sg.g.f.fill(np.Elem(), 0)
			el.Set(np)
		case reflect.Map:
			el.Set(reflect.MakeMap(t))
		default:
			sg.g.f.fill(el, 0)
		}
		sl = reflect.Append(sl, el)
	}
	p.Elem().Set(sl.Slice(0, n))
	return allDest{ptr: p, prior: n, sexp: sx}
}

// countedFresh reports a Counted field of v that did not see exactly one Scan.
func countedFresh(v reflect.Value) string {
	switch v.Kind() {
	case reflect.Pointer:
		if !v.IsNil() {
			return countedFresh(v.Elem())
		}
	case reflect.Struct:
		if c, ok := v.Interface().(Counted); ok {
			if c.N > 1 {
				return fmt.Sprintf("a Scanner field of an appended element saw %d Scan calls (a fresh element sees at most one)", c.N)
			}
			return ""
		}
		for i := 0; i < v.NumField(); i++ {
			if v.Type().Field(i).IsExported() {
				if m := countedFresh(v.Field(i)); m != "" {
					return m
				}
			}
		}
	}
	return ""
}

// aliasTwice: two result columns denote the same output (then its destination is legitimately scanned twice)
func aliasTwice(cols []string) bool {
	seen := map[int]bool{}
	for _, c := range cols {
		if !strings.HasPrefix(c, "_sqlair_") {
			continue
		}
		n, err := strconv.Atoi(c[len("_sqlair_"):])
		if err != nil || n < 0 {
			continue
		}
		if seen[n] {
			return true
		}
		seen[n] = true
	}
	return false
}

type scanAllObs struct {
	leak   string
	line   string
	viols  []string // C15 / C06 oracle failures
	panicd string
}

func implScanAll(c *scanCase, dests []allDest, nrows int) (o scanAllObs) {
	defer func() {
		if r := recover(); r != nil {
			o = scanAllObs{line: "PANIC " + fmt.Sprintf("%q", fmt.Sprint(r)), panicd: fmt.Sprint(r)}
		}
	}()
	stmt, err := sqlair.Prepare(c.query, c.samples...)
	if err != nil {
		msg := err.Error()
		if strings.HasPrefix(msg, "cannot parse expression") {
			return scanAllObs{line: "PARSE-ERR"}
		}
		return scanAllObs{line: "PREPARE-ERR " + classifyBindErr(msg)}
	}
	sqldb, f := openFake()
	defer dropFakeDB(f.name)
	defer sqldb.Close()
	sqldb.SetMaxOpenConns(1)
	f.rowsFor = func(sqlText string, _ []driver.NamedValue) *rowsScript {
		seen := map[string]bool{}
		n := 0
		for _, m := range reAlias.FindAllStringSubmatch(sqlText, -1) {
			if !seen[m[1]] {
				seen[m[1]] = true
				n++
			}
		}
		cols, row, cells := colScript(c.mode, c.colSeed, n)
		c.cols = cols
		rows := [][]driver.Value{}
		c.rowCells = nil
		rr := newRng(c.colSeed + 99)
		for i := 0; i < nrows; i++ {
			if i > 0 {
				// further rows: fresh cells for the same columns
				row = nil
				cells = nil
				next := 30 + 20*i
				for range cols {
					if rr.chance(1, 6) {
						row = append(row, nil)
						cells = append(cells, "null")
					} else {
						row = append(row, int64(next))
						cells = append(cells, strconv.Itoa(next))
						next++
					}
				}
			}
			rows = append(rows, row)
			c.rowCells = append(c.rowCells, cells)
		}
		return &rowsScript{Cols: cols, Rows: rows, FailAt: -1}
	}
	db := sqlair.NewDB(sqldb)
	var args []any
	var before []string
	for _, d := range dests {
		args = append(args, d.ptr.Interface())
		before = append(before, printDest(d.ptr.Elem()))
	}
	err = db.Query(context.Background(), stmt, c.inargs...).GetAll(args...)
	if leak := releaseCheck(sqldb, f); leak != "" {
		o.leak = leak
	}
	ran := false
	for _, ev := range f.log() {
		if ev.Kind == "query" || ev.Kind == "exec" {
			ran = true
		}
	}
	if err != nil {
		// all or nothing: every slice as it was
		for i, d := range dests {
			if printDest(d.ptr.Elem()) != before[i] {
				o.viols = append(o.viols, "slice changed although GetAll returned an error: "+before[i]+" -> "+printDest(d.ptr.Elem()))
			}
		}
		msg := err.Error()
		switch {
		case errors.Is(err, sqlair.ErrNoRows):
			o.line = "NOROWS"
		case !ran && strings.Contains(msg, "output variables provided but not referenced"):
			o.line = "NO-OUTPUTS"
		case !ran:
			o.line = "QUERY-ERR " + classifyBindErr(msg)
		default:
			o.line = "GETALL-ERR " + classifyScanErr(msg)
		}
		return o
	}
	// success: prior elements untouched, one element per row appended
	parts := []string{"GETALL-OK"}
	for r := 0; r < nrows; r++ {
		var els []string
		for _, d := range dests {
			sl := d.ptr.Elem()
			if sl.Len() != d.prior+nrows {
				o.viols = append(o.viols, fmt.Sprintf("slice has %d elements, want %d prior + %d rows", sl.Len(), d.prior, nrows))
				els = append(els, "?")
				continue
			}
			el := sl.Index(d.prior + r)
			els = append(els, printDest(el))
			if m := countedFresh(el); m != "" && !aliasTwice(c.cols) {
				o.viols = append(o.viols, m)
			}
		}
		parts = append(parts, "("+strings.Join(els, " ")+")")
	}
	for i, d := range dests {
		sl := d.ptr.Elem()
		if sl.Len() >= d.prior && printDest(sl.Slice(0, d.prior)) != printDestPrefix(before[i], d.prior) {
			o.viols = append(o.viols, "elements already present were changed")
		}
	}
	o.line = strings.Join(parts, " ")
	return o
}

// printDestPrefix: the print of the first n elements of a slice print "v(a,b,c)" (top-level commas only)
func printDestPrefix(p string, n int) string {
	if n == 0 {
		return "v()"
	}
	if !strings.HasPrefix(p, "v(") {
		return p
	}
	depth, cnt := 0, 0
	for i := 2; i < len(p)-1; i++ {
		switch p[i] {
		case '(':
			depth++
		case ')':
			depth--
		case ',':
			if depth == 0 {
				cnt++
				if cnt == n {
					return p[:i] + ")"
				}
			}
		}
	}
	return p
}

var leaksSeen int64

// releaseCheck: after Get / GetAll returned, every result set the call opened has been closed and no
// connection of the pool is in use (C13).
func releaseCheck(sqldb *sql.DB, f *fakeDB) string {
	inuse := sqldb.Stats().InUse
	// the wait is for a release that is still on its way; once 50 cases have leaked there is nothing to wait for
	for i := 0; i < 200 && inuse > 0 && atomic.LoadInt64(&leaksSeen) < 50; i++ {
		time.Sleep(200 * time.Microsecond)
		inuse = sqldb.Stats().InUse
	}
	f.mu.Lock()
	opened, closed := f.rowsOpened, f.rowsClosed
	f.mu.Unlock()
	if opened != closed || inuse != 0 {
		atomic.AddInt64(&leaksSeen, 1)
		return fmt.Sprintf("result sets opened %d, closed %d, connections in use %d", opened, closed, inuse)
	}
	return ""
}

var scanOtherStmt = sqlair.MustPrepare("SELECT &Address.* FROM address", Address{})
var scanOtherStmt2 = sqlair.MustPrepare("SELECT (a, b) AS (&M.x, &Person.name), &Address.id FROM t WHERE id = $Person.id", sqlair.M{}, Person{}, Address{})

// cloneValue: a deep copy (pointers, maps and slices are allocated anew).
func cloneValue(v reflect.Value) reflect.Value {
	switch v.Kind() {
	case reflect.Pointer:
		if v.IsNil() {
			return v
		}
		p := reflect.New(v.Type().Elem())
		p.Elem().Set(cloneValue(v.Elem()))
		return p
	case reflect.Struct:
		n := reflect.New(v.Type()).Elem()
		n.Set(v)
		for i := 0; i < n.NumField(); i++ {
			if n.Field(i).CanSet() {
				n.Field(i).Set(cloneValue(v.Field(i)))
			}
		}
		return n
	case reflect.Map:
		if v.IsNil() {
			return v
		}
		m := reflect.MakeMapWithSize(v.Type(), v.Len())
		it := v.MapRange()
		for it.Next() {
			m.SetMapIndex(it.Key(), cloneValue(it.Value()))
		}
		return m
	case reflect.Slice:
		if v.IsNil() {
			return v
		}
		sl := reflect.MakeSlice(v.Type(), v.Len(), v.Len())
		for i := 0; i < v.Len(); i++ {
			sl.Index(i).Set(cloneValue(v.Index(i)))
		}
		return sl
	case reflect.Interface:
		if v.IsNil() {
			return v
		}
		n := reflect.New(v.Type()).Elem()
		n.Set(cloneValue(v.Elem()))
		return n
	}
	return v
}

// restoreDest puts what the destination d points to (or the map d is) back to a fresh copy of saved.
func restoreDest(d any, saved reflect.Value) {
	if d == nil || !saved.IsValid() {
		return
	}
	v := reflect.ValueOf(d)
	switch {
	case v.Kind() == reflect.Pointer && !v.IsNil() && !saved.IsNil():
		v.Elem().Set(cloneValue(saved.Elem()))
	case v.Kind() == reflect.Map && !v.IsNil():
		for _, k := range v.MapKeys() {
			v.SetMapIndex(k, reflect.Value{})
		}
		it := saved.MapRange()
		for it.Next() {
			v.SetMapIndex(it.Key(), cloneValue(it.Value()))
		}
	}
}

// scratchDests: fresh destinations of the same types (what cannot be a destination is passed as it is).
func scratchDests(dests []any) []any {
	var out []any
	for _, d := range dests {
		v := reflect.ValueOf(d)
		switch {
		case d == nil:
			out = append(out, d)
		case v.Kind() == reflect.Pointer && !v.IsNil():
			out = append(out, reflect.New(v.Type().Elem()).Interface())
		case v.Kind() == reflect.Map && !v.IsNil():
			out = append(out, reflect.MakeMap(v.Type()).Interface())
		default:
			out = append(out, d)
		}
	}
	return out
}

type scanObs struct {
	leak     string
	line     string
	panicked string
	before   string
	after    string
	class    string
}

func implScan(c *scanCase) (o scanObs) {
	defer func() {
		if r := recover(); r != nil {
			o = scanObs{line: "PANIC " + fmt.Sprintf("%q", fmt.Sprint(r)), panicked: fmt.Sprint(r)}
		}
	}()
	stmt, err := sqlair.Prepare(c.query, c.samples...)
	if err != nil {
		msg := err.Error()
		if strings.HasPrefix(msg, "cannot parse expression") {
			return scanObs{line: "PARSE-ERR"}
		}
		return scanObs{line: "PREPARE-ERR " + classifyBindErr(msg)}
	}
	sqldb, f := openFake()
	defer dropFakeDB(f.name)
	defer sqldb.Close()
	sqldb.SetMaxOpenConns(1)
	held := c.colSeed%4 == 1
	twice := !held && c.colSeed%5 == 2
	warmup := false
	f.rowsFor = func(sqlText string, _ []driver.NamedValue) *rowsScript {
		seen := map[string]bool{}
		n := 0
		for _, m := range reAlias.FindAllStringSubmatch(sqlText, -1) {
			if !seen[m[1]] {
				seen[m[1]] = true
				n++
			}
		}
		if warmup {
			// the first run of a held Query: other arrangement of the columns
			warmup = false
			cols, row, _ := colScript([]int{0, 1, 6, c.mode}[c.colSeed/4%4], c.colSeed+7, n)
			return &rowsScript{Cols: cols, Rows: [][]driver.Value{row}, FailAt: -1}
		}
		cols, row, cells := colScript(c.mode, c.colSeed, n)
		c.cols, c.cells = cols, cells
		if twice {
			return &rowsScript{Cols: cols, Rows: [][]driver.Value{row, row}, FailAt: -1}
		}
		return &rowsScript{Cols: cols, Rows: [][]driver.Value{row}, FailAt: -1}
	}
	db := sqlair.NewDB(sqldb)
	o.before = printDests(c.dests)
	done := make(chan error, 1)
	go func() {
		defer func() {
			if r := recover(); r != nil {
				done <- fmt.Errorf("PANIC %v", r)
			}
		}()
		q := db.Query(context.Background(), stmt, c.inargs...)
		if c.colSeed%3 == 0 {
			// other Queries with outputs are built (not run) before this one is scanned: the columns of
			// this one still identify its own destinations
			_ = db.Query(context.Background(), scanOtherStmt)
			_ = db.Query(context.Background(), scanOtherStmt2, Person{ID: 3})
		}
		if held {
			// a Query value may be run more than once: every run scans the columns its own result
			// has.  The first run goes into scratch destinations of the same types.
			warmup = true
			it := q.Iter()
			if it.Next() {
				it.Get(scratchDests(c.dests)...)
			}
			it.Close()
			warmup = false
		}
		if twice {
			// an explicit loop over two equal rows with the SAME destinations: between the rows the caller
			// puts the destinations back as they were, with freshly allocated embedded structs, maps and
			// pointers.  The second Get finds its targets in what the destinations hold now.
			saved := make([]reflect.Value, len(c.dests))
			for i, d := range c.dests {
				if d != nil {
					saved[i] = cloneValue(reflect.ValueOf(d))
				}
			}
			it := q.Iter()
			var gerr error
			if it.Next() {
				it.Get(c.dests...)
				for i, d := range c.dests {
					restoreDest(d, saved[i])
				}
				if it.Next() {
					gerr = it.Get(c.dests...)
				} else {
					gerr = fmt.Errorf("second row not delivered")
				}
			} else if it.Close() == nil {
				gerr = sqlair.ErrNoRows
			}
			cerr := it.Close()
			if gerr == nil {
				gerr = cerr
			}
			done <- gerr
			return
		}
		done <- q.Get(c.dests...)
	}()
	select {
	case err = <-done:
	case <-time.After(60 * time.Second):
		return scanObs{line: "HANG", panicked: "Get did not return within 60s"}
	}
	o.after = printDests(c.dests)
	o.leak = releaseCheck(sqldb, f)
	if o.leak == "" {
		// Run on the same statement (it has outputs and the driver returns a row): whatever Run reports, the
		// result set is closed and the connection back in the pool when it returns
		func() {
			defer func() { recover() }()
			db.Query(context.Background(), stmt, c.inargs...).Run()
		}()
		if leak := releaseCheck(sqldb, f); leak != "" {
			o.leak = "after Query.Run: " + leak
		}
	}
	if err != nil && strings.HasPrefix(err.Error(), "PANIC ") {
		return scanObs{line: "PANIC " + fmt.Sprintf("%q", err.Error()), panicked: err.Error()}
	}
	ran := false
	for _, ev := range f.log() {
		if ev.Kind == "query" || ev.Kind == "exec" {
			ran = true
		}
	}
	if err == nil {
		o.line = "SCAN-OK " + o.after
		return o
	}
	msg := err.Error()
	if !ran {
		if strings.Contains(msg, "output variables provided but not referenced") {
			o.line = "NO-OUTPUTS"
			return o
		}
		o.line = "QUERY-ERR " + classifyBindErr(msg)
		return o
	}
	o.class = classifyScanErr(msg)
	if o.class == "conv" {
		o.line = "SCAN-ERR conv " + o.after
	} else {
		o.line = "SCAN-ERR " + o.class
	}
	return o
}

type scanStats struct {
	Cases      int            `json:"cases"`
	Results    map[string]int `json:"result_kinds"`
	Classes    map[string]int `json:"error_classes"`
	Modes      map[string]int `json:"column_script_modes"`
	Distinct   int            `json:"distinct_cases"`
	NonTrivial int            `json:"distinct_nontrivial"`
	NullCells  int            `json:"null_cells"`
	Cells      int            `json:"cells"`
	Foreign    int            `json:"foreign_columns"`
	Permuted   int            `json:"ok_with_permuted_columns"`
	GetAll     int            `json:"getall_value_cases"`
	Samples    []string       `json:"samples"`
	Other      int            `json:"unknown_error_wordings"`
}

// scanConcurrent: goroutines read rows of their own into destinations of one struct type at the same
// time (one shared Statement; Get, GetAll and an open Iterator): every destination holds the values of
// its own row.
func scanConcurrent(rounds int, add func(violation)) {
	stmt := sqlair.MustPrepare("SELECT &Person.* FROM person", Person{})
	var wg sync.WaitGroup
	var mu sync.Mutex
	bad := ""
	for g := 0; g < 8; g++ {
		wg.Add(1)
		go func(g int) {
			defer wg.Done()
			defer func() {
				if rec := recover(); rec != nil {
					mu.Lock()
					bad = fmt.Sprintf("panic: %v", rec)
					mu.Unlock()
				}
			}()
			sqldb, f := openFake()
			defer dropFakeDB(f.name)
			defer sqldb.Close()
			k := 0
			f.rowsFor = func(string, []driver.NamedValue) *rowsScript {
				k++
				id := int64(g*1000000 + k)
				return &rowsScript{Cols: []string{"_sqlair_2", "_sqlair_0", "_sqlair_1"}, FailAt: -1,
					Rows: [][]driver.Value{{id + 2, id, fmt.Sprintf("n%d", id)}, {id + 3, id + 1, fmt.Sprintf("n%d", id+1)}}}
			}
			db := sqlair.NewDB(sqldb)
			for i := 0; i < rounds; i++ {
				var p Person
				var ps []Person
				var err error
				if i%3 == 0 {
					err = db.Query(context.Background(), stmt).GetAll(&ps)
				} else {
					err = db.Query(context.Background(), stmt).Get(&p)
					ps = []Person{p}
				}
				id := g*1000000 + k
				for j, q := range ps {
					want := Person{ID: id + j, Name: fmt.Sprintf("n%d", id+j), Postcode: id + j + 2}
					if err != nil || q != want {
						mu.Lock()
						bad = fmt.Sprintf("goroutine %d: got %+v (err %v), want %+v", g, q, err, want)
						mu.Unlock()
						return
					}
				}
			}
		}(g)
	}
	wg.Wait()
	if bad != "" {
		add(violation{"C06", "concurrent-reads-into-one-struct-type-mix-their-rows", hx("concurrent Get/GetAll of SELECT &Person.* FROM person"), bad})
		add(violation{"C15", "concurrent-reads-into-one-struct-type-mix-their-rows", hx("concurrent Get/GetAll of SELECT &Person.* FROM person"), bad})
	}
}

func cmdScan(args []string) int {
	fs := flag.NewFlagSet("scan", flag.ExitOnError)
	seed := fs.Uint64("seed", 1, "seed")
	n := fs.Int("n", 1000, "number of generated cases")
	outDir := fs.String("out", ".", "output directory")
	fs.Parse(args)

	violFile, _ := os.Create(*outDir + "/oracle.jsonl")
	defer violFile.Close()
	nviol := 0
	addViol := func(v violation) {
		nviol++
		b, _ := json.Marshal(v)
		violFile.Write(append(b, '\n'))
	}
	go watchdog(addViol)

	scanConcurrent(300+*n/10, addViol)
	r := newRng(*seed)
	sg := &scanGen{g: &bindGen{r: r, f: &filler{r: r.fork(), zeroP: 2, nilP: 2}}}
	cases, _ := os.Create(*outDir + "/cases.txt")
	impl, _ := os.Create(*outDir + "/impl.txt")
	cw := bufio.NewWriterSize(cases, 1<<20)
	iw := bufio.NewWriter(impl)
	st := scanStats{Results: map[string]int{}, Classes: map[string]int{}, Modes: map[string]int{}}
	seen := map[string]bool{}
	for i := 0; i < *n; i++ {
		c := sg.next()
		env := newTypeEnv()
		ss := dumpSamples(env, c.samples)
		as := dumpArgs(env, c.inargs)
		if i%3 == 2 {
			// GetAll at value level: destination slices for the output types of the statement
			var dests []allDest
			var sx []string
			names := map[string]bool{}
			for _, m := range reOutType.FindAllStringSubmatch(c.query, -1) {
				names[m[1]] = true
			}
			for _, name := range sortedKeys(names) {
				ok := false
				for _, z := range zooSamples {
					if z.name == name {
						k := reflect.TypeOf(z.sample).Kind()
						ok = k == reflect.Struct || k == reflect.Map
					}
				}
				if !ok || r.chance(1, 30) {
					continue
				}
				d := sg.sliceDestFor(env, name)
				dests = append(dests, d)
				sx = append(sx, d.sexp)
			}
			if c.mode >= 1 && c.mode <= 5 && r.chance(1, 2) {
				c.mode = 0
			}
			nrows := r.intn(4)
			currentCase.Store(c.query)
			caseStart.Store(time.Now().UnixNano())
			o := implScanAll(&c, dests, nrows)
			caseStart.Store(0)
			var cols, rws []string
			for _, cn := range c.cols {
				cols = append(cols, hx(cn))
			}
			for _, rc := range c.rowCells {
				rws = append(rws, "("+strings.Join(rc, " ")+")")
			}
			line := fmt.Sprintf("(scanall x%s %s %s %s (%s) (%s) (%s))", hex.EncodeToString([]byte(c.query)), env.dump(), ss, as,
				strings.Join(cols, " "), strings.Join(rws, " "), strings.Join(sx, " "))
			fmt.Fprintln(cw, line)
			fmt.Fprintln(iw, o.line)
			qh := hx(c.query)
			if o.panicd != "" {
				addViol(violation{"C18", "getall-panic", qh, o.panicd})
			}
			if o.leak != "" {
				addViol(violation{"C13", "not-released-after-getall", qh, o.leak + " after " + trunc(o.line, 60)})
				// (a result set that stays open pins its sql.Stmt: the driver statement is never closed)
				addViol(violation{"C11", "not-released-after-getall", qh, o.leak + " after " + trunc(o.line, 60)})
			}
			for _, m := range o.viols {
				addViol(violation{"C15", "getall-values", qh, m})
				addViol(violation{"C06", "getall-values", qh, m})
			}
			st.Cases++
			st.GetAll++
			f := strings.Fields(o.line)
			st.Results[f[0]]++
			if !seen[line] {
				seen[line] = true
				st.Distinct++
				if f[0] == "GETALL-OK" || f[0] == "GETALL-ERR" || f[0] == "NOROWS" {
					st.NonTrivial++
				}
			}
			continue
		}
		ds := dumpDestArgs(env, c.dests) // before the call
		currentCase.Store(c.query)
		caseStart.Store(time.Now().UnixNano())
		o := implScan(&c)
		caseStart.Store(0)
		var cols []string
		for _, cn := range c.cols {
			cols = append(cols, hx(cn))
		}
		line := fmt.Sprintf("(scan x%s %s %s %s (%s) (%s) %s)", hex.EncodeToString([]byte(c.query)), env.dump(), ss, as,
			strings.Join(cols, " "), strings.Join(c.cells, " "), ds)
		fmt.Fprintln(cw, line)
		fmt.Fprintln(iw, o.line)
		qh := hx(c.query)
		if o.panicked != "" {
			addViol(violation{"C18", "scan-panic", qh, o.panicked})
		}
		if o.leak != "" {
			addViol(violation{"C13", "not-released-after-get", qh, o.leak + " after " + trunc(o.line, 60)})
			addViol(violation{"C11", "not-released-after-get", qh, o.leak + " after " + trunc(o.line, 60)})
		}
		// C06: an error of the argument / column checks leaves every destination untouched
		if o.class != "" && o.class != "conv" && o.before != o.after {
			addViol(violation{"C06", "partial-mapping-on-error", qh, o.class + ": " + o.before + " -> " + o.after})
		}
		st.Cases++
		f := strings.Fields(o.line)
		st.Results[f[0]]++
		st.Modes[strconv.Itoa(c.mode)]++
		if f[0] == "SCAN-ERR" || strings.HasSuffix(f[0], "-ERR") {
			if len(f) > 1 {
				st.Classes[f[1]]++
				if f[1] == "other" {
					st.Other++
				}
			}
		}
		for _, ce := range c.cells {
			st.Cells++
			if ce == "null" {
				st.NullCells++
			}
		}
		inOrder := true
		k := 0
		for _, cn := range c.cols {
			if strings.HasPrefix(cn, "_sqlair_") && cn == "_sqlair_"+strconv.Itoa(k) {
				k++
			} else {
				if !strings.HasPrefix(cn, "_sqlair_") {
					st.Foreign++
				}
				inOrder = false
			}
		}
		if f[0] == "SCAN-OK" && !inOrder {
			st.Permuted++
		}
		if !seen[line] {
			seen[line] = true
			st.Distinct++
			if f[0] == "SCAN-OK" || f[0] == "SCAN-ERR" {
				st.NonTrivial++
			}
		}
		if i < 2 || (i%(*n/5+1) == 0 && len(st.Samples) < 7) {
			st.Samples = append(st.Samples, fmt.Sprintf("%s | cols %v | dests %d -> %s", c.query, c.cols, len(c.dests), trunc(o.line, 160)))
		}
	}
	cw.Flush()
	iw.Flush()
	cases.Close()
	impl.Close()
	sb, _ := json.MarshalIndent(st, "", " ")
	os.WriteFile(*outDir+"/stats.json", sb, 0o644)
	fmt.Printf("scan: %d cases, results %v, %d oracle violations\n", st.Cases, st.Results, nviol)
	return 0
}

func init() { commands["scan"] = cmdScan }
