package main

// splitmix64: every random choice of the harness derives from one state
// seeded with VERIF_SEED, so that runs replay exactly.
type rng struct{ s uint64 }

func newRng(seed uint64) *rng { return &rng{s: seed*0x9E3779B97F4A7C15 + 0x1234567} }

func (r *rng) next() uint64 {
	r.s += 0x9E3779B97F4A7C15
	z := r.s
	z = (z ^ (z >> 30)) * 0xBF58476D1CE4E5B9
	z = (z ^ (z >> 27)) * 0x94D049BB133111EB
	return z ^ (z >> 31)
}

func (r *rng) intn(n int) int {
	if n <= 0 {
		return 0
	}
	return int(r.next() % uint64(n))
}

func (r *rng) chance(num, den int) bool { return r.intn(den) < num }

func (r *rng) pick(l []string) string { return l[r.intn(len(l))] }

func (r *rng) fork() *rng { return &rng{s: r.next()} }

// pick2 returns one of the given values.
func (r *rng) pick2(xs ...any) any { return xs[r.intn(len(xs))] }
