package main

// Reader for the canonical segment dump of the parser hook (VerifDump).

import (
	"encoding/hex"
	"strings"

	"github.com/canonical/sqlair"
)

type sx struct {
	atom string
	list []*sx
	leaf bool
}

func readSx(s string) []*sx {
	var stack [][]*sx
	cur := []*sx{}
	i := 0
	for i < len(s) {
		switch s[i] {
		case '(':
			stack = append(stack, cur)
			cur = []*sx{}
			i++
		case ')':
			n := &sx{list: cur}
			cur = stack[len(stack)-1]
			stack = stack[:len(stack)-1]
			cur = append(cur, n)
			i++
		case ' ':
			i++
		default:
			j := i
			for j < len(s) && s[j] != ' ' && s[j] != '(' && s[j] != ')' {
				j++
			}
			cur = append(cur, &sx{atom: s[i:j], leaf: true})
			i = j
		}
	}
	return cur
}

func unhx(a string) string {
	b, _ := hex.DecodeString(strings.TrimPrefix(a, "x"))
	return string(b)
}

type dumpCol struct {
	fn    bool
	raw   string
	table string
	col   string
}

type segVal struct {
	lit    *string
	typ    string
	member string
}

type fullSeg struct {
	kind      string
	raw       string
	sliceType string
	acc       [][2]string // member accessors: type, member
	cols      []dumpCol
	vals      []segVal
}

func accOf(n *sx) ([2]string, bool) {
	if n == nil || n.leaf || len(n.list) != 3 || n.list[0].atom != "m" {
		return [2]string{}, false
	}
	return [2]string{unhx(n.list[1].atom), unhx(n.list[2].atom)}, true
}

func colsOf(n *sx) []dumpCol {
	var out []dumpCol
	for _, c := range n.list {
		if c.leaf || len(c.list) == 0 {
			continue
		}
		switch c.list[0].atom {
		case "c":
			out = append(out, dumpCol{table: unhx(c.list[1].atom), col: unhx(c.list[2].atom)})
		case "f":
			out = append(out, dumpCol{fn: true, raw: unhx(c.list[1].atom)})
		}
	}
	return out
}

func segmentsFull(dump string) []fullSeg {
	var out []fullSeg
	for _, n := range readSx(dump) {
		if n.leaf || len(n.list) < 2 {
			continue
		}
		sg := fullSeg{kind: n.list[0].atom, raw: unhx(n.list[1].atom)}
		switch sg.kind {
		case "IN":
			if a, ok := accOf(n.list[2]); ok {
				sg.acc = append(sg.acc, a)
			}
		case "SL":
			sg.sliceType = unhx(n.list[2].atom)
		case "AI":
			for _, m := range n.list[2].list {
				if a, ok := accOf(m); ok {
					sg.acc = append(sg.acc, a)
				}
			}
		case "CI", "OUT":
			sg.cols = colsOf(n.list[2])
			for _, m := range n.list[3].list {
				if a, ok := accOf(m); ok {
					sg.acc = append(sg.acc, a)
				}
			}
		case "BI":
			sg.cols = colsOf(n.list[2])
			for _, v := range n.list[3].list {
				if a, ok := accOf(v); ok {
					sg.vals = append(sg.vals, segVal{typ: a[0], member: a[1]})
				} else if !v.leaf && len(v.list) == 2 && v.list[0].atom == "l" {
					l := unhx(v.list[1].atom)
					sg.vals = append(sg.vals, segVal{lit: &l})
				}
			}
		}
		out = append(out, sg)
	}
	return out
}

func verifParse(q string) (string, error) { return sqlair.VerifParse(q) }
