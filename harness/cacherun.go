package main

// Statement cache histories (C09, C10, C11, C20): sequential scripts with
// explicit reference drops and garbage collections compared with the model's
// prediction, and concurrent stress runs checked by oracles on the driver log.

import (
	"bufio"
	"context"
	"database/sql"
	"database/sql/driver"
	"encoding/json"
	"errors"
	"flag"
	"fmt"
	"os"
	"regexp"
	"runtime"
	"runtime/debug"
	"sort"
	"strings"
	"sync"
	"sync/atomic"
	"time"

	"github.com/canonical/sqlair"
)

type cacheWorld struct {
	stmts   []*sqlair.Statement
	dbs     []*sqlair.DB
	fakes   []*fakeDB
	queries map[int]*sqlair.Query
	iters   map[int]*sqlair.Iterator
	nthread int
	ctxs    map[int]context.Context
	cancels map[int]context.CancelFunc
	seen    map[string]int // dbname/stmtid -> global ds index
	logPos  []int
	closed  map[int]bool
	iterDs  map[int]int // thread -> ds
	base    [4]int
	viol    func(prop, name, detail string)
	// shared: every sqlair.DB of this history wraps the same *sql.DB (NewDB called several times on one
	// database): the cache entries are still per sqlair.DB
	shared bool
	sqldbs []*sql.DB
	ufakes []*fakeDB
}

func cacheCounts() [4]int {
	s, d, n, _, idx := sqlair.VerifCacheCounts()
	return [4]int{s, d, n, len(idx)}
}

func newCacheWorld(viol func(prop, name, detail string)) *cacheWorld {
	settle()
	return &cacheWorld{queries: map[int]*sqlair.Query{}, iters: map[int]*sqlair.Iterator{}, ctxs: map[int]context.Context{},
		cancels: map[int]context.CancelFunc{}, seen: map[string]int{}, closed: map[int]bool{}, iterDs: map[int]int{},
		base: cacheCounts(), viol: viol}
}

// settle runs the garbage collector until finalizers have drained: a sentinel
// object with a finalizer is collected in every round (finalizers run
// sequentially in one goroutine), until the cache counts are stable.
func settle() {
	prev := cacheCounts()
	stable := 0
	for i := 0; i < 40 && stable < 2; i++ {
		done := make(chan struct{})
		func() {
			s := new([16]byte)
			runtime.SetFinalizer(s, func(*[16]byte) { close(done) })
		}()
		runtime.GC()
		select {
		case <-done:
		case <-time.After(2 * time.Second):
		}
		runtime.GC()
		time.Sleep(100 * time.Microsecond)
		cur := cacheCounts()
		if cur == prev {
			stable++
		} else {
			stable = 0
		}
		prev = cur
	}
}

func (w *cacheWorld) ctx(id int) context.Context {
	if id == 0 {
		return nil // nil context: behaves as Background
	}
	if c, ok := w.ctxs[id]; ok {
		return c
	}
	c, cancel := cancellable(context.WithValue(context.Background(), markerKey, id), uint64(id))
	w.ctxs[id] = c
	w.cancels[id] = cancel
	return c
}

var cacheStmtCounter int

//go:noinline
func (w *cacheWorld) newStmt() {
	// the first two Statements of a history have the same text (two Statement values whose generated SQL
	// is identical, shape by shape): each has its own cache entries and its own driver statements
	if len(w.stmts) != 1 {
		cacheStmtCounter++
	}
	st, err := sqlair.Prepare(fmt.Sprintf("SELECT &Person.* FROM person WHERE id IN ($IntSlice[:]) OR name IN ($StrSlice[:]) -- stmt %d", cacheStmtCounter), Person{}, IntSlice{}, StrSlice{})
	if err != nil {
		panic(err)
	}
	w.stmts = append(w.stmts, st)
}

//go:noinline
func (w *cacheWorld) newDB() {
	if w.shared && len(w.dbs) > 0 {
		w.dbs = append(w.dbs, sqlair.NewDB(w.sqldbs[0]))
		w.fakes = append(w.fakes, w.fakes[0])
		return
	}
	sqldb, f := openFake()
	sqldb.SetMaxOpenConns(1)
	w.dbs = append(w.dbs, sqlair.NewDB(sqldb))
	w.fakes = append(w.fakes, f)
	w.sqldbs = append(w.sqldbs, sqldb)
	w.ufakes = append(w.ufakes, f)
	w.logPos = append(w.logPos, 0)
}

// collect returns the printable events that appeared since the last call.
func (w *cacheWorld) collect() []string {
	var out []string
	for di, f := range w.ufakes {
		evs := f.log()
		for _, ev := range evs[w.logPos[di]:] {
			key := fmt.Sprintf("%s/%d", f.name, ev.Stmt)
			marker := 0
			if m, ok := ev.CtxMarker.(int); ok {
				marker = m
			}
			switch ev.Kind {
			case "prepare":
				if _, ok := w.seen[key]; !ok {
					w.seen[key] = len(w.seen)
				}
				if ev.Err == nil {
					out = append(out, fmt.Sprintf("P%dc%d", w.seen[key], marker))
				} else {
					delete(w.seen, key) // a failed prepare creates nothing
				}
			case "exec", "query":
				out = append(out, fmt.Sprintf("X%dc%d", w.seen[key], marker))
			case "exec-on-closed", "query-on-closed":
				out = append(out, fmt.Sprintf("X%dc%d!", w.seen[key], marker))
				w.viol("C10", "closed-driver-statement-executed", key)
			case "stmtclose":
				ds := w.seen[key]
				if w.closed[ds] {
					w.viol("C11", "driver-statement-closed-twice", key)
				}
				w.closed[ds] = true
			}
		}
		w.logPos[di] = len(evs)
	}
	return out
}

//go:noinline
func (w *cacheWorld) run(s, d, q, c int, prepok bool, keep bool) string {
	if s >= len(w.stmts) || d >= len(w.dbs) || w.stmts[s] == nil || w.dbs[d] == nil {
		return "nohandle"
	}
	f := w.fakes[d]
	if !prepok {
		f.mu.Lock()
		f.failKinds = map[string]bool{"prepare": true}
		f.failAt[f.calls+1] = fmt.Errorf("injected-1")
		f.mu.Unlock()
	}
	// the generated SQL differs from shape to shape, the number of parameters does not
	sl, ss := twoSlices(q)
	query := w.dbs[d].Query(w.ctx(c), w.stmts[s], sl, ss)
	t := w.nthread
	w.nthread++
	var res string
	if keep {
		it := query.Iter()
		ok := it.Next()
		w.queries[t] = query
		w.iters[t] = it
		evs := w.collect()
		for _, e := range evs {
			if e[0] == 'X' {
				fmt.Sscanf(e, "X%d", new(int))
				var ds int
				fmt.Sscanf(e[1:], "%d", &ds)
				w.iterDs[t] = ds
			}
		}
		st := "ok"
		if !ok {
			st = "err"
			it.Close()
			delete(w.iters, t)
			delete(w.queries, t)
		}
		res = strings.Join(append(evs, fmt.Sprintf("t%d", t), st), ".")
	} else {
		var ps []Person
		err := query.GetAll(&ps)
		evs := w.collect()
		st := "ok"
		if err != nil {
			st = "err"
			if strings.Contains(err.Error(), "statement is closed") {
				w.viol("C10", "operation-failed-statement-closed", err.Error())
			}
		}
		res = strings.Join(append(evs, st), ".")
	}
	if !prepok {
		f.mu.Lock()
		f.failKinds = nil
		f.failAt = map[int]error{}
		f.mu.Unlock()
	}
	return res
}

func (w *cacheWorld) closedSet() string {
	// database/sql defers the driver-level close while the connection is in
	// use: statements of a DB with an open iterator are left out
	busyDB := map[string]bool{}
	dbOf := map[int]string{}
	for key, ds := range w.seen {
		dbOf[ds] = key[:strings.Index(key, "/")]
	}
	for t := range w.iters {
		if ds, ok := w.iterDs[t]; ok {
			busyDB[dbOf[ds]] = true
		}
	}
	var ids []int
	for ds := range w.closed {
		if !busyDB[dbOf[ds]] {
			ids = append(ids, ds)
		}
	}
	sort.Ints(ids)
	var parts []string
	for _, i := range ids {
		parts = append(parts, fmt.Sprint(i))
	}
	c := cacheCounts()
	return fmt.Sprintf("closed=(%s),S%dD%dN%dI%d", strings.Join(parts, " "), c[0]-w.base[0], c[1]-w.base[1], c[2]-w.base[2], c[3]-w.base[3])
}

func (w *cacheWorld) exec(op string) string {
	var a, b, c, d, e int
	switch {
	case op == "newstmt":
		w.newStmt()
		return fmt.Sprintf("s%d", len(w.stmts)-1)
	case op == "newdb":
		w.newDB()
		return fmt.Sprintf("d%d", len(w.dbs)-1)
	case op == "gc":
		settle()
		evs := w.collect()
		return strings.Join(append(evs, w.closedSet()), ".")
	case scan(op, "(run %d %d %d %d %d)", &a, &b, &c, &d, &e):
		return w.run(a, b, c, d, e == 1, false)
	case scan(op, "(iter %d %d %d %d)", &a, &b, &c, &d):
		return w.run(a, b, c, d, true, true)
	case scan(op, "(dropquery %d)", &a):
		delete(w.queries, a)
		return "dq"
	case scan(op, "(finish %d)", &a):
		if it, ok := w.iters[a]; ok {
			it.Close()
			delete(w.iters, a)
			delete(w.queries, a)
		}
		w.collect()
		return "fin"
	case scan(op, "(dropstmt %d)", &a):
		if a < len(w.stmts) {
			w.stmts[a] = nil
		}
		return "ds"
	case scan(op, "(dropdb %d)", &a):
		if a < len(w.dbs) {
			w.dbs[a] = nil
		}
		return "dd"
	case scan(op, "(cancel %d)", &a):
		w.ctx(a)
		if a != 0 {
			w.cancels[a]()
		}
		return "cancel"
	}
	return "?"
}

func scan(s, format string, args ...any) bool {
	n, err := fmt.Sscanf(s, format, args...)
	return err == nil && n == len(args)
}

// teardown drops everything and checks that the cache returns to its baseline.
func (w *cacheWorld) teardown() {
	for t, it := range w.iters {
		it.Close()
		delete(w.iters, t)
	}
	w.queries = map[int]*sqlair.Query{}
	for i := range w.stmts {
		w.stmts[i] = nil
	}
	for i := range w.dbs {
		w.dbs[i] = nil
	}
	for _, c := range w.cancels {
		c()
	}
	settle()
	w.collect()
	if c := cacheCounts(); c != w.base {
		settle()
		if c = cacheCounts(); c != w.base {
			w.viol("C11", "cache-entries-left-after-everything-was-dropped", fmt.Sprintf("counts %v baseline %v", c, w.base))
		}
	}
	// every prepared driver statement closed exactly once
	for key, ds := range w.seen {
		if !w.closed[ds] {
			w.viol("C11", "driver-statement-never-closed", key)
		}
	}
	for _, f := range w.ufakes {
		dropFakeDB(f.name)
	}
}

func genCacheScript(r *rng) []string {
	ops := []string{"newstmt", "newdb"}
	// a third of the histories have all their sqlair.DB values on one *sql.DB (marked by a collection
	// as third operation, which changes nothing)
	shared := r.chance(1, 3)
	if shared {
		ops = append(ops, "gc")
	}
	ns, nd := 1, 1
	nt := 0
	liveS := map[int]bool{0: true}
	liveD := map[int]bool{0: true}
	busy := map[int]int{} // db -> open iterators
	iterDB := map[int]int{}
	cancelled := map[int]bool{}
	n := 4 + r.intn(22)
	for i := 0; i < n; i++ {
		switch k := r.intn(20); {
		case k == 0 && ns < 3:
			ops = append(ops, "newstmt")
			liveS[ns] = true
			ns++
		case k == 1 && nd < 3:
			ops = append(ops, "newdb")
			liveD[nd] = true
			nd++
		case k < 11:
			s, d := r.intn(ns), r.intn(nd)
			if busy[d] > 0 || (shared && len(iterDB) > 0) {
				continue
			}
			c := r.intn(4)
			prepok := 1
			if r.chance(1, 12) {
				prepok = 0
			}
			ops = append(ops, fmt.Sprintf("(run %d %d %d %d %d)", s, d, r.intn(3), c, prepok))
			if liveS[s] && liveD[d] {
				nt++
			}
		case k < 13:
			s, d := r.intn(ns), r.intn(nd)
			if busy[d] > 0 || shared {
				// (no open iterators in a shared history: database/sql defers the driver-level close of
				// every statement of the one connection while it is in use)
				continue
			}
			c := r.intn(4)
			ops = append(ops, fmt.Sprintf("(iter %d %d %d %d)", s, d, r.intn(3), c))
			if liveS[s] && liveD[d] {
				if !cancelled[c] || c == 0 {
					busy[d]++
					iterDB[nt] = d
				}
				nt++
			}
		case k == 13 && len(iterDB) > 0:
			for t := range iterDB {
				ops = append(ops, fmt.Sprintf("(dropquery %d)", t))
				break
			}
		case k == 14 && len(iterDB) > 0:
			ts := []int{}
			for t := range iterDB {
				ts = append(ts, t)
			}
			sort.Ints(ts)
			t := ts[r.intn(len(ts))]
			ops = append(ops, fmt.Sprintf("(finish %d)", t))
			busy[iterDB[t]]--
			delete(iterDB, t)
		case k == 15:
			s := r.intn(ns)
			ops = append(ops, fmt.Sprintf("(dropstmt %d)", s))
			liveS[s] = false
		case k == 16:
			d := r.intn(nd)
			ops = append(ops, fmt.Sprintf("(dropdb %d)", d))
			liveD[d] = false
		case k == 17:
			c := 1 + r.intn(3)
			if len(iterDB) == 0 { // cancelling under an open iterator closes its rows asynchronously
				ops = append(ops, fmt.Sprintf("(cancel %d)", c))
				cancelled[c] = true
			}
		default:
			if len(ops) == 2 {
				continue // a collection as third operation marks a shared history
			}
			ops = append(ops, "gc")
		}
	}
	ts := []int{}
	for t := range iterDB {
		ts = append(ts, t)
	}
	sort.Ints(ts)
	for _, t := range ts {
		if r.chance(1, 2) {
			ops = append(ops, fmt.Sprintf("(finish %d)", t))
		}
	}
	ops = append(ops, "gc")
	return ops
}

type cacheStats struct {
	Shared     int            `json:"histories_with_all_DBs_on_one_sql_DB"`
	Cases      int            `json:"cases"`
	Ops        map[string]int `json:"op_kinds"`
	Distinct   int            `json:"distinct_cases"`
	NonTrivial int            `json:"distinct_nontrivial"`
	Stress     int            `json:"concurrent_stress_runs"`
	Samples    []string       `json:"samples"`
}

func cmdCache(args []string) int {
	fs := flag.NewFlagSet("cache", flag.ExitOnError)
	seed := fs.Uint64("seed", 1, "seed")
	n := fs.Int("n", 200, "number of generated scripts")
	stress := fs.Int("stress", 20, "number of concurrent stress runs")
	outDir := fs.String("out", ".", "output directory")
	fs.Parse(args)
	debug.SetGCPercent(-1)
	violFile, _ := os.Create(*outDir + "/oracle.jsonl")
	defer violFile.Close()
	nviol := 0
	var vmu sync.Mutex
	addViol := func(v violation) {
		vmu.Lock()
		nviol++
		b, _ := json.Marshal(v)
		violFile.Write(append(b, '\n'))
		vmu.Unlock()
	}
	go watchdog(addViol)
	r := newRng(*seed)
	cases, _ := os.Create(*outDir + "/cases.txt")
	impl, _ := os.Create(*outDir + "/impl.txt")
	cw := bufio.NewWriter(cases)
	iw := bufio.NewWriter(impl)
	st := cacheStats{Ops: map[string]int{}}
	seen := map[string]bool{}
	for i := 0; i < *n; i++ {
		ops := genCacheScript(r)
		req := "(cache (" + strings.Join(ops, " ") + "))"
		currentCase.Store(req)
		caseStart.Store(time.Now().UnixNano())
		w := newCacheWorld(func(prop, name, detail string) { addViol(violation{prop, name, hx(req), detail}) })
		if len(ops) > 2 && ops[2] == "gc" {
			w.shared = true
			st.Shared++
		}
		var outs []string
		for _, op := range ops {
			outs = append(outs, w.exec(op))
			st.Ops[strings.Fields(strings.Trim(op, "()"))[0]]++
		}
		outs = append(outs, "end:"+w.closedSet())
		w.teardown()
		caseStart.Store(0)
		fmt.Fprintln(cw, req)
		fmt.Fprintln(iw, strings.Join(outs, " "))
		st.Cases++
		if !seen[req] {
			seen[req] = true
			st.Distinct++
			if len(ops) > 5 {
				st.NonTrivial++
			}
		}
		if i < 2 || (i%(*n/4+1) == 0 && len(st.Samples) < 6) {
			st.Samples = append(st.Samples, req+" -> "+strings.Join(outs, " "))
		}
	}
	if *stress > 0 {
		if thoroughTier {
			cacheManyStatements(70000, addViol)
		} else {
			cacheManyStatements(4500, addViol)
		}
		concurrentNewDB(20**stress, addViol)
		cacheHugeSQL(addViol)
		cacheTypedNilContext(addViol)
		concurrentPrepare(20**stress, addViol)
	}
	for i := 0; i < *stress; i++ {
		cacheStress(r.fork(), addViol)
		for k := 0; k < 3; k++ {
			cacheRerun(r.fork(), addViol)
			cachePrepareCancel(r.fork(), addViol)
			heldContext(r.fork(), addViol)
			dropDBAfterTX(r.fork(), addViol)
			cacheOtherStatements(r.fork(), addViol)
			cacheBuildThenRun(r.fork(), addViol)
		}
		st.Stress++
	}
	cw.Flush()
	iw.Flush()
	cases.Close()
	impl.Close()
	sb, _ := json.MarshalIndent(st, "", " ")
	os.WriteFile(*outDir+"/stats.json", sb, 0o644)
	fmt.Printf("cache: %d scripts, %d stress runs, %d oracle violations\n", st.Cases, st.Stress, nviol)
	return 0
}

// twoSlices: the arguments of shape q of the two-slice statements: q+1 integers and 3-q strings.
func twoSlices(q int) (IntSlice, StrSlice) {
	sl := make(IntSlice, q+1)
	for i := range sl {
		sl[i] = i + 1
	}
	ss := make(StrSlice, 3-q)
	for i := range ss {
		ss[i] = fmt.Sprintf("s%d", i)
	}
	return sl, ss
}

var reFirstIn = regexp.MustCompile(`id IN \(([^)]*)\)`)

// shapeMismatch: the executed SQL of a two-slice statement lists as many placeholders in its first IN
// list as the call has integer arguments.
func shapeMismatch(ev event) string {
	m := reFirstIn.FindStringSubmatch(ev.SQL)
	if m == nil || !strings.Contains(ev.SQL, "name IN") {
		return ""
	}
	inSQL := strings.Count(m[1], "@sqlair_")
	ints := 0
	for _, a := range ev.Args {
		switch a.Value.(type) {
		case int64, int:
			ints++
		}
	}
	if inSQL != ints {
		return fmt.Sprintf("%q executed with %d integer and %d other arguments", ev.SQL, ints, len(ev.Args)-ints)
	}
	return ""
}

// cacheStress runs differently shaped queries on shared Statements and DBs
// from several goroutines, with garbage collections in between, and checks the
// driver log: every execution goes through a driver statement prepared from
// exactly the SQL of that call on that DB, no closed statement is executed, no
// statement is closed twice, no call fails.
func cacheStress(r *rng, add func(violation)) {
	nS, nD := 2, 4
	stmts := make([]*sqlair.Statement, nS)
	for i := range stmts {
		cacheStmtCounter++
		stmts[i] = sqlair.MustPrepare(fmt.Sprintf("SELECT &Person.* FROM person WHERE id IN ($IntSlice[:]) OR name IN ($StrSlice[:]) -- stress %d", cacheStmtCounter), Person{}, IntSlice{}, StrSlice{})
	}
	dbs := make([]*sqlair.DB, nD)
	sqldbs := make([]*sql.DB, nD)
	fakes := make([]*fakeDB, nD)
	// rendezvous inside the driver's Prepare: a goroutine that arrives waits a
	// moment for a second one, so that concurrent prepares of one Statement
	// overlap (both have missed the cache before either stores)
	var waiting int32
	gate := func(ev event) {
		if ev.Kind != "prepare" {
			return
		}
		atomic.AddInt32(&waiting, 1)
		deadline := time.Now().Add(300 * time.Microsecond)
		for atomic.LoadInt32(&waiting) < 2 && time.Now().Before(deadline) {
			runtime.Gosched()
		}
		time.Sleep(20 * time.Microsecond)
		atomic.AddInt32(&waiting, -1)
	}
	for i := range dbs {
		sqldb, f := openFake()
		f.gate = gate
		f.honourCtx = true
		f.failKinds = map[string]bool{"query": true, "exec": true}
		sqldbs[i] = sqldb
		fakes[i] = f
	}
	// the sqlair.DB values are created at the same time, from several goroutines
	{
		var wg sync.WaitGroup
		start := make(chan struct{})
		for i := range dbs {
			wg.Add(1)
			go func(i int) {
				defer wg.Done()
				<-start
				dbs[i] = sqlair.NewDB(sqldbs[i])
			}(i)
		}
		close(start)
		wg.Wait()
	}
	okCalls := make([]int64, nD)
	desc := fmt.Sprintf("stress seed-state %d", r.s)
	viol := func(prop, name, detail string) { add(violation{prop, name, hx(desc), detail}) }
	var wg sync.WaitGroup
	for g := 0; g < 8; g++ {
		wg.Add(1)
		gr := r.fork()
		go func() {
			defer wg.Done()
			for k := 0; k < 30; k++ {
				s, d, q := gr.intn(nS), gr.intn(nD), gr.intn(3)
				sl, ss := twoSlices(q)
				var ps []Person
				// now and then a query of this DB fails in the driver
				if gr.chance(1, 8) {
					f := fakes[d]
					f.mu.Lock()
					f.failAt[f.calls+1+gr.intn(3)] = fmt.Errorf("injected-9: %s", gr.pick([]string{"driver failure", "database is locked", "database table is locked", "SQLITE_BUSY", "deadlock detected; retry"}))
					f.mu.Unlock()
				}
				// every fifth call runs under its own context, which is cancelled (or expires) a moment later
				ctx := context.Background()
				cancel := func() {}
				switch gr.intn(10) {
				case 0:
					ctx, cancel = cancellable(context.Background(), uint64(k))
					time.AfterFunc(time.Duration(30+gr.intn(300))*time.Microsecond, cancel)
				case 1:
					ctx, cancel = context.WithTimeout(context.WithValue(context.Background(), markerKey, 1), time.Duration(30+gr.intn(300))*time.Microsecond)
				}
				err := dbs[d].Query(ctx, stmts[s], sl, ss).GetAll(&ps)
				own := ctx.Err()
				cancel()
				if err == nil {
					atomic.AddInt64(&okCalls[d], 1)
				}
				if err != nil {
					isCtx := errors.Is(err, context.Canceled) || errors.Is(err, context.DeadlineExceeded) ||
						strings.Contains(err.Error(), "context canceled") || strings.Contains(err.Error(), "deadline exceeded")
					switch {
					case isCtx && own == nil:
						// the call failed with a context's error although the context it was given is live
						viol("C20", "failed-with-the-error-of-another-calls-context", err.Error())
					case isCtx:
						// its own context ended: allowed to fail
					case strings.Contains(err.Error(), "injected-9"):
						// the injected driver failure (of this call or of another one: the fault is armed
						// per database)
					default:
						viol("C10", "operation-failed-in-fault-free-history", err.Error())
					}
				}
				if gr.chance(1, 10) {
					runtime.GC()
				}
			}
		}()
	}
	wg.Wait()
	// everything is dropped: after garbage collection every driver statement
	// must have been closed, exactly once
	for i := range stmts {
		stmts[i] = nil
	}
	for i := range dbs {
		dbs[i] = nil
	}
	settle()
	settle()
	for di, f := range fakes {
		prepared := map[int]string{}
		closed := map[int]int{}
		executed := int64(0)
		for _, ev := range f.log() {
			if (ev.Kind == "query" || ev.Kind == "exec") && ev.Err == nil {
				executed++
			}
		}
		// every call that succeeded was executed on the database it was issued on
		if n := atomic.LoadInt64(&okCalls[di]); n > executed {
			viol("C09", "call-executed-on-another-database", fmt.Sprintf("%d calls on database %d succeeded, its driver executed %d statements", n, di, executed))
		}
		for _, ev := range f.log() {
			switch ev.Kind {
			case "prepare":
				prepared[ev.Stmt] = ev.SQL
			case "prepare-aborted":
				delete(prepared, ev.Stmt) // the driver returned an error: there is no statement
			case "query", "exec":
				if prepared[ev.Stmt] != ev.SQL {
					viol("C09", "executed-through-statement-of-other-sql", fmt.Sprintf("db %d stmt %d", di, ev.Stmt))
				}
				// the SQL must be the one generated for the arguments of the call
				nargs := len(ev.Args)
				if strings.Count(ev.SQL, "@sqlair_") != nargs {
					viol("C09", "statement-shape-differs-from-arguments", fmt.Sprintf("%q with %d args", ev.SQL, nargs))
				}
				// the driver sees a deadline only when the caller's context has one (those carry marker 1)
				if m, _ := ev.CtxMarker.(int); ev.Deadline && m != 1 {
					viol("C20", "driver-saw-a-deadline-the-caller-did-not-set", fmt.Sprintf("db %d stmt %d", di, ev.Stmt))
				}
				if d := shapeMismatch(ev); d != "" {
					for _, p := range []string{"C09", "C01", "C16", "C17", "C04", "C03"} {
						viol(p, "executed-sql-was-generated-for-other-arguments", d)
					}
				}
				if closed[ev.Stmt] > 0 {
					viol("C10", "closed-driver-statement-executed", fmt.Sprintf("db %d stmt %d", di, ev.Stmt))
				}
			case "query-on-closed", "exec-on-closed":
				viol("C10", "closed-driver-statement-executed", fmt.Sprintf("db %d stmt %d", di, ev.Stmt))
			case "stmtclose":
				closed[ev.Stmt]++
				if closed[ev.Stmt] > 1 {
					viol("C11", "driver-statement-closed-twice", fmt.Sprintf("db %d stmt %d", di, ev.Stmt))
				}
			}
		}
		for id := range prepared {
			if closed[id] == 0 {
				viol("C11", "driver-statement-never-closed", fmt.Sprintf("db %d stmt %d after everything was dropped and collected", di, id))
			}
		}
	}
	for i := range sqldbs {
		sqldbs[i].Close()
	}
	for _, f := range fakes {
		dropFakeDB(f.name)
	}
}

// cachePrepareCancel: the caller's context ends while the driver is preparing (the driver does not
// look at it and returns the statement).  Whatever the call reports, the statement that was prepared
// is either usable later or closed: after the Statement and the DB have been dropped and collected
// every driver statement has been closed exactly once and the cache is back at its baseline (C11).
func cachePrepareCancel(r *rng, add func(violation)) {
	desc := fmt.Sprintf("context ends during prepare, seed-state %d", r.s)
	viol := func(prop, name, detail string) { add(violation{prop, name, hx(desc), detail}) }
	settle()
	base := cacheCounts()
	cacheStmtCounter++
	stmt := sqlair.MustPrepare(fmt.Sprintf("SELECT &Person.* FROM person WHERE id IN ($IntSlice[:]) -- pc %d", cacheStmtCounter), Person{}, IntSlice{})
	sqldb, f := openFake()
	sqldb.SetMaxOpenConns(1)
	db := sqlair.NewDB(sqldb)
	shape := func(n int) IntSlice { return make(IntSlice, n) }
	var ps []Person
	if r.chance(1, 2) {
		db.Query(context.Background(), stmt, shape(1)).GetAll(&ps) // already cached with another shape
	}
	rounds := 1 + r.intn(3)
	for i := 0; i < rounds; i++ {
		ctx, cancel := cancellable(context.Background(), uint64(i))
		f.mu.Lock()
		f.gate = func(ev event) {
			if ev.Kind == "prepare" {
				cancel()
			}
		}
		f.mu.Unlock()
		err := db.Query(ctx, stmt, shape(2+i)).GetAll(&ps)
		f.mu.Lock()
		f.gate = nil
		f.mu.Unlock()
		cancel()
		if err == nil {
			viol("C20", "call-succeeded-although-its-context-ended-before-the-execution", "")
		}
		if r.chance(1, 2) {
			if err := db.Query(context.Background(), stmt, shape(2+i)).GetAll(&ps); err != nil && !errors.Is(err, sqlair.ErrNoRows) {
				viol("C10", "call-after-a-cancelled-call-failed", err.Error())
			}
		}
	}
	stmt = nil
	db = nil
	settle()
	settle()
	if c := cacheCounts(); c != base {
		settle()
		if c = cacheCounts(); c != base {
			viol("C11", "cache-entries-left-after-everything-was-dropped", fmt.Sprintf("counts %v baseline %v", c, base))
		}
	}
	prepared := map[int]bool{}
	closed := map[int]int{}
	for _, ev := range f.log() {
		switch ev.Kind {
		case "prepare":
			if ev.Err == nil {
				prepared[ev.Stmt] = true
			}
		case "stmtclose":
			closed[ev.Stmt]++
		}
	}
	for id := range prepared {
		if closed[id] == 0 {
			viol("C11", "driver-statement-never-closed", fmt.Sprintf("statement %d prepared while the caller's context ended", id))
		} else if closed[id] > 1 {
			viol("C11", "driver-statement-closed-twice", fmt.Sprintf("statement %d", id))
		}
	}
	sqldb.Close()
	dropFakeDB(f.name)
}

// concurrentNewDB: sqlair.DB values are created from several goroutines at once; a Statement run on each of
// them afterwards is executed on the database it was issued on (each driver sees exactly its own call).
func concurrentNewDB(rounds int, add func(violation)) {
	viol := func(detail string) {
		add(violation{"C09", "call-executed-on-another-database", hx("NewDB from 16 goroutines at once, then one Statement on each DB"), detail})
	}
	const n = 16
	for round := 0; round < rounds; round++ {
		cacheStmtCounter++
		stmt := sqlair.MustPrepare(fmt.Sprintf("SELECT &Person.* FROM person WHERE id = $Person.id -- newdb %d", cacheStmtCounter), Person{})
		sqldbs := make([]*sql.DB, n)
		fakes := make([]*fakeDB, n)
		dbs := make([]*sqlair.DB, n)
		for i := range sqldbs {
			sqldbs[i], fakes[i] = openFake()
		}
		var wg sync.WaitGroup
		start := make(chan struct{})
		for i := range dbs {
			wg.Add(1)
			go func(i int) {
				defer wg.Done()
				<-start
				dbs[i] = sqlair.NewDB(sqldbs[i])
			}(i)
		}
		close(start)
		wg.Wait()
		bad := ""
		for i := range dbs {
			var p Person
			dbs[i].Query(context.Background(), stmt, Person{ID: i}).Get(&p)
		}
		for i, f := range fakes {
			got := 0
			for _, ev := range f.log() {
				if ev.Kind == "query" || ev.Kind == "exec" {
					got++
				}
			}
			if got != 1 && bad == "" {
				bad = fmt.Sprintf("round %d: the driver of database %d executed %d statements for the one call issued on it", round, i, got)
			}
		}
		for i := range sqldbs {
			sqldbs[i].Close()
			dropFakeDB(fakes[i].name)
		}
		if bad != "" {
			viol(bad)
			return
		}
	}
}

// dropDBAfterTX: a transaction is begun under a cancellable context that stays live, is finished and
// dropped; then the DB is dropped: after garbage collection its cache entries are gone and every driver
// statement prepared on it has been closed (nothing of a finished transaction keeps the DB alive).
func dropDBAfterTX(r *rng, add func(violation)) {
	desc := fmt.Sprintf("DB dropped after a finished transaction, seed-state %d", r.s)
	viol := func(name, detail string) { add(violation{"C11", name, hx(desc), detail}) }
	settle()
	base := cacheCounts()
	cacheStmtCounter++
	stmt := sqlair.MustPrepare(fmt.Sprintf("SELECT &Person.* FROM person WHERE id = $Person.id -- dbtx %d", cacheStmtCounter), Person{})
	sqldb, f := openFake()
	db := sqlair.NewDB(sqldb)
	ctx, cancel := cancellable(context.Background(), r.next())
	defer cancel() // at the very end
	var p Person
	db.Query(context.Background(), stmt, Person{ID: 1}).Get(&p)
	func() {
		tx, err := db.Begin(ctx, nil)
		if err != nil {
			return
		}
		tx.Query(ctx, stmt, Person{ID: 2}).Get(&p)
		if r.chance(1, 2) {
			tx.Commit()
		} else {
			tx.Rollback()
		}
	}()
	db = nil
	keepStmt := r.chance(1, 2)
	if !keepStmt {
		stmt = nil
	}
	settle()
	settle()
	c := cacheCounts()
	wantS := base[0]
	if keepStmt {
		wantS++
	}
	if c[1] != base[1] || c[2] != base[2] || c[0] != wantS {
		settle()
		c = cacheCounts()
		if c[1] != base[1] || c[2] != base[2] || c[0] != wantS {
			viol("cache-entries-left-after-the-DB-was-dropped", fmt.Sprintf("counts %v, baseline %v (Statement kept: %v), the context of Begin still live", c, base, keepStmt))
		}
	}
	prepared, closed := map[int]bool{}, map[int]int{}
	for _, ev := range f.log() {
		switch ev.Kind {
		case "prepare":
			if ev.Err == nil {
				prepared[ev.Stmt] = true
			}
		case "stmtclose":
			closed[ev.Stmt]++
		}
	}
	for id := range prepared {
		if closed[id] == 0 {
			viol("driver-statement-never-closed", fmt.Sprintf("statement %d, after its DB was dropped and collected (the context of Begin still live)", id))
		}
	}
	runtime.KeepAlive(stmt)
	sqldb.Close()
	dropFakeDB(f.name)
}

// cacheBuildThenRun: Queries are built first and run later (the cache is consulted when a Query is run, with
// what is cached then): two Queries of one shape built before either is run, and a Query built before another
// call has prepared and cached its SQL, cause one driver prepare in all.
func cacheBuildThenRun(r *rng, add func(violation)) {
	viol := func(detail string) {
		add(violation{"C09", "unchanged-query-prepared-again", hx("Queries built first, run later"), detail})
	}
	cacheStmtCounter++
	stmt := sqlair.MustPrepare(fmt.Sprintf("SELECT &Person.* FROM person WHERE id = $Person.id -- btr %d", cacheStmtCounter), Person{})
	sqldb, f := openFake()
	sqldb.SetMaxOpenConns(1)
	defer func() { sqldb.Close(); dropFakeDB(f.name) }()
	db := sqlair.NewDB(sqldb)
	var p Person
	q1 := db.Query(context.Background(), stmt, Person{ID: 1})
	q2 := db.Query(context.Background(), stmt, Person{ID: 2})
	if r.chance(1, 2) {
		db.Query(context.Background(), stmt, Person{ID: 3}).Get(&p)
	}
	q1.Get(&p)
	q2.Get(&p)
	prepares := 0
	for _, ev := range f.log() {
		if ev.Kind == "prepare" {
			prepares++
		}
	}
	if prepares != 1 {
		viol(fmt.Sprintf("%d driver prepares of one unchanged SQL text on one connection", prepares))
	}
}

// concurrentPrepare: Statements are created from several goroutines at once: their cache ids are distinct.
func concurrentPrepare(rounds int, add func(violation)) {
	sqldb, f := openFake()
	defer func() { sqldb.Close(); dropFakeDB(f.name) }()
	db := sqlair.NewDB(sqldb)
	for round := 0; round < rounds; round++ {
		const n = 16
		stmts := make([]*sqlair.Statement, n)
		var wg sync.WaitGroup
		start := make(chan struct{})
		for i := 0; i < n; i++ {
			wg.Add(1)
			go func(i int) {
				defer wg.Done()
				<-start
				stmts[i] = sqlair.MustPrepare(fmt.Sprintf("SELECT &Person.* FROM person WHERE id = $Person.id -- cp %d", i%4), Person{})
			}(i)
		}
		close(start)
		wg.Wait()
		seen := map[uint64]int{}
		for i, st := range stmts {
			sid, _ := sqlair.VerifIDs(st, db)
			if j, dup := seen[sid]; dup {
				add(violation{"C11", "two-statements-with-one-cache-id", hx("MustPrepare from 16 goroutines at once"), fmt.Sprintf("round %d: statements %d and %d have cache id %d", round, j, i, sid)})
				add(violation{"C09", "two-statements-with-one-cache-id", hx("MustPrepare from 16 goroutines at once"), fmt.Sprintf("round %d: statements %d and %d have cache id %d", round, j, i, sid)})
				add(violation{"C10", "two-statements-with-one-cache-id", hx("MustPrepare from 16 goroutines at once"), fmt.Sprintf("round %d: statements %d and %d have cache id %d", round, j, i, sid)})
				return
			}
			seen[sid] = i
		}
	}
}

// cacheOtherStatements: between two runs of a cached Statement other statements are run on the same DB
// whose text begins with ALTER, DROP, CREATE, VACUUM, PRAGMA ...: the second run of the unchanged query does
// not prepare it again.
func cacheOtherStatements(r *rng, add func(violation)) {
	viol := func(detail string) {
		add(violation{"C09", "unchanged-query-prepared-again", hx("S, then a schema-changing statement, then S again"), detail})
	}
	cacheStmtCounter++
	stmt := sqlair.MustPrepare(fmt.Sprintf("SELECT &Person.* FROM person WHERE id = $Person.id -- ddl %d", cacheStmtCounter), Person{})
	sqldb, f := openFake()
	sqldb.SetMaxOpenConns(1)
	defer func() { sqldb.Close(); dropFakeDB(f.name) }()
	db := sqlair.NewDB(sqldb)
	var p Person
	db.Query(context.Background(), stmt, Person{ID: 1}).Get(&p)
	texts := []string{"ALTER TABLE person ADD COLUMN email TEXT", "drop index if exists i", "CREATE TABLE x (a)", "VACUUM", "PRAGMA foreign_keys = ON",
		"ANALYZE", "REINDEX", "DROP TABLE IF EXISTS y", "alter table person rename to p2", "ATTACH DATABASE 'f' AS aux", "TRUNCATE TABLE z"}
	for i := 0; i < 1+r.intn(3); i++ {
		other := sqlair.MustPrepare(r.pick(texts))
		if r.chance(1, 2) {
			db.Query(context.Background(), other).Run()
		} else if tx, err := db.Begin(context.Background(), nil); err == nil {
			tx.Query(context.Background(), other).Run()
			tx.Commit()
		}
	}
	pos := len(f.log())
	db.Query(context.Background(), stmt, Person{ID: 2}).Get(&p)
	for _, ev := range f.log()[pos:] {
		if ev.Kind == "prepare" {
			viol(fmt.Sprintf("the driver prepared %q again after another statement had been run in between", ev.SQL))
		}
	}
}

// typedNilCtx: a context of a user-defined pointer type whose methods work on the nil pointer (it is not a
// nil context: it says it is cancelled).
type typedNilCtx struct{}

func (*typedNilCtx) Deadline() (time.Time, bool) { return time.Time{}, false }
func (*typedNilCtx) Done() <-chan struct{}       { c := make(chan struct{}); close(c); return c }
func (*typedNilCtx) Err() error                  { return context.Canceled }
func (*typedNilCtx) Value(any) any               { return nil }

// cacheTypedNilContext: the query is not run under a context that reports it is done, whatever its Go
// representation.
func cacheTypedNilContext(add func(violation)) {
	viol := func(detail string) {
		add(violation{"C20", "executed-although-the-context-had-ended", hx("a context whose dynamic value is a nil pointer of a user type that reports Canceled"), detail})
	}
	cacheStmtCounter++
	stmt := sqlair.MustPrepare(fmt.Sprintf("SELECT &Person.* FROM person WHERE id = $Person.id -- tn %d", cacheStmtCounter), Person{})
	sqldb, f := openFake()
	defer func() { sqldb.Close(); dropFakeDB(f.name) }()
	db := sqlair.NewDB(sqldb)
	var ctx context.Context = (*typedNilCtx)(nil)
	var p Person
	err := db.Query(ctx, stmt, Person{ID: 1}).Get(&p)
	if err == nil || !errors.Is(err, context.Canceled) {
		viol(fmt.Sprintf("DB.Query: %v", err))
	}
	if tx, terr := db.Begin(context.Background(), nil); terr == nil {
		err = tx.Query(ctx, stmt, Person{ID: 1}).Get(&p)
		if err == nil || !errors.Is(err, context.Canceled) {
			viol(fmt.Sprintf("TX.Query: %v", err))
		}
		tx.Rollback()
	}
	for _, ev := range f.log() {
		if ev.Kind == "query" || ev.Kind == "exec" {
			viol("the driver executed " + ev.SQL)
		}
	}
}

// cacheHugeSQL: a query whose generated SQL is several MiB long (a slice of 300,000 elements) is run three
// times on one DB with the same arguments: the driver prepares it once.
func cacheHugeSQL(add func(violation)) {
	viol := func(detail string) {
		add(violation{"C09", "unchanged-query-prepared-again", hx("IN ($IntSlice[:]) with 300,000 elements, run three times"), detail})
	}
	cacheStmtCounter++
	stmt := sqlair.MustPrepare(fmt.Sprintf("SELECT &Person.* FROM person WHERE id IN ($IntSlice[:]) -- huge %d", cacheStmtCounter), Person{}, IntSlice{})
	sqldb, f := openFake()
	defer func() { sqldb.Close(); dropFakeDB(f.name) }()
	f.rowsFor = func(sql string, _ []driver.NamedValue) *rowsScript {
		rs := defaultRows(sql)
		rs.Rows = nil
		return rs
	}
	db := sqlair.NewDB(sqldb)
	sl := make(IntSlice, 300000)
	for i := 0; i < 3; i++ {
		var ps []Person
		if err := db.Query(context.Background(), stmt, sl).GetAll(&ps); err != nil && !errors.Is(err, sqlair.ErrNoRows) {
			viol("run failed: " + trunc(err.Error(), 200))
			return
		}
	}
	prepares, execs := 0, 0
	for _, ev := range f.log() {
		switch ev.Kind {
		case "prepare":
			prepares++
		case "query", "exec":
			execs++
		}
	}
	if prepares != 1 || execs != 3 {
		viol(fmt.Sprintf("%d driver prepares and %d executions for three runs of one unchanged query of %d MiB", prepares, execs, 300000*14>>20))
	}
}

// cacheManyStatements: several thousand Statements are alive and prepared on one DB at the same time; every
// one of them is run once and then once more: no run fails, nothing is executed on a closed driver
// statement, and after everything was dropped every driver statement has been closed exactly once.
func cacheManyStatements(n int, add func(violation)) {
	viol := func(prop, name, detail string) {
		add(violation{prop, name, hx(fmt.Sprintf("%d statements on one DB", n)), detail})
	}
	settle()
	sqldb, f := openFake()
	sqldb.SetMaxOpenConns(1)
	f.rowsFor = func(sql string, _ []driver.NamedValue) *rowsScript {
		rs := defaultRows(sql)
		rs.Rows = nil
		return rs
	}
	db := sqlair.NewDB(sqldb)
	stmts := make([]*sqlair.Statement, n)
	for i := range stmts {
		cacheStmtCounter++
		stmts[i] = sqlair.MustPrepare(fmt.Sprintf("SELECT &Person.* FROM person WHERE id = $Person.id -- many %d", cacheStmtCounter), Person{})
	}
	failed := 0
	for round := 0; round < 2 && failed < 3; round++ {
		for i, st := range stmts {
			var p Person
			if err := db.Query(context.Background(), st, Person{ID: i}).Get(&p); err != nil && !errors.Is(err, sqlair.ErrNoRows) {
				failed++
				viol("C10", "operation-failed-in-fault-free-history", fmt.Sprintf("statement %d of %d, round %d: %v", i, n, round+1, err))
				if failed >= 3 {
					break
				}
			}
		}
	}
	closed := map[int]int{}
	for _, ev := range f.log() {
		switch ev.Kind {
		case "stmtclose":
			closed[ev.Stmt]++
		case "query", "exec":
			if closed[ev.Stmt] > 0 {
				viol("C10", "closed-driver-statement-executed", fmt.Sprintf("stmt %d", ev.Stmt))
			}
		case "query-on-closed", "exec-on-closed":
			viol("C10", "closed-driver-statement-executed", fmt.Sprintf("stmt %d", ev.Stmt))
		}
	}
	for i := range stmts {
		stmts[i] = nil
	}
	db = nil
	settle()
	settle()
	prepared := map[int]bool{}
	closed = map[int]int{}
	for _, ev := range f.log() {
		switch ev.Kind {
		case "prepare":
			if ev.Err == nil {
				prepared[ev.Stmt] = true
			}
		case "stmtclose":
			closed[ev.Stmt]++
		}
	}
	never, twice := 0, 0
	for id := range prepared {
		if closed[id] == 0 {
			never++
		} else if closed[id] > 1 {
			twice++
		}
	}
	if never > 0 {
		viol("C11", "driver-statement-never-closed", fmt.Sprintf("%d of %d after everything was dropped and collected", never, len(prepared)))
	}
	if twice > 0 {
		viol("C11", "driver-statement-closed-twice", fmt.Sprintf("%d of %d", twice, len(prepared)))
	}
	sqldb.Close()
	dropFakeDB(f.name)
}

// heldContext: a Query keeps the context it was built with for every run of it (C20): the driver sees
// that context whenever the Query is run, and once the context has ended a further run fails with its
// error and executes nothing.
func heldContext(r *rng, add func(violation)) {
	desc := fmt.Sprintf("held Query and its context, seed-state %d", r.s)
	viol := func(name, detail string) { add(violation{"C20", name, hx(desc), detail}) }
	cacheStmtCounter++
	stmt := sqlair.MustPrepare(fmt.Sprintf("SELECT &Person.* FROM person WHERE id IN ($IntSlice[:]) -- hc %d", cacheStmtCounter), Person{}, IntSlice{})
	sqldb, f := openFake()
	db := sqlair.NewDB(sqldb)
	defer func() { sqldb.Close(); dropFakeDB(f.name) }()
	f.rowsFor = func(sql string, _ []driver.NamedValue) *rowsScript {
		rs := defaultRows(sql)
		rs.Rows = nil
		return rs
	}
	const marker = 4242
	ctx, cancel := cancellable(context.WithValue(context.Background(), markerKey, marker), r.next())
	defer cancel()
	var q *sqlair.Query
	var tx *sqlair.TX
	onTX := r.chance(1, 3)
	if onTX {
		var err error
		tx, err = db.Begin(context.Background(), nil)
		if err != nil {
			return
		}
		defer tx.Rollback()
		q = tx.Query(ctx, stmt, make(IntSlice, 1+r.intn(3)))
	} else {
		q = db.Query(ctx, stmt, make(IntSlice, 1+r.intn(3)))
	}
	run := func() error {
		switch r.intn(3) {
		case 0:
			var ps []Person
			return q.GetAll(&ps)
		case 1:
			it := q.Iter()
			for it.Next() {
			}
			return it.Close()
		default:
			return q.Run()
		}
	}
	pos := len(f.log())
	runs := 2 + r.intn(2)
	for i := 0; i < runs; i++ {
		if i > 0 && r.chance(1, 2) {
			// meanwhile the statement is used with another shape under another context
			var ps []Person
			db.Query(context.Background(), stmt, make(IntSlice, 5)).GetAll(&ps)
			pos = len(f.log())
		}
		err := run()
		if err != nil && !errors.Is(err, sqlair.ErrNoRows) {
			viol("held-query-run-failed", fmt.Sprintf("run %d: %v", i+1, err))
		}
		executed := false
		for _, ev := range f.log()[pos:] {
			switch ev.Kind {
			case "query", "exec":
				executed = true
				if m, _ := ev.CtxMarker.(int); m != marker {
					viol("held-query-run-without-its-context", fmt.Sprintf("run %d: the driver executed under a context with marker %v", i+1, ev.CtxMarker))
				}
			case "prepare":
				if m, _ := ev.CtxMarker.(int); m != marker && !onTX {
					viol("held-query-run-without-its-context", fmt.Sprintf("run %d: the driver prepared under a context with marker %v", i+1, ev.CtxMarker))
				}
			}
		}
		if !executed {
			viol("held-query-run-executed-nothing", fmt.Sprintf("run %d", i+1))
		}
		pos = len(f.log())
	}
	cancel()
	err := run()
	if err == nil || !(errors.Is(err, context.Canceled) || strings.Contains(err.Error(), "context canceled")) {
		viol("run-after-the-context-ended-did-not-fail-with-its-error", fmt.Sprintf("%v", err))
	}
	for _, ev := range f.log()[pos:] {
		if ev.Kind == "query" || ev.Kind == "exec" {
			viol("executed-although-the-context-had-ended", ev.SQL)
		}
	}
}

// cacheRerun: a Query object that the caller keeps is run again after the statement it used was
// evicted by a differently shaped call and the garbage collector has run (C10: "... or a Query or
// Iterator obtained from them"); also with the Statement variable dropped in between.
func cacheRerun(r *rng, add func(violation)) {
	desc := fmt.Sprintf("rerun seed-state %d", r.s)
	viol := func(prop, name, detail string) { add(violation{prop, name, hx(desc), detail}) }
	cacheStmtCounter++
	stmt := sqlair.MustPrepare(fmt.Sprintf("SELECT &Person.* FROM person WHERE id IN ($IntSlice[:]) -- rerun %d", cacheStmtCounter), Person{}, IntSlice{})
	sqldb, f := openFake()
	db := sqlair.NewDB(sqldb)
	defer func() { sqldb.Close(); dropFakeDB(f.name) }()
	shape := func(n int) IntSlice { return make(IntSlice, n) }
	n1 := 1 + r.intn(3)
	held := db.Query(context.Background(), stmt, shape(n1))
	runHeld := func(when string) {
		var ps []Person
		var err error
		if r.chance(1, 2) {
			err = held.GetAll(&ps)
		} else {
			it := held.Iter()
			for it.Next() {
				var p Person
				it.Get(&p)
			}
			err = it.Close()
		}
		if err != nil && !errors.Is(err, sqlair.ErrNoRows) {
			viol("C10", "held-query-failed", when+": "+err.Error())
		}
	}
	if r.chance(3, 4) {
		runHeld("first run")
	}
	// other shapes evict the cached statement
	for i := 0; i < 1+r.intn(2); i++ {
		var ps []Person
		db.Query(context.Background(), stmt, shape(n1+1+i)).GetAll(&ps)
	}
	if r.chance(1, 3) {
		stmt = nil // the Statement variable is dropped; the Query still holds what it needs
	}
	settle()
	settle()
	runHeld("after eviction and garbage collection")
	runHeld("once more")
	// driver log: nothing executed on a closed statement, SQL matches the arguments
	closed := map[int]bool{}
	for _, ev := range f.log() {
		switch ev.Kind {
		case "stmtclose":
			closed[ev.Stmt] = true
		case "query", "exec":
			if closed[ev.Stmt] {
				viol("C10", "closed-driver-statement-executed", fmt.Sprintf("stmt %d", ev.Stmt))
			}
			if strings.Count(ev.SQL, "@sqlair_") != len(ev.Args) {
				viol("C09", "statement-shape-differs-from-arguments", fmt.Sprintf("%q with %d args", ev.SQL, len(ev.Args)))
			}
		case "query-on-closed", "exec-on-closed":
			viol("C10", "closed-driver-statement-executed", fmt.Sprintf("stmt %d", ev.Stmt))
		}
	}
	_ = stmt
}

func init() { commands["cache"] = cmdCache }
