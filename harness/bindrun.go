package main

import (
	"bufio"
	"context"
	"database/sql"
	"database/sql/driver"
	"encoding/hex"
	"encoding/json"
	"flag"
	"fmt"
	"os"
	"reflect"
	"regexp"
	"strconv"
	"strings"
	"time"
	"verifharness/zoo2"

	"github.com/canonical/sqlair"
)

type errPat struct {
	class string
	re    *regexp.Regexp
}

// message -> class table (names as printed by the model's berr_name)
var bindErrPats = []errPat{
	{"nil-sample", regexp.MustCompile(`need supported value, got nil$`)},
	{"anonymous-sample", regexp.MustCompile(`^cannot prepare statement: cannot use anonymous`)},
	{"pointer-sample", regexp.MustCompile(`need non-pointer type, got pointer to`)},
	{"unsupported-sample", regexp.MustCompile(`need supported type, got`)},
	{"dup-sample", regexp.MustCompile(`found multiple instances of type`)},
	{"same-name-sample", regexp.MustCompile(`two types found with name`)},
	{"map-key", regexp.MustCompile(`must have key type string`)},
	{"dup-tag", regexp.MustCompile(`appears in both field`)},
	{"not-exported", regexp.MustCompile(`not exported$`)},
	{"tag-flag", regexp.MustCompile(`unsupported flag`)},
	{"tag-empty", regexp.MustCompile(`empty db tag`)},
	{"tag-quote", regexp.MustCompile(`missing quotes at end of 'db' tag`)},
	{"tag-invalid", regexp.MustCompile(`invalid column name in 'db' tag`)},
	{"self-embed", regexp.MustCompile(`is embedded in itself`)},
	{"same-name-arg", regexp.MustCompile(`missing, have type with same name`)},
	{"type-missing", regexp.MustCompile(`^cannot prepare statement: .*parameter with type ".*" missing`)},
	{"arg-missing", regexp.MustCompile(`^invalid input parameter: parameter with type ".*" missing`)},
	{"no-tag", regexp.MustCompile(`has no ".*" db tag`)},
	{"slice-syntax-struct", regexp.MustCompile(`cannot use slice syntax with a struct`)},
	{"slice-syntax-map", regexp.MustCompile(`cannot use slice syntax with a map`)},
	{"slice-member", regexp.MustCompile(`cannot get named member of slice`)},
	{"slice-asterisk", regexp.MustCompile(`cannot use slice with asterisk`)},
	{"map-asterisk", regexp.MustCompile(`cannot use map with asterisk unless columns are specified`)},
	{"no-tags", regexp.MustCompile(`no "db" tags found in struct`)},
	{"multiple-outputs", regexp.MustCompile(`is used in multiple output expressions`)},
	{"unused-sample", regexp.MustCompile(`not found in statement$`)},
	{"more-than-one-map", regexp.MustCompile(`cannot use more than one map with asterisk`)},
	{"missing-provider", regexp.MustCompile(`missing type that provides column`)},
	{"multiple-providers", regexp.MustCompile(`more than one type provides column`)},
	{"mismatch-cols-vals", regexp.MustCompile(`mismatched number of columns and values`)},
	{"star-columns", regexp.MustCompile(`invalid asterisk in columns`)},
	{"star-types", regexp.MustCompile(`invalid asterisk in types`)},
	{"mismatch-cols-types", regexp.MustCompile(`mismatched number of columns and target types`)},
	{"nil-arg", regexp.MustCompile(`got nil argument`)},
	{"nil-ptr-in-slice", regexp.MustCompile(`got nil pointer in slice of`)},
	{"nil-map-in-slice", regexp.MustCompile(`got nil map in slice of`)},
	{"nil-pointer", regexp.MustCompile(`got nil pointer to`)},
	{"anonymous-slice", regexp.MustCompile(`cannot use anonymous slice outside bulk insert`)},
	{"anonymous-arg", regexp.MustCompile(`^invalid input parameter: cannot use anonymous`)},
	{"type-and-slice", regexp.MustCompile(`and its slice type .* provided`)},
	{"unsupported-arg", regexp.MustCompile(`^invalid input parameter: need supported value, got`)},
	{"dup-arg", regexp.MustCompile(`provided more than once`)},
	{"map-no-key", regexp.MustCompile(`does not contain key`)},
	{"slice-len0", regexp.MustCompile(`with length 0`)},
	{"mix-zero", regexp.MustCompile(`got mix of zero and none zero values`)},
	{"nil-embedded", regexp.MustCompile(`nil pointer to embedded struct`)},
	{"omit-explicit", regexp.MustCompile(`has zero value and has the omitempty flag but the value is explicitly input`)},
	{"bulk-outside", regexp.MustCompile(`cannot use bulk inputs outside an insert statement`)},
	{"mismatch-bulk", regexp.MustCompile(`expected slices of matching length in bulk insert`)},
	{"not-used", regexp.MustCompile(`not used by query`)},
	{"nil-map", regexp.MustCompile(`^invalid input parameter: got nil `)},
	{"INTERNAL", regexp.MustCompile(`internal error`)},
}

func classifyBindErr(msg string) string {
	for _, p := range bindErrPats {
		if p.re.MatchString(msg) {
			return p.class
		}
	}
	return "other"
}

func dumpSamples(env *typeEnv, samples []any) string {
	var parts []string
	for _, s := range samples {
		if s == nil {
			parts = append(parts, "nil")
		} else {
			parts = append(parts, fmt.Sprint(env.id(reflect.TypeOf(s))))
		}
	}
	return "(" + strings.Join(parts, " ") + ")"
}

func dumpArgs(env *typeEnv, args []any) string {
	var parts []string
	for _, a := range args {
		if a == nil {
			parts = append(parts, "nil")
		} else {
			v := reflect.ValueOf(a)
			parts = append(parts, fmt.Sprintf("(%d %s)", env.id(v.Type()), dumpVal(v)))
		}
	}
	return "(" + strings.Join(parts, " ") + ")"
}

type bindObs struct {
	line     string
	sql      string
	args     []string // name=value prints
	argTypes []string // dynamic Go types of the values the driver received
	query    bool
	prepErr  string
	qErr     string
	panicked string
	stmt     *sqlair.Statement
}

// implBind runs Prepare + Query + Run on a fresh fake database.
// bothSliceForms: the positions of an unnamed []T and an unnamed []*T of the same struct type T among
// the arguments, or -1.
func bothSliceForms(args []any) (int, int) {
	for i, a := range args {
		if a == nil {
			continue
		}
		ta := reflect.TypeOf(a)
		if ta.Kind() != reflect.Slice || ta.Name() != "" || ta.Elem().Kind() != reflect.Struct {
			continue
		}
		for j, b := range args {
			if b != nil && reflect.TypeOf(b) == reflect.SliceOf(reflect.PointerTo(ta.Elem())) {
				return i, j
			}
		}
	}
	return -1, -1
}

// prepareEither prepares through Prepare or, for a third of the queries, through MustPrepare (whose panic
// carries the error).
func prepareEither(q string, samples []any) (stmt *sqlair.Statement, err error) {
	if strHash(q)%3 != 1 {
		return sqlair.Prepare(q, samples...)
	}
	defer func() {
		if r := recover(); r != nil {
			if e, ok := r.(error); ok {
				err = e
			} else {
				panic(r)
			}
		}
	}()
	return sqlair.MustPrepare(q, samples...), nil
}

// heldStmt: a Statement that stays in use while other statements are prepared and run.
type heldStmt struct {
	stmt  *sqlair.Statement
	args  []any
	query string
	ref   string
}

func strHash(s string) uint64 {
	h := uint64(1469598103934665603)
	for i := 0; i < len(s); i++ {
		h = (h ^ uint64(s[i])) * 1099511628211
	}
	return h >> 7
}

func implBind(c bindCase) (o bindObs) {
	defer func() {
		if r := recover(); r != nil {
			o = bindObs{line: "PANIC " + fmt.Sprintf("%q", fmt.Sprint(r)), panicked: fmt.Sprint(r)}
		}
	}()
	stmt, err := prepareEither(c.query, c.samples)
	if err != nil {
		msg := err.Error()
		if strings.HasPrefix(msg, "cannot parse expression") {
			return bindObs{line: "PARSE-ERR", prepErr: msg}
		}
		return bindObs{line: "PREPARE-ERR " + classifyBindErr(msg), prepErr: msg}
	}
	sqldb, f := openFake()
	defer dropFakeDB(f.name)
	defer sqldb.Close()
	f.rowsFor = func(sql string, _ []driver.NamedValue) *rowsScript {
		rs := defaultRows(sql)
		rs.Rows = nil
		return rs
	}
	db := sqlair.NewDB(sqldb)
	// A Statement is an immutable value and the statement cache is keyed by the generated SQL: what a
	// run sends to the driver does not depend on earlier runs.  In a third of the cases the Statement
	// has already been run on this DB with arguments of another shape (other zero pattern of the
	// omitempty members, other slice lengths) or with arguments that contribute nothing, and in some
	// of those the observed run is on a Statement prepared afterwards.
	pos := 0
	bothA, _ := bothSliceForms(c.args)
	if h := strHash(c.query); (h%3 == 0 || bothA >= 0) && len(c.args) > 0 {
		wr := newRng(h)
		var other []any
		if a, b := bothSliceForms(c.args); a >= 0 {
			// both []T and []*T are given: the Statement has first been run with the []*T alone
			for i, x := range c.args {
				if i != a {
					other = append(other, x)
				}
			}
			_ = b
		}
		for i, a := range c.args {
			if other != nil && len(other) == len(c.args)-1 {
				break
			}
			switch (h / 3) % 4 {
			case 0:
				other = append(other, reshape(wr, a, int(h%7)+i))
			case 1:
				other = append(other, emptied(a))
			case 2:
				// as many omitted columns, but other ones: the generated SQL differs, the number of
				// parameters does not
				if o, ok := rotateOmit(a, wr); ok {
					other = append(other, o)
				} else {
					other = append(other, reshape(wr, a, int(h%7)+i))
				}
			default:
				// the other row layout of a bulk insert
				if o, ok := rebulk(a); ok {
					other = append(other, o)
				} else {
					other = append(other, reshape(wr, a, int(h%7)+i))
				}
			}
		}
		func() {
			defer func() { recover() }()
			db.Query(context.Background(), stmt, other...).Run()
		}()
		if h%5 == 0 {
			if stmt2, err2 := sqlair.Prepare(c.query, c.samples...); err2 == nil {
				stmt = stmt2
			}
		}
		pos = len(f.log())
	}
	err = db.Query(context.Background(), stmt, c.args...).Run()
	evs := f.log()[pos:]
	var prep, run *event
	for i := range evs {
		switch evs[i].Kind {
		case "prepare":
			if prep == nil {
				prep = &evs[i]
			}
		case "exec", "query":
			if run == nil {
				run = &evs[i]
			}
		}
	}
	if prep == nil && run == nil {
		if err == nil {
			return bindObs{line: "NO-EVENTS-NO-ERROR"}
		}
		return bindObs{line: "QUERY-ERR " + classifyBindErr(err.Error()), qErr: err.Error()}
	}
	// the SQL of the driver statement that was executed (the one prepared just now, or the cached one)
	if run != nil {
		prep = &event{SQL: run.SQL}
	}
	o.sql = prep.SQL
	o.stmt = stmt
	kind := "E"
	if run != nil && run.Kind == "query" {
		kind = "Q"
		o.query = true
	}
	parts := []string{"OK", kind, hx(prep.SQL)}
	if run != nil {
		for _, a := range run.Args {
			pv := printVal(reflect.ValueOf(a.Value))
			parts = append(parts, "("+hx(a.Name)+" "+pv+")")
			o.args = append(o.args, a.Name+"="+pv)
			o.argTypes = append(o.argTypes, dynType(reflect.ValueOf(a.Value)))
		}
	} else {
		parts = append(parts, "NO-RUN-EVENT")
	}
	o.line = strings.Join(parts, " ")
	return o
}

// ---------------------------------------------------------------- oracles --

var rePlaceholder = regexp.MustCompile(`@sqlair_[0-9]+`)
var reMarker = regexp.MustCompile(`_sqlair_[0-9]+`)

func bindOracles(c bindCase, o bindObs, add func(violation)) {
	qh := hx(c.query)
	v := func(prop, name, detail string) { add(violation{prop, name, qh, detail}) }
	if o.panicked != "" {
		v("C18", "bind-panic", o.panicked)
		return
	}
	if o.sql == "" {
		return
	}
	// C03: placeholders <-> named args one to one.  Only placeholders outside
	// the caller's own text can be attributed; a query that itself contains
	// "@sqlair_" is skipped.
	if !strings.Contains(c.query, "sqlair_") {
		ph := map[string]int{}
		for _, m := range rePlaceholder.FindAllString(o.sql, -1) {
			ph[m[1:]]++
		}
		names := map[string]int{}
		for _, a := range o.args {
			n := a[:strings.Index(a, "=")]
			names[n]++
			if names[n] > 1 {
				v("C03", "duplicate-argument-name", n+" in "+strings.Join(o.args, " "))
			}
			if ph[n] == 0 {
				v("C03", "argument-without-placeholder", n+" sql="+o.sql)
			}
		}
		for n := range ph {
			if names[n] == 0 {
				v("C03", "placeholder-without-argument", n+" sql="+o.sql)
			}
		}
		// C05: aliases unique, no generated wildcard, query iff outputs
		seen := map[string]bool{}
		for _, m := range reMarker.FindAllString(strings.ReplaceAll(o.sql, "@sqlair_", "@"), -1) {
			if seen[m] {
				v("C05", "duplicate-alias", m+" sql="+o.sql)
			}
			seen[m] = true
		}
		if regexp.MustCompile(`\* AS _sqlair_`).MatchString(o.sql) {
			v("C05", "wildcard-generated", o.sql)
		}
		if (len(seen) > 0) != o.query {
			v("C05", "query-iff-outputs", fmt.Sprintf("aliases=%d query=%v sql=%s", len(seen), o.query, o.sql))
		}
	}
	// C04: rectangular inserts: every generated tuple has as many values as columns.  Only held against text
	// that sqlair generated: when the query has `(...) VALUES (...)` text that its parser did not take for
	// an insert expression (a column list it has no grammar for, such as one with backticks) that text is
	// the caller's and is passed through as it is.
	insertSegs := 0
	if dump, err := sqlair.VerifParse(c.query); err == nil {
		for _, sg := range segmentsOf(dump) {
			if sg.kind == "AI" || sg.kind == "CI" || sg.kind == "BI" {
				insertSegs++
			}
		}
	}
	allInserts := reInsert.FindAllStringSubmatch(o.sql, -1)
	if len(allInserts) != insertSegs {
		allInserts = nil
	}
	for _, m := range allInserts {
		ncols := countTop(m[1])
		tuples := reTuple.FindAllStringSubmatch(m[2], -1)
		for _, t := range tuples {
			if countTop(t[1]) != ncols {
				v("C04", "non-rectangular-insert", o.sql)
			}
		}
	}
}

// generated inserts have the exact shape "(c1, c2) VALUES (@sqlair_0, lit), (...)"
var reInsert = regexp.MustCompile(`\(([^()]*)\) VALUES ((?:\((?:@sqlair_[0-9]+(?:, )?)+\)(?:, )?)+)`)
var reTuple = regexp.MustCompile(`\(([^()]*)\)`)

func countTop(s string) int {
	if strings.TrimSpace(s) == "" {
		return 0
	}
	return len(strings.Split(s, ", "))
}

type bindStats struct {
	Cases         int            `json:"cases"`
	Results       map[string]int `json:"result_kinds"`
	Classes       map[string]int `json:"error_classes"`
	Distinct      int            `json:"distinct_cases"`
	NonTrivial    int            `json:"distinct_nontrivial"`
	WithInsert    int            `json:"ok_with_insert"`
	WithOutputs   int            `json:"ok_with_outputs"`
	WithBulk      int            `json:"ok_with_bulk_rows"`
	Samples       []string       `json:"samples"`
	Other         int            `json:"unknown_error_wordings"`
	SpecChecked   int            `json:"accepted_outputs_checked_against_the_property_transcription"`
	SpecAbstained int            `json:"accepted_outputs_the_transcription_abstained_on"`
}

func cmdBind(args []string) int {
	fs := flag.NewFlagSet("bind", flag.ExitOnError)
	seed := fs.Uint64("seed", 1, "seed")
	n := fs.Int("n", 1000, "number of generated cases")
	outDir := fs.String("out", ".", "output directory")
	fs.Parse(args)

	violFile, _ := os.Create(*outDir + "/oracle.jsonl")
	defer violFile.Close()
	nviol := 0
	addViol := func(v violation) {
		nviol++
		b, _ := json.Marshal(v)
		violFile.Write(append(b, '\n'))
	}
	go watchdog(addViol)

	r := newRng(*seed)
	g := &bindGen{r: r, f: &filler{r: r.fork(), zeroP: 2, nilP: 2}}
	cases, _ := os.Create(*outDir + "/cases.txt")
	impl, _ := os.Create(*outDir + "/impl.txt")
	cw := bufio.NewWriterSize(cases, 1<<20)
	iw := bufio.NewWriter(impl)
	st := bindStats{Results: map[string]int{}, Classes: map[string]int{}}
	seen := map[string]bool{}
	var ring []heldStmt
	// the statement for the empty query, through MustPrepare, before and after everything else
	emptyProbe := func() string {
		defer func() { recover() }()
		return runOnce(sqlair.MustPrepare(""), nil)
	}
	emptyBefore := emptyProbe()
	defer func() {
		if after := emptyProbe(); after != emptyBefore {
			for _, p := range []string{"C16", "C01"} {
				addViol(violation{p, "statement-sends-something-else-after-other-statements-were-prepared", hx(""), "MustPrepare(\"\") at the start: " + trunc(emptyBefore, 200) + "  at the end: " + trunc(after, 200)})
			}
		}
	}()
	var follow *bindCase
	for i := 0; i < *n; i++ {
		var c bindCase
		if follow != nil {
			c, follow = *follow, nil
		} else {
			c = g.next()
			// now and then the same query is prepared again with one more sample (a duplicate, a pointer, nil,
			// a same-named type): whatever the first Prepare left behind, the second is judged on its own samples
			if len(c.samples) > 0 && g.r.chance(1, 6) {
				f := c
				f.samples = append(append([]any{}, c.samples...), g.r.pick2(c.samples[0], &Person{}, nil, zoo2.Person{}, 5))
				follow = &f
			}
		}
		env := newTypeEnv()
		ss := dumpSamples(env, c.samples)
		as := dumpArgs(env, c.args)
		line := fmt.Sprintf("(bind x%s %s %s %s)", hex.EncodeToString([]byte(c.query)), env.dump(), ss, as)
		currentCase.Store(c.query)
		caseStart.Store(time.Now().UnixNano())
		o := implBind(c)
		caseStart.Store(0)
		fmt.Fprintln(cw, line)
		fmt.Fprintln(iw, o.line)
		bindOracles(c, o, addViol)
		specOracle(c, o, &st, addViol)
		// Statements stay in use while others are prepared: the eight most recent accepted ones are run again
		// after every new Prepare and must send what they sent when they were new
		if o.stmt != nil && strings.HasPrefix(o.line, "OK") {
			ring = append(ring, heldStmt{stmt: o.stmt, args: c.args, query: c.query, ref: runOnce(o.stmt, c.args)})
			if len(ring) > 8 {
				ring = ring[1:]
			}
		}
		for _, h := range ring {
			if got := runOnce(h.stmt, h.args); got != h.ref {
				for _, p := range []string{"C16", "C05", "C03", "C01"} {
					addViol(violation{p, "statement-sends-something-else-after-other-statements-were-prepared", hx(h.query), "when new: " + trunc(h.ref, 300) + "  after preparing " + strconv.Quote(trunc(c.query, 120)) + ": " + trunc(got, 300)})
				}
				ring = nil
				break
			}
		}
		st.Cases++
		f := strings.Fields(o.line)
		st.Results[f[0]]++
		if len(f) > 1 && strings.HasSuffix(f[0], "-ERR") {
			st.Classes[f[1]]++
			if f[1] == "other" {
				st.Other++
			}
		}
		if f[0] == "OK" {
			if strings.Contains(o.sql, ") VALUES (") {
				st.WithInsert++
			}
			if strings.Contains(o.sql, "), (") {
				st.WithBulk++
			}
			if o.query {
				st.WithOutputs++
			}
		}
		if !seen[line] {
			seen[line] = true
			st.Distinct++
			if f[0] != "PARSE-ERR" {
				st.NonTrivial++
			}
		}
		if i < 2 || (i%(*n/5+1) == 0 && len(st.Samples) < 7) {
			st.Samples = append(st.Samples, fmt.Sprintf("%s | samples %d | args %d -> %s", c.query, len(c.samples), len(c.args), trunc(o.line, 200)))
		}
	}
	typedNilProbe(addViol)
	cw.Flush()
	iw.Flush()
	cases.Close()
	impl.Close()
	sb, _ := json.MarshalIndent(st, "", " ")
	os.WriteFile(*outDir+"/stats.json", sb, 0o644)
	fmt.Printf("bind: %d cases, results %v, %d oracle violations\n", st.Cases, st.Results, nviol)
	return 0
}

// typedNilProbe: members of interface type holding typed nil pointers ("including nil and typed-nil values",
// C18).  The model does not describe such values (DESIGN section 9), so they go to the implementation only; the
// oracles are the ones every binding case meets: an error or a run, never a panic.
func typedNilProbe(add func(violation)) {
	vals := []any{(*time.Time)(nil), (*Amount)(nil), (*sql.NullString)(nil), (*int)(nil), (*Person)(nil), (*MyStr)(nil),
		(*reflect.Value)(nil), (*sqlair.M)(nil), (*[]int)(nil), (*error)(nil), (*PtrValuer)(nil)}
	queries := []string{"INSERT INTO t (*) VALUES ($Loose.*)", "INSERT INTO t (id, x) VALUES ($Loose.*)",
		"INSERT INTO t (x, v) VALUES ($Loose.x, $Loose.v)", "SELECT 1 FROM t WHERE x = $Loose.x OR v = $Loose.v"}
	for _, v := range vals {
		l := Loose{ID: 1, V: v, X: v}
		for _, q := range queries {
			for _, arg := range []any{l, &l, []Loose{l, l}, []*Loose{&l}} {
				if rt := reflect.TypeOf(arg); rt.Kind() == reflect.Slice && !strings.HasPrefix(q, "INSERT INTO t (*)") && !strings.HasPrefix(q, "INSERT INTO t (id") {
					continue
				}
				c := bindCase{query: q, samples: []any{Loose{}}, args: []any{arg}}
				bindOracles(c, implBind(c), add)
			}
		}
	}
}

func trunc(s string, n int) string {
	if len(s) > n {
		return s[:n] + "..."
	}
	return s
}

func init() { commands["bind"] = cmdBind }
