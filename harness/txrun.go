package main

// Transaction histories (C12, also C05/C09/C20 on the TX path): sequential
// scripts compared with the model, and racing finishers checked by oracles.

import (
	"bufio"
	"context"
	"database/sql"
	"database/sql/driver"
	"encoding/json"
	"errors"
	"flag"
	"fmt"
	"os"
	"strings"
	"sync"
	"sync/atomic"
	"time"

	"github.com/canonical/sqlair"
)

type txWorld struct {
	f       *fakeDB
	db      *sqlair.DB
	tx      *sqlair.TX
	conn    int
	queries []*sqlair.Query
	kinds   []int
	nilctx  []bool
	shaped  bool // every query of this script uses the shape-dependent statement
	pos     int
	viol    func(prop, name, detail string)
	// later: once the transaction is finished another one is begun on the same DB and stays open
	// until the end of the script; nothing done through the finished handle may touch it
	later bool
	tx2   *sqlair.TX
	conn2 int
}

// beginLater begins the second transaction (after the first has been finished).
func (w *txWorld) beginLater() {
	if !w.later || w.tx2 != nil {
		return
	}
	tx2, err := w.db.Begin(context.WithValue(context.Background(), markerKey, 998), nil)
	if err != nil {
		w.viol("C12", "begin-after-a-finished-transaction-failed", err.Error())
		return
	}
	w.tx2 = tx2
	evs := w.f.log()
	for _, ev := range evs[w.pos:] {
		if ev.Kind == "begin" {
			w.conn2 = ev.Conn
		}
	}
	w.pos = len(evs)
}

// endLater: the later transaction is still open and its own: a statement runs on its connection and
// Commit succeeds and reaches the driver.
func (w *txWorld) endLater() {
	if w.tx2 == nil {
		return
	}
	w.pos = len(w.f.log())
	err := w.tx2.Query(context.Background(), txStmts[0], Person{ID: 77, Name: "later"}).Run()
	cerr := w.tx2.Commit()
	var seq []string
	for _, ev := range w.f.log()[w.pos:] {
		switch ev.Kind {
		case "exec", "query", "commit", "rollback":
			seq = append(seq, fmt.Sprintf("%s@%d", ev.Kind, ev.Conn))
		}
	}
	want := fmt.Sprintf("exec@%d commit@%d", w.conn2, w.conn2)
	if err != nil || cerr != nil || strings.Join(seq, " ") != want {
		w.viol("C12", "later-transaction-disturbed-through-a-finished-handle", fmt.Sprintf("run: %v, commit: %v, driver saw [%s], want [%s]", err, cerr, strings.Join(seq, " "), want))
	}
	w.pos = len(w.f.log())
}

var txStmts = []*sqlair.Statement{
	sqlair.MustPrepare("UPDATE person SET name = $Person.name WHERE id = $Person.id", Person{}),
	sqlair.MustPrepare("SELECT &Person.* FROM person WHERE id = $Person.id", Person{}),
	sqlair.MustPrepare("INSERT INTO person (*) VALUES ($Person.*)", Person{}),
	// a statement whose SQL depends on the argument shape (slice length)
	// (the number of parameters is the same for every shape: q+1 integers and 3-q strings)
	sqlair.MustPrepare("SELECT &Person.* FROM person WHERE id IN ($IntSlice[:]) OR name IN ($StrSlice[:])", Person{}, IntSlice{}, StrSlice{}),
	// statements whose text begins with a keyword of transaction control or of schema change: to sqlair they are
	// statements like any other (it is the database that gives them a meaning)
	sqlair.MustPrepare("ROLLBACK TO SAVEPOINT sp"),
	sqlair.MustPrepare("SAVEPOINT sp"),
	sqlair.MustPrepare("COMMIT AND CHAIN"),
	sqlair.MustPrepare("ALTER TABLE person ADD COLUMN email TEXT"),
	sqlair.MustPrepare("drop index if exists i"),
	sqlair.MustPrepare("END; BEGIN"),
	sqlair.MustPrepare("RELEASE sp"),
}

// the context the transaction is begun with: TX.Query must not inherit it (a nil context given to
// TX.Query behaves as context.Background())
const beginMarker = 999

func txArgs(kind int, r *rng) []any {
	if kind == 3 {
		sl, ss := twoSlices(r.intn(3))
		return []any{sl, ss}
	}
	if kind > 3 {
		return nil
	}
	return []any{Person{ID: 7, Name: "n"}}
}

func newTxWorld(r *rng, viol func(prop, name, detail string)) *txWorld {
	sqldb, f := openFake()
	w := &txWorld{f: f, db: sqlair.NewDB(sqldb), viol: viol}
	// some statements are run on the DB first so that they are cached
	for i, st := range txStmts {
		if r.chance(1, 2) {
			if i == 3 {
				var ps []Person
				w.db.Query(context.Background(), st, txArgs(3, r)...).GetAll(&ps)
			} else if i > 3 {
				w.db.Query(context.Background(), st).Run()
			} else {
				w.db.Query(context.Background(), st, Person{ID: i + 1, Name: "pre"}).Run()
			}
		}
	}
	bctx, cancel := context.WithTimeout(context.WithValue(context.Background(), markerKey, beginMarker), time.Hour)
	_ = cancel
	// transactions begun with options and with a nil context too (what Begin does with them is outside
	// the properties; what TX.Query, Commit and Rollback do afterwards is not)
	var opts *sqlair.TXOptions
	switch r.intn(4) {
	case 0:
		opts = &sqlair.TXOptions{Isolation: sql.LevelSerializable, ReadOnly: true}
	case 1:
		opts = &sqlair.TXOptions{Isolation: sql.LevelReadCommitted}
	}
	nilBegin := r.chance(1, 5)
	var tx *sqlair.TX
	var err error
	func() {
		defer func() {
			if rec := recover(); rec != nil {
				err = fmt.Errorf("PANIC %v", rec)
			}
		}()
		if nilBegin {
			tx, err = w.db.Begin(nil, opts)
		} else {
			tx, err = w.db.Begin(bctx, opts)
		}
	}()
	if err != nil {
		// (Begin is outside the properties: nothing is reported, the script goes on with a default transaction)
		tx, err = w.db.Begin(bctx, nil)
		if err != nil {
			panic(err)
		}
	}
	w.tx = tx
	for _, ev := range f.log() {
		if ev.Kind == "begin" {
			w.conn = ev.Conn
		}
	}
	w.pos = len(f.log())
	return w
}

func (w *txWorld) events(marker int) []string {
	var out []string
	evs := w.f.log()
	for _, ev := range evs[w.pos:] {
		same := "!"
		if ev.Conn == w.conn {
			same = "="
		}
		switch ev.Kind {
		case "exec", "query":
			out = append(out, "X"+same)
			// C09: the driver statement that is executed was prepared for exactly this call's SQL:
			// as many placeholders as arguments
			if n := strings.Count(ev.SQL, "@sqlair_"); n != len(ev.Args) {
				w.viol("C09", "tx-executed-a-statement-prepared-for-another-shape", fmt.Sprintf("%d arguments for %q", len(ev.Args), ev.SQL))
			}
			if d := shapeMismatch(ev); d != "" {
				w.viol("C09", "tx-executed-a-statement-prepared-for-another-shape", d)
				w.viol("C12", "tx-executed-a-statement-prepared-for-another-shape", d)
				w.viol("C16", "tx-executed-a-statement-prepared-for-another-shape", d)
				w.viol("C15", "tx-executed-a-statement-prepared-for-another-shape", d)
			}
			if marker == -1 {
				// the query was built with a nil context: the driver must see context.Background()
				if ev.CtxMarker != nil || ev.Deadline {
					w.viol("C20", "nil-context-is-not-background", fmt.Sprintf("marker %v deadline %v", ev.CtxMarker, ev.Deadline))
				}
			}
			if same == "!" {
				w.viol("C12", "tx-statement-on-other-connection", fmt.Sprintf("%s on conn %d, tx conn %d", ev.SQL, ev.Conn, w.conn))
			}
			if marker > 0 {
				if m, _ := ev.CtxMarker.(int); m != marker {
					w.viol("C20", "tx-execution-without-callers-context", fmt.Sprintf("marker %v want %d", ev.CtxMarker, marker))
				}
			}
		case "prepare":
			// whatever a TX operation prepares, it prepares on the transaction's connection
			if same == "!" && marker != 0 {
				w.viol("C12", "tx-prepare-on-other-connection", fmt.Sprintf("%s on conn %d, tx conn %d", ev.SQL, ev.Conn, w.conn))
			}
		case "commit":
			out = append(out, "C"+same)
		case "rollback":
			out = append(out, "R"+same)
		}
	}
	w.pos = len(evs)
	return out
}

// txClosedStmt: set by the tx command; called with every error that says the prepared statement of a call on a
// transaction was closed underneath it (C10: while the caller holds the Statement, the DB and the Query no
// operation fails because its prepared statement was closed; after the end of the TX the failure is ErrTXDone).
var txClosedStmt atomic.Value // func(string)

func txErrClass(err error) string {
	if err != nil && strings.Contains(err.Error(), "statement is closed") {
		if f, ok := txClosedStmt.Load().(func(string)); ok {
			f(err.Error())
		}
	}
	switch {
	case err == nil:
		return "ok"
	case errors.Is(err, sqlair.ErrTXDone):
		return "txdone"
	case strings.Contains(err.Error(), "transaction has already been committed or rolled back"):
		// says so but is not ErrTXDone (errors.Is fails): the caller cannot recognise it
		return "txdone-in-words-only"
	case err == sqlair.ErrNoRows || strings.Contains(err.Error(), "cannot get result"):
		return "ok" // the statement ran; the retrieval outcome is not at stake here
	}
	return "err:" + err.Error()
}

func (w *txWorld) exec(op string, r *rng) string {
	var k int
	switch {
	case op == "q":
		kind := r.intn(len(txStmts))
		if w.shaped {
			kind = 3
		}
		marker := 100 + len(w.queries)
		var ctx context.Context
		isNil := r.chance(1, 4)
		if !isNil {
			ctx = context.WithValue(context.Background(), markerKey, marker)
		}
		args := txArgs(kind, r)
		if kind == 3 && r.chance(2, 3) {
			// meanwhile the shaped statement is run on the DB itself with this very shape: the cache entry
			// now holds this shape, whatever shape the transaction used before
			var ps []Person
			w.db.Query(context.Background(), txStmts[3], args...).GetAll(&ps)
			w.pos = len(w.f.log())
		} else if r.chance(1, 6) {
			var ps []Person
			w.db.Query(context.Background(), txStmts[3], txArgs(3, r)...).GetAll(&ps)
			w.pos = len(w.f.log())
		}
		w.queries = append(w.queries, w.tx.Query(ctx, txStmts[kind], args...))
		w.kinds = append(w.kinds, kind)
		w.nilctx = append(w.nilctx, isNil)
		return fmt.Sprintf("q%d", len(w.queries)-1)
	case scan(op, "(run %d)", &k):
		if k >= len(w.queries) {
			return "?"
		}
		var err error
		var oc sqlair.Outcome
		switch {
		case (k+len(w.queries))%4 == 1:
			// through Get with an Outcome, and through an explicit iterator asked for the Outcome
			var p Person
			if w.kinds[k] == 1 || w.kinds[k] == 3 {
				err = w.queries[k].Get(&oc, &p)
			} else {
				err = w.queries[k].Get(&oc)
			}
		case (k+len(w.queries))%4 == 2:
			it := w.queries[k].Iter()
			err = it.Get(&oc)
			if cerr := it.Close(); err == nil {
				err = cerr
			}
		case w.kinds[k] == 1 || w.kinds[k] == 3:
			var ps []Person
			err = w.queries[k].GetAll(&ps)
		default:
			err = w.queries[k].Run()
		}
		mk := 100 + k
		if w.nilctx[k] {
			mk = -1
		}
		evs := w.events(mk)
		if len(evs) > 1 {
			w.viol("C05", "statement-sent-to-the-driver-more-than-once", strings.Join(evs, "."))
			evs = evs[:1]
		}
		return strings.Join(append(evs, txErrClass(err)), ".")
	case op == "commit":
		err := w.tx.Commit()
		res := strings.Join(append(w.events(0), txErrClass(err)), ".")
		w.beginLater()
		return res
	case op == "rollback":
		err := w.tx.Rollback()
		res := strings.Join(append(w.events(0), txErrClass(err)), ".")
		w.beginLater()
		return res
	}
	return "?"
}

func genTxScript(r *rng) []string {
	var ops []string
	nq := 0
	ran := map[int]bool{}
	n := 2 + r.intn(10)
	for i := 0; i < n; i++ {
		switch k := r.intn(10); {
		case k < 3:
			ops = append(ops, "q")
			nq++
		case k < 7 && nq > 0:
			q := r.intn(nq)
			if !ran[q] {
				ops = append(ops, fmt.Sprintf("(run %d)", q))
				ran[q] = true
			}
		case k == 7:
			ops = append(ops, "commit")
		case k == 8:
			ops = append(ops, "rollback")
		default:
			ops = append(ops, "q")
			nq++
		}
	}
	return ops
}

// txRace releases n finishers (and runs of earlier built queries) at the same
// time and checks the driver log.
func txRace(r *rng, add func(violation)) {
	desc := fmt.Sprintf("tx race seed-state %d", r.s)
	viol := func(prop, name, detail string) { add(violation{prop, name, hx(desc), detail}) }
	w := newTxWorld(r, viol)
	n := 2 + r.intn(5)
	nq := r.intn(3)
	for i := 0; i < nq; i++ {
		w.exec("q", r)
	}
	// hold the driver's commit/rollback for a moment so that the others overlap
	w.f.gate = func(ev event) {
		if ev.Kind == "commit" || ev.Kind == "rollback" {
			time.Sleep(200 * time.Microsecond)
		}
	}
	start := make(chan struct{})
	errs := make([]error, n)
	var wg sync.WaitGroup
	for i := 0; i < n; i++ {
		wg.Add(1)
		commit := r.chance(1, 2)
		go func(i int) {
			defer wg.Done()
			<-start
			if commit {
				errs[i] = w.tx.Commit()
			} else {
				errs[i] = w.tx.Rollback()
			}
		}(i)
	}
	for i := 0; i < nq; i++ {
		wg.Add(1)
		go func(i int) {
			defer wg.Done()
			<-start
			w.queries[i].Run()
		}(i)
	}
	close(start)
	wg.Wait()
	finishes, okc := 0, 0
	finished := false
	for _, ev := range w.f.log()[w.pos:] {
		switch ev.Kind {
		case "commit", "rollback":
			finishes++
			finished = true
			if ev.Conn != w.conn {
				viol("C12", "finish-on-other-connection", ev.Kind)
			}
		case "exec", "query":
			if finished {
				viol("C12", "statement-after-the-transaction-ended", ev.SQL)
			}
			if ev.Conn != w.conn {
				viol("C12", "tx-statement-on-other-connection", ev.SQL)
			}
		}
	}
	for _, e := range errs {
		if e == nil {
			okc++
		} else if txErrClass(e) != "txdone" {
			viol("C12", "finisher-returned-unexpected-error", e.Error())
		}
	}
	if finishes != 1 || okc != 1 {
		viol("C12", "not-exactly-one-finisher", fmt.Sprintf("%d finish events at the driver, %d calls returned nil, of %d concurrent calls", finishes, okc, n))
	}
	// afterwards everything fails with ErrTXDone and sends nothing
	before := len(w.f.log())
	e1 := w.tx.Commit()
	e2 := w.tx.Rollback()
	e3 := w.tx.Query(context.Background(), txStmts[0], Person{ID: 1}).Run()
	// ... also when the arguments of the new Query would not bind (none, nil, another type)
	for _, bad := range [][]any{nil, {nil}, {Address{}}} {
		if e := w.tx.Query(context.Background(), txStmts[0], bad...).Run(); txErrClass(e) != "txdone" {
			e3 = e
		}
	}
	if txErrClass(e1) != "txdone" || txErrClass(e2) != "txdone" || txErrClass(e3) != "txdone" {
		viol("C12", "operation-after-end-did-not-fail-with-ErrTXDone", fmt.Sprint(e1, e2, e3))
	}
	if len(w.f.log()) != before {
		viol("C12", "driver-call-after-the-transaction-ended", fmt.Sprint(w.f.log()[before:]))
	}
	w.db.PlainDB().Close()
	dropFakeDB(w.f.name)
}

// txFault: a statement of the transaction fails in the driver (an ordinary error, driver.ErrBadConn, an
// error that wraps it).  database/sql keeps the sql.Tx open after any of them, so the transaction is
// still there: a later statement runs on its connection, the first Commit or Rollback reaches the
// driver (exactly one), and only afterwards everything fails with ErrTXDone.
func txFault(r *rng, add func(violation)) {
	desc := fmt.Sprintf("tx fault seed-state %d", r.s)
	viol := func(prop, name, detail string) { add(violation{prop, name, hx(desc), detail}) }
	w := newTxWorld(r, viol)
	defer func() { w.db.PlainDB().Close(); dropFakeDB(w.f.name) }()
	fault := []error{fmt.Errorf("injected-7"), driver.ErrBadConn, fmt.Errorf("wrapped: %w", driver.ErrBadConn), nil}[r.intn(4)]
	nbefore := r.intn(3)
	for i := 0; i < nbefore; i++ {
		w.tx.Query(context.Background(), txStmts[r.intn(3)], Person{ID: 10 + i, Name: "a"}).Run()
	}
	w.f.mu.Lock()
	w.f.failKinds = map[string]bool{"exec": true, "query": true}
	w.f.failAt = map[int]error{w.f.calls + 1: fault}
	w.f.mu.Unlock()
	kind := r.intn(3)
	callCtx := context.Background()
	if fault == nil {
		// no driver fault: the call's own context has ended (the transaction's has not)
		c, cancel := cancellable(context.Background(), r.next())
		cancel()
		callCtx = c
		fault = context.Canceled
		w.f.mu.Lock()
		w.f.failAt = map[int]error{}
		w.f.mu.Unlock()
	}
	err := w.tx.Query(callCtx, txStmts[kind], Person{ID: 666, Name: "f"}).Run()
	w.f.mu.Lock()
	w.f.failKinds = nil
	w.f.failAt = map[int]error{}
	w.f.mu.Unlock()
	if err == nil {
		return // the fault did not reach this statement (nothing to check)
	}
	w.pos = len(w.f.log())
	if r.chance(1, 2) {
		if e := w.tx.Query(context.Background(), txStmts[0], Person{ID: 5, Name: "after"}).Run(); e != nil {
			viol("C12", "statement-after-a-failed-statement-refused", fmt.Sprintf("after %v: %v", fault, e))
		}
	}
	commit := r.chance(1, 2)
	var ferr error
	if commit {
		ferr = w.tx.Commit()
	} else {
		ferr = w.tx.Rollback()
	}
	finishes := 0
	for _, ev := range w.f.log()[w.pos:] {
		switch ev.Kind {
		case "commit", "rollback":
			finishes++
			if ev.Conn != w.conn {
				viol("C12", "finish-on-other-connection", ev.Kind)
			}
		case "exec", "query":
			if ev.Conn != w.conn {
				viol("C12", "tx-statement-on-other-connection", ev.SQL)
			}
		}
	}
	if finishes != 1 || ferr != nil {
		viol("C12", "not-exactly-one-finisher", fmt.Sprintf("after a statement failed with %q: %d finish events at the driver, the first finisher returned %v", fault, finishes, ferr))
		// (a transaction that can no longer be finished keeps its connection: a failed call has exhausted
		// part of the pool)
		viol("C13", "connection-of-the-transaction-cannot-be-released", fmt.Sprintf("after a statement failed with %q: %d finish events at the driver, the first finisher returned %v", fault, finishes, ferr))
		if fault == context.Canceled {
			// the context of ONE call ended: that call fails with its error; nothing else happens to the
			// transaction (it was begun under another context)
			viol("C20", "a-cancelled-call-ended-the-transaction", fmt.Sprintf("%d finish events at the driver afterwards, the first finisher returned %v", finishes, ferr))
		}
	}
	before := len(w.f.log())
	e1, e2 := w.tx.Commit(), w.tx.Rollback()
	if txErrClass(e1) != "txdone" || txErrClass(e2) != "txdone" || len(w.f.log()) != before {
		viol("C12", "operation-after-end-did-not-fail-with-ErrTXDone", fmt.Sprint(e1, e2))
	}
}

// txOpenIter: an Iterator of a transaction's query is still open (not closed, perhaps not read to the end)
// when Commit or Rollback is called: the call reaches the driver (exactly one finish on the transaction's
// connection) and only afterwards everything fails with ErrTXDone.
func txOpenIter(r *rng, add func(violation)) {
	desc := fmt.Sprintf("tx with an open iterator seed-state %d", r.s)
	viol := func(prop, name, detail string) { add(violation{prop, name, hx(desc), detail}) }
	w := newTxWorld(r, viol)
	defer func() { w.db.PlainDB().Close(); dropFakeDB(w.f.name) }()
	kind := []int{1, 3}[r.intn(2)]
	it := w.tx.Query(context.Background(), txStmts[kind], txArgs(kind, r)...).Iter()
	switch r.intn(3) {
	case 0:
	case 1:
		it.Next()
	default:
		for it.Next() {
		}
	}
	w.pos = len(w.f.log())
	var ferr error
	if r.chance(2, 3) {
		ferr = w.tx.Commit()
	} else {
		ferr = w.tx.Rollback()
	}
	finishes := 0
	for _, ev := range w.f.log()[w.pos:] {
		if ev.Kind == "commit" || ev.Kind == "rollback" {
			finishes++
			if ev.Conn != w.conn {
				viol("C12", "finish-on-other-connection", ev.Kind)
			}
		}
	}
	if finishes != 1 || ferr != nil {
		viol("C12", "not-exactly-one-finisher", fmt.Sprintf("with an Iterator of the transaction still open: %d finish events at the driver, the first finisher returned %v", finishes, ferr))
	}
	it.Close()
	before := len(w.f.log())
	e1, e2 := w.tx.Commit(), w.tx.Rollback()
	if txErrClass(e1) != "txdone" || txErrClass(e2) != "txdone" || len(w.f.log()) != before {
		viol("C12", "operation-after-end-did-not-fail-with-ErrTXDone", fmt.Sprint(e1, e2))
	}
}

// txThenDB: a Statement that the DB has not seen is run k times in a row inside one transaction, the transaction
// ends, and the same Statement is run on the DB (and in a second transaction) with the same arguments: whatever the
// transaction prepared for itself is gone with it, the later calls neither fail nor reach a closed driver statement.
func txThenDB(r *rng, add func(violation)) {
	desc := fmt.Sprintf("statement run in a transaction, then on the DB seed-state %d", r.s)
	currentCase.Store(desc)
	viol := func(prop, name, detail string) { add(violation{prop, name, hx(desc), detail}) }
	sqldb, f := openFake()
	db := sqlair.NewDB(sqldb)
	defer func() { sqldb.Close(); dropFakeDB(f.name) }()
	kind := r.intn(4)
	args := txArgs(kind, r)
	run := func(q *sqlair.Query) error {
		if kind == 1 || kind == 3 {
			var ps []Person
			return q.GetAll(&ps)
		}
		return q.Run()
	}
	tx, err := db.Begin(context.Background(), nil)
	if err != nil {
		return
	}
	k := 1 + r.intn(8)
	for i := 0; i < k; i++ {
		if c := txErrClass(run(tx.Query(context.Background(), txStmts[kind], args...))); c != "ok" {
			viol("C10", "call-in-transaction-failed", fmt.Sprintf("run %d of %d: %s", i+1, k, c))
			return
		}
	}
	if r.chance(1, 2) {
		tx.Commit()
	} else {
		tx.Rollback()
	}
	for i := 0; i < 2; i++ {
		if c := txErrClass(run(db.Query(context.Background(), txStmts[kind], args...))); c != "ok" {
			viol("C10", "call-on-the-DB-after-a-transaction-failed", fmt.Sprintf("after %d runs in a transaction that has ended: %s", k, c))
		}
	}
	if tx2, err := db.Begin(context.Background(), nil); err == nil {
		if c := txErrClass(run(tx2.Query(context.Background(), txStmts[kind], args...))); c != "ok" {
			viol("C10", "call-in-a-later-transaction-failed", c)
		}
		tx2.Rollback()
	}
	for _, ev := range f.log() {
		if strings.HasSuffix(ev.Kind, "-on-closed") {
			viol("C10", "closed-driver-statement-executed", ev.Kind+" "+ev.SQL)
		}
	}
}

type txStats struct {
	Later      int            `json:"scripts_with_a_later_transaction_open_after_the_finish"`
	Cases      int            `json:"cases"`
	Ops        map[string]int `json:"op_kinds"`
	Distinct   int            `json:"distinct_cases"`
	NonTrivial int            `json:"distinct_nontrivial"`
	Races      int            `json:"finisher_races"`
	Samples    []string       `json:"samples"`
}

func cmdTx(args []string) int {
	fs := flag.NewFlagSet("tx", flag.ExitOnError)
	seed := fs.Uint64("seed", 1, "seed")
	n := fs.Int("n", 500, "number of generated scripts")
	races := fs.Int("races", 100, "number of finisher races")
	outDir := fs.String("out", ".", "output directory")
	fs.Parse(args)
	violFile, _ := os.Create(*outDir + "/oracle.jsonl")
	defer violFile.Close()
	nviol := 0
	var vmu sync.Mutex
	addViol := func(v violation) {
		vmu.Lock()
		nviol++
		b, _ := json.Marshal(v)
		violFile.Write(append(b, '\n'))
		vmu.Unlock()
	}
	go watchdog(addViol)
	txClosedStmt.Store(func(msg string) {
		req, _ := currentCase.Load().(string)
		addViol(violation{"C10", "operation-failed-statement-closed", hx(req), "on a transaction: " + msg})
	})
	r := newRng(*seed)
	cases, _ := os.Create(*outDir + "/cases.txt")
	impl, _ := os.Create(*outDir + "/impl.txt")
	cw := bufio.NewWriter(cases)
	iw := bufio.NewWriter(impl)
	st := txStats{Ops: map[string]int{}}
	seen := map[string]bool{}
	for i := 0; i < *n; i++ {
		ops := genTxScript(r)
		req := "(tx (" + strings.Join(ops, " ") + "))"
		currentCase.Store(req)
		caseStart.Store(time.Now().UnixNano())
		w := newTxWorld(r, func(prop, name, detail string) { addViol(violation{prop, name, hx(req), detail}) })
		w.shaped = i%4 == 3
		w.later = i%3 == 1
		var outs []string
		for _, op := range ops {
			outs = append(outs, w.exec(op, r))
			st.Ops[strings.Fields(strings.Trim(op, "()"))[0]]++
		}
		if w.tx2 != nil {
			st.Later++
		}
		w.endLater()
		w.db.PlainDB().Close()
		dropFakeDB(w.f.name)
		caseStart.Store(0)
		fmt.Fprintln(cw, req)
		fmt.Fprintln(iw, strings.Join(outs, " "))
		st.Cases++
		if !seen[req] {
			seen[req] = true
			st.Distinct++
			if len(ops) > 2 {
				st.NonTrivial++
			}
		}
		if i < 2 || (i%(*n/4+1) == 0 && len(st.Samples) < 6) {
			st.Samples = append(st.Samples, req+" -> "+strings.Join(outs, " "))
		}
	}
	for i := 0; i < *races; i++ {
		txRace(r.fork(), addViol)
		txFault(r.fork(), addViol)
		txOpenIter(r.fork(), addViol)
		txThenDB(r.fork(), addViol)
		st.Races++
	}
	cw.Flush()
	iw.Flush()
	cases.Close()
	impl.Close()
	sb, _ := json.MarshalIndent(st, "", " ")
	os.WriteFile(*outDir+"/stats.json", sb, 0o644)
	fmt.Printf("tx: %d scripts, %d races, %d oracle violations\n", st.Cases, st.Races, nviol)
	return 0
}

func init() { commands["tx"] = cmdTx }
